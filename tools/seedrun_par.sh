#!/bin/bash
# seedrun_par.sh <patch.diff> <CHECK_ID> [tier] [seed]: run one check against a scratch COPY of /repo with a
# seeded change applied (so several seeded changes can be tried at once and /repo is never touched).
# The copy of /verif keeps the run's evidence and replays out of the committed tree. Everything is removed afterwards.
P=$(readlink -f "$1"); ID=$2; TIER=${3:-quick}; SEED=${4:-1}
D=$(mktemp -d /tmp/sr-$ID.XXXXXX)
trap 'rm -rf "$D"' EXIT
rsync -a --exclude '.git/worktrees' /repo/ "$D/repo/"; r=$?; [ $r = 0 ] || [ $r = 24 ] || exit 3
rsync -a --exclude .git --exclude replays /verif/ "$D/verif/"; r=$?; [ $r = 0 ] || [ $r = 24 ] || exit 3
( cd "$D/repo" && git reset -q --hard HEAD && git clean -fdq && git apply "$P" ) || { echo "patch does not apply"; exit 3; }
( cd "$D/verif" && VERIF_SEED=$SEED VERIF_REPO="$D/repo" timeout 3600 ./check "$ID" "$TIER" ); rc=$?
echo "check exit=$rc"
exit $rc
