#!/usr/bin/env python3
"""keep_seed.py ID N "<detected_by / result text>": copy a confirmed seeded change into /verif/seeded/ID-N/ with an augmented meta.json"""
import json,os,shutil,subprocess,sys
ID,N,res=sys.argv[1],sys.argv[2],sys.argv[3]
R=os.environ.get("ROUND","1")
OUT="/tmp/seed-out" if R=="1" else f"/tmp/seed-out{R}"
K=int(N)+3*(int(R)-1)
src=f"{OUT}/{ID}/{N}"; dst=f"/verif/seeded/{ID}-{K}"
os.makedirs(dst,exist_ok=True)
for f in os.listdir(src):
    shutil.copy(os.path.join(src,f),dst)
m=json.load(open(f"{dst}/meta.json"))
m["demo_cmd"]=m["demo_cmd"].replace(src,dst)
conf=subprocess.run(["python3","/verif/tools/confirm_seed.py",ID,N],stdout=subprocess.PIPE,text=True).stdout.splitlines()[0]
m["confirmed_in_scratch_worktree"]=json.loads(conf)
m["what_i_ran"]=[f"python3 tools/confirm_seed.py {ID} {N}   (apply in /tmp/seed-{ID}; go build; go test ./...; demo with and without the change)",
                 f"tools/seedrun.sh seeded/{ID}-{K}/patch.diff <check> quick   (apply to /repo, run check, git checkout)"]
m["check_result"]=res
json.dump(m,open(f"{dst}/meta.json","w"),indent=1)
print(dst, conf)
