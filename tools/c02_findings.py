#!/usr/bin/env python3
"""Writes the C02/C01 known-finding entries (one per catalogue construct that is a confirmed defect of the pinned tree)
and a witness Go file for each under findings/C02/<key>/gen.go (extracted from harness/goosegen/catalogue.go)."""
import json,re,os
what={
"addr.define-local":"p := &x for a := local yields the value, not a pointer: a store through p is stuck (Go: x becomes 6)",
"block.bare-shadow":"a bare block { x := 2 } is printed without parentheses: the inner let leaks and the function returns 2 where Go returns 1",
"loopvar.shadow-used-after":"for i := ... hides an outer i that is used after the loop: the let of the loop variable is emitted outside the loop's parentheses",
"compare.nil-map":"m == nil for a nil map compares a null location with slice.nil: false in GooseLang, true in Go",
"compare.nil-slice-empty":"make([]T, 0) == nil is false in Go, but NewSlice t #0 is slice.nil in GooseLang (true)",
"const.untyped-in-u32":"an untyped constant sub-expression in a 32-bit context (f(1 << 20), f uint32) is emitted with 64-bit literals: mixed-width operation, stuck",
"conv.byte":"byte(x) is a no-op: uint64(byte(300)) is 300 in GooseLang, 44 in Go",
"conv.named-int":"T(x) for a named integer type T is a no-op: no truncation",
"field-assign.define-local":"v.n = 9 on a := struct local emits struct.storeF on a value (stuck)",
"incdec.u32":"y++ on a uint32 emits + #1 with a 64-bit literal (mixed-width +, stuck)",
"incdec.u8":"y++ on a byte emits + #1 with a 64-bit literal (mixed-width +, stuck)",
"lookalike.method-name-clash":"method T.get and function T__get both become Definition T__get (duplicate name; the later one shadows the method)",
"lookalike.uint64":"a user function named uint32 is given the meaning of the integer conversion",
"order.two-effects":"operands with two side effects are evaluated right-to-left (f(p,1)*10 + f(p,2))",
"recv.pointer-on-value-method":"p.get() with a value-receiver method on a pointer passes the pointer (no implicit *)",
"recv.value-on-pointer-method":"v.inc() with a pointer-receiver method on a var struct value passes the wrong thing (no implicit &)",
"string.newline":"a string literal containing a newline is re-indented by the pretty printer: the literal gains spaces",
"string.rawnewline":"a raw string literal containing a newline is re-indented by the pretty printer: the literal gains spaces",
"type-assert.2value":"v, ok := x.(uint64) is emitted as let: (v, ok) := x and the call site as uint64__to__interface{} #7 (not even well-formed)",
"interface.extra-params":"f(x I, n uint64) called with a struct: the conversion definition is named after the LAST parameter's type (S__to__uint64, struct.mk uint64 [...]) while the call site uses S__to__I, which is never defined (the authors list this shape as failing in semantics/interfaces_failing.go)",
"interface.second-param":"f(n uint64, x I) called as f(2, S{...}): the conversion is applied to the FIRST argument (uint64__to__I #2), the struct is passed bare",
"interface.pointer-impl":"an interface implemented with pointer receivers: f(p) emits S__to__I \"p\" but no definition of S__to__I (the scan only recognises struct-typed arguments)",
"map.commaok-assign":"v, ok = m[k] as an ASSIGNMENT to existing variables (the := form is fine) is emitted as stores of Fst/Snd of something that is not the pair MapGet returns: stuck",
"generic.recursive":"a generic function that calls itself: the call goes through the recursive binder but still passes the type argument (\"f\" T x (n-1)) although the binder takes only the value parameters (T is a Coq-level parameter of the Definition): the arguments are shifted by one, stuck",
"variadic":"a variadic function is called with its arguments passed positionally instead of as a slice (stuck)",
}
src=open('/verif/harness/goosegen/catalogue.go').read()
items=dict((m.group(1),(m.group(2),m.group(3),m.group(4))) for m in re.finditer(r'\{"([^"]+)", ((?:"(?:[^"\\]|\\.)*"|`[^`]*`)), ((?:"(?:[^"\\]|\\.)*"|`[^`]*`)), "([^"]*)"\}',src))
p='/verif/known_findings.json'; k=json.load(open(p))
managed={"c02."+key for key in what}
k=[e for e in k if not (e['property']=='C02' and e.get('status')=='known' and e['key'] in managed)]
for key,w in sorted(what.items()):
    d=f"/verif/findings/C02/{key}"; os.makedirs(d,exist_ok=True)
    if key in items:
        decls,entry,ret=items[key]
        decls=json.loads(decls) if decls.startswith('"') else decls.strip('`')
        entry=json.loads(entry) if entry.startswith('"') else entry.strip('`')
        g="package gen\n\n"+decls.replace('%%','%').replace('%d','1')+"\nfunc entry() "+ret+" {\n\t"+entry.replace('%d','1')+"\n}\n"
        open(d+"/gen.go","w").write(g)
    k.append({"property":"C02","status":"known","key":"c02."+key,"witness":f"findings/C02/{key}/gen.go","what":w})
json.dump(k,open(p,'w'),indent=1)
print(len(what),"C02 findings written")
