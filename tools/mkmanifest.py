#!/usr/bin/env python3
"""Generates /verif/MANIFEST.json from the table below (edit here, not the JSON)."""
import json,subprocess
def sh(c): return subprocess.run(c,shell=True,stdout=subprocess.PIPE,text=True).stdout.strip()
hooks=[l.split()[0] for l in sh("git -C /repo log --format='%h %s' | grep 'verif hooks'").splitlines()]
CHECKS={
"C09":("model_checking","Disk.tla (register array with client-owned buffers) is model checked exhaustively for small constants; TLC-simulated behaviours are replayed on MemDisk/FileDisk through disk, async_disk and the global wrappers with every reply compared, and histories recorded from a seeded driver on the real disks are validated by TLC against DiskTrace.tla.",
  "Trusted: TLC, the pattern<->value classification of 4096-byte blocks, Linux pread/pwrite on a scratch file. Preconditions: ReadTo buffers are 4096 bytes, no use after Close.",
  "TLA+ spec + TLC exhaustive check; spec->code behaviour replay; code->spec trace validation","§4.5, §5 C09"),
"C10":("model_checking","MemDisk.tla (RWMutex, two-step block copy, ghost linearization) is model checked as written and must be violated by each modelled breaking change; the gate table printed by TLC is forced on the real MemDisk through the verif hooks; concurrent inv/res histories of MemDisk are validated for linearizability by DiskLinTrace.tla (TLC searches linearization points) and those of FileDisk for per-address real-time order by DiskRegTrace.tla; the same driver runs under the Go race detector.",
  "Trusted: TLC, atomic sequence numbers for real-time order, unique write patterns. Data-race freedom itself is decided by Go's race detector (not a statement about specification states). Gate time-outs only suppress violations.",
  "TLA+ L2 spec + TLC; trace validation of concurrent histories (linearizability search); hook-forced schedules; race detector","§4.5, §5 C10"),
"C11":("fault_enumeration","FileDisk.tla (system-call level: open/fstat/ftruncate/pread/pwrite/fsync, each able to fail, kill between calls, prior images of every length class) is model checked for SizeExact, ReadPromised, NoSilentFailure; its simulated behaviours and a systematic prior-length x numBlocks table are executed by child processes under strace, with the chosen system call made to fail (rotating errnos) at a calibrated occurrence, and every outcome compared with the specification; the strace logs are validated by DiskSyscallTrace.tla (a normal return requires the successful pwrite64/pread64/fsync).",
  "Trusted: TLC, strace fault injection (per-thread occurrence counting; the driver pins its goroutine to a thread), the page cache surviving kill -9. Short transfer counts without error are outside the claim.",
  "TLA+ L2 spec + TLC; model-generated fault/crash schedules executed under strace injection; syscall-trace validation","§4.5, §5 C11"),
"C13":("fault_enumeration","AtomicCreate.tla (system-call level, two creators, crash/fail/retry, leftovers) is model checked: the as-written single-creator configuration satisfies AllOrNothing, Untouched, ExactAfterReturn, FlushedBeforeVisible; the real DirFs.AtomicCreate is killed (SIGKILL on syscall entry) and faulted (errno) by strace at every system call of the operation for several data sizes and leftover/old-content setups, followed by a second call; the strace log of every successful call is validated by AcSyscallTrace.tla (fsync of the temp descriptor after the last write and before renameat); concurrent creators/readers are interleaved at the verif hooks; MemFs AtomicCreate bursts are validated by FsLinTrace.tla.",
  "Trusted: TLC, strace injection, kernel rename atomicity. Power loss is not observable (only process crashes and the order of flush and rename). Known finding: creators of one file name in different directories share root/<name>.tmp.",
  "TLA+ L2 spec + TLC; crash/fault enumeration under strace; syscall-trace validation; hook-forced schedules","§4.6, §5 C13"),
"C12":("model_checking","Filesys.tla/FsSem.tla (reference model) is model checked exhaustively; TLC-simulated valid histories with their specified replies are replayed on MemFs and DirFs (methods and package wrappers, unit sizes 1/3/4096/5000 bytes, caller buffers scribbled), and driver histories recorded from both implementations are validated by TLC against FsTrace.tla, including distinctness of concrete descriptor numbers.",
  "Trusted: TLC, the unit<->bytes coding, the kernel's file-system semantics under /tmp. Only histories inside the documented preconditions (FsSem!Valid) are judged.",
  "TLA+ spec + TLC exhaustive check; spec->code behaviour replay; code->spec trace validation","§4.6, §5 C12"),
"C14":("model_checking","Concurrent inv/res histories of MemFs and DirFs (random phase plus barrier-released bursts on one name) are validated for linearizability against FsSem by FsLinTrace.tla (TLC searches linearization points; concrete descriptor numbers of simultaneously open descriptors must differ); MemFs.tla models the mutex / check-then-insert / descriptor allocation and must be violated by the modelled breaking changes; its gate table is forced on the real MemFs through the verif hooks; the driver also runs under the race detector and in a child process so that a runtime abort is observed.",
  "Trusted: TLC, atomic sequence numbers. Driver discipline keeps operations inside their preconditions under every interleaving. DirFs: per-client AtomicCreate names, small directories. Race freedom is decided by Go's race detector.",
  "trace validation of concurrent histories against the TLA+ reference model (linearizability search); TLA+ L2 spec; hook-forced schedules; race detector","§4.6, §5 C14"),
"C15":("model_checking","Prims.tla defines Put/Get on limb sequences (a word IS its little-endian limb sequence) with refusal of short buffers; TLC checks RoundTrip, Framed, RefusedUntouched on every case and prints the expected buffer for every (length 0..12, prior content, value) case; the harness replays each case on UInt64Put/Get and UInt32Put/Get comparing every byte.",
  "Trusted: TLC, math/big for rebuilding numbers from limbs. The 2^64 value space is sampled (boundary limbs + seeded random); lengths and framing are exhausted.",
  "TLA+ contract evaluated by TLC as a case table; spec->code replay of every case","§4.7, §5 C15"),
"C16":("model_checking","Prims!Dec (canonical decimal by limb division) is compared with UInt64ToString; MapClear/Assume/Assert are exercised directly; WaitTimeout.tla (caller, helper goroutine, timer, signallers, leaked helpers across calls) is model checked for HeldAtReturn, NoBadUnlock, CallerOwns, PromptAfterSignal and liveness, and must be violated by the modelled breaking change; real runs of machine.WaitTimeout over timeout x signal kind/offset x prelude scenarios are validated by WaitTimeoutTrace.tla (deadline with tolerance Delta, lock held), a rejection counting only if it reproduces 3 of 3 times.",
  "Trusted: TLC; wall-clock bounds use Delta=150 ms and the reproduce-3-times rule (timing is otherwise never a verdict). Known finding: leaked helper consumes a later Signal.",
  "TLA+ L2 spec + TLC (safety and liveness); trace validation of timed runs of the real function","§4.7, §5 C16"),
}
ALL=["C%02d"%i for i in range(1,19)]
checks=[]
for k in sorted(CHECKS):
    lvl,text,note,tech,ref=CHECKS[k]
    checks.append({"property_id":k,"quick_cmd":"./check %s quick"%k,"thorough_cmd":"./check %s thorough"%k,
      "evidence_file":"evidence/%s.json"%k,"replay_cmd_template":"sh {path}/replay.sh","engine":"tlc",
      "level_claimed":{"category":lvl,"text":text,"design_ref":"DESIGN.md "+ref},"level_note":note,"technique":tech})
na=[{"property_id":k,"reason":"check not built yet in this round (work in progress; planned, see DESIGN.md §8 build order) — not a claim that the technique cannot apply"} for k in ALL if k not in CHECKS]
m={"version":1,"setup_cmd":"true",
 "hooks":{"guard":"verif","enable":"go build -tags verif (./check builds the harness and the commands with the tag)",
          "baseline_off_cmd":"cd /repo && go test -vet=off -count=1 ./...","source_commits":hooks,"add_only":True},
 "engines":[{"name":"tlc","path":"/opt/veriftools/tla/tla2tools.jar","serves_properties":sorted(CHECKS),"kind_free_text":"TLC 1.8.0 explicit-state model checker: exhaustive, simulation and trace-validation modes; driven by /verif/harness (Go)"}],
 "checks":checks,"not_applicable":na,
 "notes":"Every check: ./check <ID> <tier>; exit 0 held / 1 VIOLATION (reproduced on real code) / 2 inconclusive. Known findings: known_findings.json."}
json.dump(m,open('/verif/MANIFEST.json','w'),indent=1)
print(len(checks),"checks;",len(na),"pending")
