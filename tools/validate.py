#!/usr/bin/env python3-vt
# validates MANIFEST.json and every evidence file against the schemas in /root/.vp
import json,sys,glob,jsonschema
ok=True
m=json.load(open('/verif/MANIFEST.json')); jsonschema.validate(m,json.load(open('/root/.vp/MANIFEST.schema.json')))
s=json.load(open('/root/.vp/EVIDENCE.schema.json'))
ids=[c['property_id'] for c in m['checks']]
na=[c['property_id'] for c in m.get('not_applicable',[])]
props=[json.loads(l)['id'] for l in open('/verif/properties.jsonl')]
for p in props:
    if p not in ids and p not in na: print("UNCOVERED",p); 
for f in glob.glob('/verif/evidence/*.json'):
    try: jsonschema.validate(json.load(open(f)),s)
    except Exception as e: ok=False; print("BAD",f,str(e)[:300])
print("ok" if ok else "FAIL")
