#!/usr/bin/env python3
"""confirm_seed.py ID N [--src DIR]: confirm a seeded change in its scratch worktree /tmp/seed-ID:
   patch applies, builds, full suite passes, demo fails with it and passes without it."""
import json,os,subprocess,sys,re
ID,N=sys.argv[1],sys.argv[2]
R=os.environ.get("ROUND","1")
OUT="/tmp/seed-out" if R=="1" else f"/tmp/seed-out{R}"
src=sys.argv[4] if len(sys.argv)>4 and sys.argv[3]=='--src' else f"{OUT}/{ID}/{N}"
W=f"/tmp/seed-{ID}" if R=="1" else f"/tmp/seed{R}-{ID}"
env=dict(os.environ,GOFLAGS="-mod=mod",GOPROXY="off",GOSUMDB="off",GOTOOLCHAIN="local")
def sh(cmd,cwd=W,timeout=1800):
    p=subprocess.run(cmd,shell=True,cwd=cwd,env=env,stdout=subprocess.PIPE,stderr=subprocess.STDOUT,text=True,errors="replace",timeout=timeout)
    return p.returncode,p.stdout
def clean():
    sh("git checkout -q -- . && git clean -fdq")
meta=json.load(open(f"{src}/meta.json"))
demo=meta["demo_cmd"].replace(f"{OUT}/{ID}/{N}",src)
def demo_failed():
    rc,out=sh(demo)
    failed = rc!=0 or re.search(r'^(--- FAIL|FAIL|panic:)',out,re.M) is not None
    ran = re.search(r'^(ok|--- FAIL|FAIL|PASS)',out,re.M) is not None or '.sh' in demo or rc!=0 or 'PASS' in out
    return failed,ran,out
clean()
rc,out=sh(f"git apply {src}/patch.diff")
if rc: print("PATCH DOES NOT APPLY",out); sys.exit(1)
rc,out=sh("go build ./... && go test -vet=off -count=1 ./...")
suite_ok = rc==0 and 'FAIL' not in out
f1,ran1,o1=demo_failed()
clean()
f0,ran0,o0=demo_failed()
clean()
res={"suite_passes_with_change":suite_ok,"demo_fails_with_change":f1,"demo_passes_without_change":(not f0) and ran0}
print(json.dumps(res))
if not (suite_ok and f1 and not f0 and ran0):
    print("---- suite tail\n",out[-1500:] if not suite_ok else "", "\n---- demo with change\n",o1[-1500:],"\n---- demo clean\n",o0[-1500:])
    sys.exit(1)
