#!/bin/bash
# seedrun.sh <patch.diff> <CHECK_ID> [tier]: apply a seeded change to /repo, run one check, undo.
P=$1; ID=$2; TIER=${3:-quick}
cd /repo || exit 3
if [ -n "$(git status --porcelain)" ]; then echo "/repo not clean"; exit 3; fi
git apply --3way "$P" 2>/tmp/seedrun.err || git apply "$P" || { echo "patch does not apply"; cat /tmp/seedrun.err; git checkout -q -- .; exit 3; }
git reset -q
( cd /verif && timeout 3600 ./check "$ID" "$TIER" ) ; rc=$?
git -C /repo checkout -q -- . ; git -C /repo clean -fdq
echo "check exit=$rc"
exit $rc
