#!/bin/bash
# seedrun.sh <patch.diff> <CHECK_ID> [tier]: apply a seeded change to /repo, run one check, undo.
P=$(readlink -f "$1"); ID=$2; TIER=${3:-quick}
cd /repo || exit 3
if [ -n "$(git status --porcelain)" ]; then echo "/repo not clean"; exit 3; fi
git apply "$P" || { echo "patch does not apply"; git reset -q --hard HEAD; exit 3; }
( cd /verif && timeout 3600 ./check "$ID" "$TIER" ) ; rc=$?
git -C /repo reset -q --hard HEAD; git -C /repo clean -fdq
echo "check exit=$rc"
exit $rc
