#!/bin/bash
# seed_all.sh [tier] [jobs]: every kept seeded change against the check of its property, on scratch copies of /repo.
# Prints one line per change: id, exit status of the check (1 = detected), whether the patch still applies.
TIER=${1:-quick}; JOBS=${2:-5}
mkdir -p /tmp/seedall
one() {
  d=$1; id=$(basename $d); prop=${id%%-*}
  p=$d/patch.current.diff; [ -f $p ] || p=$d/patch.diff
  /verif/tools/seedrun_par.sh $p $prop $TIER ${SEEDNO:-1} > /tmp/seedall/$id.log 2>&1; rc=$?
  na=""; grep -q 'patch does not apply' /tmp/seedall/$id.log && na=" PATCH-DOES-NOT-APPLY"
  echo "$id exit=$rc violations=$(grep -c '^VIOLATION' /tmp/seedall/$id.log)$na"
}
export -f one
export TIER SEEDNO
ls -d /verif/seeded/C*-* | xargs -P $JOBS -I{} bash -c 'one {}'
