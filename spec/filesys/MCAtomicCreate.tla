---- MODULE MCAtomicCreate ----
EXTENDS AtomicCreate
MCDatas == {<<>>, <<1>>, <<1, 2>>, <<3, 4>>}
MCDatas2 == {<<1, 2>>, <<3, 4>>}
MCLeftovers == {<<>>, <<9>>, <<9, 9, 9>>}
NoLeftover == {<<>>}
====
