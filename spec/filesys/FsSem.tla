----------------------------- MODULE FsSem -----------------------------
(* Pure reference semantics of the Filesys interface (machine/filesys):   *)
(* one layer of directories, hard links, independent descriptors.         *)
(* Shared by the model (Filesys.tla), the sequential trace specification  *)
(* (FsTrace.tla) and the linearizability specification (FsLinTrace.tla).  *)
(*                                                                        *)
(* File contents are sequences of abstract units; the harness maps a unit *)
(* to 1, 3, 4096 or 5000 bytes (per run) and back.                        *)
(* The whole abstract state is ONE record, so that Apply is a function:   *)
(*   dirs   : set of directory names                                      *)
(*   dirent : <<dir, name>> -> inode number                               *)
(*   data   : inode id -> contents (never garbage collected)               *)
(*   fds    : descriptor id -> [ino, mode]; ids are never reused: every   *)
(*            Create/Open yields an independent descriptor                *)
(*   live   : set of open descriptor ids                                  *)
(* Fresh inode / descriptor ids: if the operation record carries a field  *)
(* tok (a caller-chosen unique token: concurrent histories) the token is  *)
(* the id, so that the abstract state does not depend on the order in     *)
(* which independent operations are linearized; otherwise ids are 1,2,... *)
EXTENDS Integers, Sequences, FiniteSets

Ext(f, k, v) == [x \in DOMAIN f \cup {k} |-> IF x = k THEN v ELSE f[x]]
Rem(f, k)    == [x \in DOMAIN f \ {k} |-> f[x]]
Min(a, b)    == IF a < b THEN a ELSE b

InitFs == [dirs |-> {}, dirent |-> <<>>, data |-> <<>>, fds |-> <<>>, live |-> {}]

Path(op)  == <<op.d, op.n>>
Path2(op) == <<op.d2, op.n2>>
Exists(s, p) == p \in DOMAIN s.dirent

\* documented preconditions; nothing outside them is judged
Valid(s, op) ==
  CASE op.op = "mkdir"        -> op.d \notin s.dirs
    [] op.op = "create"       -> op.d \in s.dirs
    [] op.op = "append"       -> op.h \in s.live /\ s.fds[op.h].mode = "a"
    [] op.op = "close"        -> op.h \in s.live
    [] op.op = "open"         -> op.d \in s.dirs /\ Exists(s, Path(op))
    [] op.op = "readat"       -> op.h \in s.live /\ s.fds[op.h].mode = "r"
    [] op.op = "delete"       -> op.d \in s.dirs /\ Exists(s, Path(op))
    [] op.op = "link"         -> op.d \in s.dirs /\ op.d2 \in s.dirs /\ Exists(s, Path(op))
    [] op.op = "atomiccreate" -> op.d \in s.dirs
    [] op.op = "list"         -> op.d \in s.dirs
    [] OTHER -> FALSE

\* uniform reply record: h = descriptor id (or -1), ok = 1/0, data = contents read, names = set listed
Rep(h, ok, data, names) == [h |-> h, ok |-> ok, data |-> data, names |-> names]
Unit == Rep(0, 1, <<>>, {})

FreshIno(s, op) == IF "tok" \in DOMAIN op THEN op.tok ELSE Cardinality(DOMAIN s.data) + 1
FreshFd(s, op)  == IF "tok" \in DOMAIN op THEN op.tok ELSE Cardinality(DOMAIN s.fds) + 1

NewFd(s, h, ino, mode) == [s EXCEPT !.fds = Ext(@, h, [ino |-> ino, mode |-> mode]),
                                    !.live = @ \cup {h}]

ReadRange(dat, off, len) == SubSeq(dat, off + 1, Min(off + len, Len(dat)))
ListNames(s, d) == {p[2] : p \in {q \in DOMAIN s.dirent : q[1] = d}}

Apply(s, op) ==
  CASE op.op = "mkdir" -> [s |-> [s EXCEPT !.dirs = @ \cup {op.d}], r |-> Unit]
    [] op.op = "create" ->
         IF Exists(s, Path(op))
         THEN [s |-> s, r |-> Rep(FreshFd(s, op), 0, <<>>, {})]     \* fails without side effects (h unused)
         ELSE LET ino == FreshIno(s, op)
                  h   == FreshFd(s, op)
                  s1  == [s EXCEPT !.data = Ext(@, ino, <<>>), !.dirent = Ext(@, Path(op), ino)]
              IN [s |-> NewFd(s1, h, ino, "a"), r |-> Rep(h, 1, <<>>, {})]
    [] op.op = "append" ->
         [s |-> [s EXCEPT !.data[s.fds[op.h].ino] = @ \o op.data], r |-> Unit]
    [] op.op = "close" -> [s |-> [s EXCEPT !.live = @ \ {op.h}], r |-> Unit]
    [] op.op = "open" ->
         LET h == FreshFd(s, op)
         IN [s |-> NewFd(s, h, s.dirent[Path(op)], "r"), r |-> Rep(h, 1, <<>>, {})]
    [] op.op = "readat" ->
         [s |-> s, r |-> Rep(0, 1, ReadRange(s.data[s.fds[op.h].ino], op.off, op.len), {})]
    [] op.op = "delete" -> [s |-> [s EXCEPT !.dirent = Rem(@, Path(op))], r |-> Unit]
    [] op.op = "link" ->
         IF Exists(s, Path2(op))
         THEN [s |-> s, r |-> Rep(0, 0, <<>>, {})]
         ELSE [s |-> [s EXCEPT !.dirent = Ext(@, Path2(op), s.dirent[Path(op)])], r |-> Unit]
    [] op.op = "atomiccreate" ->
         LET ino == FreshIno(s, op)
         IN [s |-> [s EXCEPT !.data = Ext(@, ino, op.data), !.dirent = Ext(@, Path(op), ino)], r |-> Unit]
    [] op.op = "list" -> [s |-> s, r |-> Rep(0, 1, <<>>, ListNames(s, op.d))]
=============================================================================
