CONSTANTS
  Creator = {"c1"}
  Dirs = {"d1"}
  Names = {"n"}
  Datas <- MCDatas
  Leftovers <- MCLeftovers
  TmpInRoot = TRUE
  TruncTmp = FALSE
  TmpPerCall = FALSE
  AllowCrash = FALSE
  AllowFail = FALSE
INIT Init
NEXT Next
INVARIANTS ExactAfterReturn
CHECK_DEADLOCK FALSE
