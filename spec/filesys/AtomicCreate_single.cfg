CONSTANTS
  Creator = {"c1"}
  Dirs = {"d1"}
  Names = {"n"}
  Datas <- MCDatas
  Leftovers <- MCLeftovers
  TmpInRoot = TRUE
  TruncTmp = TRUE
  TmpPerCall = FALSE
  AllowCrash = TRUE
  AllowFail = TRUE
INIT Init
NEXT Next
INVARIANTS AllOrNothing Untouched ExactAfterReturn NoInterference OneWinner
PROPERTIES FlushedBeforeVisible
CHECK_DEADLOCK FALSE
