------------------------------ MODULE MemFs ------------------------------
(* L2 (implementation shaped) specification of machine/filesys/mem.go      *)
(* restricted to what matters for C14: one mutex around every method, the  *)
(* check-then-insert structure of Create, and descriptor allocation.       *)
(*   pc: idle -> lock -> chk -> upd -> ret -> idle                          *)
(* Constants model the code AS WRITTEN when TRUE:                          *)
(*   HoldAcross : the mutex is held from the existence check to the insert *)
(*   FdUnderLock: the descriptor number is chosen while holding the mutex  *)
EXTENDS Integers, FiniteSets, TLC, Json

CONSTANTS Thread, Names, HoldAcross, FdUnderLock

VARIABLES holder,    \* thread holding the mutex or "none"
          pc, arg,   \* per thread: program counter, name being created
          seen,      \* per thread: result of the existence check
          dirent,    \* set of existing names
          lastFd, fdOf, okOf, pre

vars == <<holder, pc, arg, seen, dirent, lastFd, fdOf, okOf, pre>>
None == "none"

Init == /\ holder = None /\ pc = [t \in Thread |-> "idle"] /\ arg = [t \in Thread |-> "?"]
        /\ seen = [t \in Thread |-> FALSE] /\ dirent = {} /\ lastFd = 0
        /\ fdOf = [t \in Thread |-> 0] /\ okOf = [t \in Thread |-> FALSE] /\ pre = [t \in Thread |-> 0]

Call(t) == /\ pc[t] = "idle" /\ okOf[t] = FALSE /\ fdOf[t] = 0
           /\ \E n \in Names : arg' = [arg EXCEPT ![t] = n]
           /\ pre' = [pre EXCEPT ![t] = IF FdUnderLock THEN 0 ELSE lastFd + 1]   \* breaking change: number chosen before locking
           /\ pc' = [pc EXCEPT ![t] = "lock"]
           /\ UNCHANGED <<holder, seen, dirent, lastFd, fdOf, okOf>>
Lock(t) == /\ pc[t] = "lock" /\ holder = None /\ holder' = t
           /\ pc' = [pc EXCEPT ![t] = "chk"]
           /\ UNCHANGED <<arg, seen, dirent, lastFd, fdOf, okOf, pre>>
Check(t) == /\ pc[t] = "chk" /\ holder = t
            /\ seen' = [seen EXCEPT ![t] = arg[t] \in dirent]
            /\ pc' = [pc EXCEPT ![t] = "upd"]
            /\ holder' = IF HoldAcross THEN t ELSE None                          \* breaking change: lookup helper unlocks
            /\ UNCHANGED <<arg, dirent, lastFd, fdOf, okOf, pre>>
Update(t) == /\ pc[t] = "upd" /\ (HoldAcross => holder = t) /\ (~HoldAcross => holder = None)
             /\ IF seen[t] THEN UNCHANGED <<dirent, lastFd, fdOf, okOf>>
                ELSE /\ dirent' = dirent \cup {arg[t]}
                     /\ lastFd' = IF FdUnderLock THEN lastFd + 1 ELSE (IF pre[t] > lastFd THEN pre[t] ELSE lastFd)
                     /\ fdOf' = [fdOf EXCEPT ![t] = IF FdUnderLock THEN lastFd + 1 ELSE pre[t]]
                     /\ okOf' = [okOf EXCEPT ![t] = TRUE]
             /\ holder' = None
             /\ pc' = [pc EXCEPT ![t] = "ret"]
             /\ UNCHANGED <<arg, seen, pre>>
Next == \E t \in Thread : Call(t) \/ Lock(t) \/ Check(t) \/ Update(t)
Spec == Init /\ [][Next]_vars

\* concurrent Create of one name succeeds exactly once
CreateOnce == \A t, u \in Thread : t # u /\ okOf[t] /\ okOf[u] => arg[t] # arg[u]
\* descriptor numbers handed out concurrently are distinct
FdDistinct == \A t, u \in Thread : t # u /\ okOf[t] /\ okOf[u] => fdOf[t] # fdOf[u]
\* one thread at a time between lock and unlock
Mutex == \A t, u \in Thread : t # u => ~(pc[t] \in {"chk", "upd"} /\ pc[u] \in {"chk", "upd"} /\ HoldAcross)
\* gate table: with A inside its critical section nobody else may enter
EmitGate == \A ta, tb \in Thread :
    (ta # tb /\ pc[ta] \in {"chk", "upd"} /\ pc[tb] = "lock") =>
        PrintT(<<"H", ToJson([enter |-> IF holder = None THEN 1 ELSE 0])>>)
=============================================================================
