----------------------------- MODULE FsTrace -----------------------------
(* Code -> spec: validates histories recorded from MemFs / DirFs (one      *)
(* sequential client, many histories per file) against FsSem.  Each event  *)
(* carries the observed reply, so validation is deterministic.             *)
(* Additional per-event assertions:                                        *)
(*   - every operation is inside the documented preconditions (Valid),     *)
(*   - no panic was observed (p = 0),                                      *)
(*   - the concrete descriptor number handed out by Create/Open differs    *)
(*     from the concrete number of every descriptor that is still open     *)
(*     ("every Create/Open yields an independent descriptor").             *)
EXTENDS FsSem, TLC, Json

Trace == ndJsonDeserialize("trace.ndjson")

VARIABLES fs, cfd, l       \* cfd: live descriptor id -> concrete number
vars == <<fs, cfd, l>>

E == Trace[l]
Is(op) == l <= Len(Trace) /\ E.ev = op
Step == l' = l + 1

Init == TLCSet(1, 0) /\ fs = InitFs /\ cfd = <<>> /\ l = 1

Reset == Is("reset") /\ fs' = InitFs /\ cfd' = <<>> /\ Step

SeqSet(q) == {q[i] : i \in DOMAIN q}
FreshConcrete(n) == \A h \in DOMAIN cfd : cfd[h] # n

Generic(op, match(_)) ==
  /\ Valid(fs, op) /\ E.p = 0
  /\ LET res == Apply(fs, op) IN match(res.r) /\ fs' = res.s
  /\ Step

NoH == [h |-> 0, off |-> 0, len |-> 0]
True(r) == TRUE

Mkdir  == Is("mkdir") /\ Generic([op |-> "mkdir", d |-> E.d], True) /\ UNCHANGED cfd
Create == /\ Is("create")
          /\ LET M(r) == E.ok = r.ok /\ (r.ok = 1 => E.h = r.h /\ FreshConcrete(E.fd))
             IN Generic([op |-> "create", d |-> E.d, n |-> E.n], M)
          /\ cfd' = IF E.ok = 1 THEN Ext(cfd, E.h, E.fd) ELSE cfd
Append0 == /\ Is("append")
           /\ Generic([op |-> "append", h |-> E.h, data |-> E.data], True) /\ UNCHANGED cfd
Close  == /\ Is("close")
          /\ Generic([op |-> "close", h |-> E.h], True)
          /\ cfd' = Rem(cfd, E.h)
Open   == /\ Is("open")
          /\ LET M(r) == E.h = r.h /\ FreshConcrete(E.fd)
             IN Generic([op |-> "open", d |-> E.d, n |-> E.n], M)
          /\ cfd' = Ext(cfd, E.h, E.fd)
ReadAt == /\ Is("readat")
          /\ LET M(r) == E.data = r.data
             IN Generic([op |-> "readat", h |-> E.h, off |-> E.off, len |-> E.len], M)
          /\ UNCHANGED cfd
Delete == Is("delete") /\ Generic([op |-> "delete", d |-> E.d, n |-> E.n], True) /\ UNCHANGED cfd
Link   == /\ Is("link")
          /\ LET M(r) == E.ok = r.ok
             IN Generic([op |-> "link", d |-> E.d, n |-> E.n, d2 |-> E.d2, n2 |-> E.n2], M)
          /\ UNCHANGED cfd
AtomicCreate == /\ Is("atomiccreate")
                /\ Generic([op |-> "atomiccreate", d |-> E.d, n |-> E.n, data |-> E.data], True)
                /\ UNCHANGED cfd
List   == /\ Is("list")
          /\ LET M(r) == SeqSet(E.names) = r.names /\ Len(E.names) = Cardinality(r.names)
             IN Generic([op |-> "list", d |-> E.d], M)
          /\ UNCHANGED cfd

Next == Reset \/ Mkdir \/ Create \/ Append0 \/ Close \/ Open \/ ReadAt \/ Delete \/ Link \/ AtomicCreate \/ List

HighWater == TLCSet(1, IF l > TLCGet(1) THEN l ELSE TLCGet(1))
Accepted == /\ PrintT(<<"H", ToString(TLCGet(1))>>)
            /\ TLCGet(1) = Len(Trace) + 1
=============================================================================
