--------------------------- MODULE AtomicCreate ---------------------------
(* L2 specification of DirFs.AtomicCreate at system-call level: C13.       *)
(*   openat(root, TmpPath, O_CREAT|O_WRONLY[|O_TRUNC]); write*; fsync;      *)
(*   renameat(TmpPath -> dir/name); close                                   *)
(* one action per system call, two creators, a Crash action (process dies  *)
(* between two calls), a Fail action (the next call fails -> panic), and a *)
(* leftover temp file in the initial state (shorter / longer than data).   *)
(*   TmpInRoot  : temp file is root/<name>.tmp (TRUE = as written)          *)
(*   TruncTmp   : temp file opened with O_TRUNC                             *)
(*   TmpPerCall : temp name unique per call (FALSE = as written)            *)
EXTENDS Integers, Sequences, FiniteSets, TLC, Json

CONSTANTS Creator, Dirs, Names, Datas, Leftovers,
          TmpInRoot, TruncTmp, TmpPerCall, AllowCrash, AllowFail

VARIABLES ns,       \* name space: path -> inode id
          ino,      \* inode id -> [data, synced]
          fd,       \* creator -> [ino, off] (meaningful while pc in write..rename)
          pc, req, old, failed, everFailedOrCrashed

vars == <<ns, ino, fd, pc, req, old, failed, everFailedOrCrashed>>

Ext(f, k, v) == [x \in DOMAIN f \cup {k} |-> IF x = k THEN v ELSE f[x]]
Rem(f, k)    == [x \in DOMAIN f \ {k} |-> f[x]]
Dst(c) == <<req[c].dir, req[c].name>>
TmpPath(c) == IF TmpPerCall THEN <<"root", req[c].name \o ".tmp." \o c>>
              ELSE IF TmpInRoot THEN <<"root", req[c].name \o ".tmp">>
              ELSE <<req[c].dir, req[c].name \o ".tmp">>
OldData == <<7>>      \* previous content of every destination that exists initially

\* initially: every destination with old[p] exists (content OldData; they share inode 101, which nobody
\* ever writes), and the first creator's temp path may hold a leftover of an earlier interrupted call
Init == /\ req \in [Creator -> [dir : Dirs, name : Names, data : Datas]]
        /\ \A c1, c2 \in Creator : c1 # c2 => req[c1].data # req[c2].data        \* distinguishable writers
        /\ old \in [Dirs \X Names -> BOOLEAN]
        /\ \E lo \in Leftovers :
             LET olds == [p \in {q \in Dirs \X Names : old[q]} |-> 101]
                 c0 == CHOOSE c \in Creator : TRUE
                 i0 == [i \in {101} |-> [data |-> OldData, synced |-> OldData]]
             IN IF lo = <<>> THEN ns = olds /\ ino = i0
                ELSE ns = Ext(olds, TmpPath(c0), 50) /\ ino = Ext(i0, 50, [data |-> lo, synced |-> lo])
        /\ fd = [c \in Creator |-> [ino |-> 0, off |-> 0]]
        /\ pc = [c \in Creator |-> "open"]
        /\ failed = [c \in Creator |-> FALSE]
        /\ everFailedOrCrashed = FALSE

FreshIno(c) == IF c = (CHOOSE x \in Creator : TRUE) THEN 1 ELSE 2

OpenTmp(c) ==
  /\ pc[c] = "open"
  /\ LET p == TmpPath(c) IN
     IF p \in DOMAIN ns
     THEN /\ ino' = IF TruncTmp THEN [ino EXCEPT ![ns[p]].data = <<>>] ELSE ino
          /\ fd' = [fd EXCEPT ![c] = [ino |-> ns[p], off |-> 0]]
          /\ UNCHANGED ns
     ELSE /\ ns' = Ext(ns, p, FreshIno(c))
          /\ ino' = Ext(ino, FreshIno(c), [data |-> <<>>, synced |-> <<>>])
          /\ fd' = [fd EXCEPT ![c] = [ino |-> FreshIno(c), off |-> 0]]
  /\ pc' = [pc EXCEPT ![c] = IF Len(req[c].data) = 0 THEN "fsync" ELSE "write"]
  /\ UNCHANGED <<req, old, failed, everFailedOrCrashed>>

\* write(fd, next unit): overwrite at the descriptor's own offset, extending if needed
WriteAt(dat, off, u) == IF off < Len(dat) THEN [dat EXCEPT ![off + 1] = u] ELSE Append(dat, u)
WriteChunk(c) ==
  /\ pc[c] = "write"
  /\ LET i == fd[c].ino off == fd[c].off IN
     /\ ino' = [ino EXCEPT ![i].data = WriteAt(@, off, req[c].data[off + 1])]
     /\ fd' = [fd EXCEPT ![c].off = off + 1]
     /\ pc' = [pc EXCEPT ![c] = IF off + 1 = Len(req[c].data) THEN "fsync" ELSE "write"]
  /\ UNCHANGED <<ns, req, old, failed, everFailedOrCrashed>>
Fsync(c) ==
  /\ pc[c] = "fsync"
  /\ ino' = [ino EXCEPT ![fd[c].ino].synced = ino[fd[c].ino].data]
  /\ pc' = [pc EXCEPT ![c] = "rename"]
  /\ UNCHANGED <<ns, fd, req, old, failed, everFailedOrCrashed>>
Rename(c) ==
  /\ pc[c] = "rename"
  /\ IF TmpPath(c) \in DOMAIN ns
     THEN /\ ns' = Ext(Rem(ns, TmpPath(c)), Dst(c), ns[TmpPath(c)])
          /\ pc' = [pc EXCEPT ![c] = "done"]
          /\ UNCHANGED failed
     ELSE /\ pc' = [pc EXCEPT ![c] = "panicked"]            \* ENOENT: somebody renamed our temp file away
          /\ failed' = [failed EXCEPT ![c] = TRUE]
          /\ UNCHANGED ns
  /\ UNCHANGED <<ino, fd, req, old, everFailedOrCrashed>>
Crash(c) == /\ AllowCrash /\ pc[c] \in {"open", "write", "fsync", "rename"}
            /\ pc' = [pc EXCEPT ![c] = "dead"] /\ everFailedOrCrashed' = TRUE
            /\ UNCHANGED <<ns, ino, fd, req, old, failed>>
Fail(c) ==  /\ AllowFail /\ pc[c] \in {"open", "write", "fsync", "rename"}
            /\ pc' = [pc EXCEPT ![c] = "panicked"] /\ everFailedOrCrashed' = TRUE
            /\ UNCHANGED <<ns, ino, fd, req, old, failed>>
\* after a crash / failure the caller retries with the same request ("whatever was left behind")
Retry(c) == /\ pc[c] \in {"dead", "panicked"} /\ ~failed[c]
            /\ pc' = [pc EXCEPT ![c] = "open"]
            /\ UNCHANGED <<ns, ino, fd, req, old, failed, everFailedOrCrashed>>

Next == \E c \in Creator : OpenTmp(c) \/ WriteChunk(c) \/ Fsync(c) \/ Rename(c) \/ Crash(c) \/ Fail(c) \/ Retry(c)
Spec == Init /\ [][Next]_vars

----------------------------------------------------------------------------
Content(p) == ino[ns[p]].data
Writers(p) == {c \in Creator : Dst(c) = p}
\* at every instant (also right after a crash / failure) dir/name is as before or exactly somebody's data
AllOrNothing == \A p \in Dirs \X Names : p \in DOMAIN ns =>
                   Content(p) \in ({OldData} \cup {req[c].data : c \in Writers(p)})
\* a destination nobody writes keeps its content
Untouched == \A p \in Dirs \X Names : Writers(p) = {} => ((p \in DOMAIN ns) = old[p]) /\ (old[p] => Content(p) = OldData)
\* once the call returned, the file holds exactly data (unless another creator of the same name came later)
ExactAfterReturn == \A c \in Creator : pc[c] = "done" /\ Writers(Dst(c)) = {c} =>
                       Dst(c) \in DOMAIN ns /\ Content(Dst(c)) = req[c].data
\* the data was flushed before the name became visible
FlushedBeforeVisible == [][\A c \in Creator : pc[c] = "rename" /\ pc'[c] = "done" =>
                              ino[ns[TmpPath(c)]].synced = req[c].data]_vars
\* creators of different destinations do not make each other fail
NoInterference == \A c \in Creator : Writers(Dst(c)) = {c} => ~failed[c]
\* same name: the complete data of one of them, and nobody is made to fail... (at least one winner completes)
OneWinner == \A p \in Dirs \X Names : Cardinality(Writers(p)) = 2 /\ (\A c \in Writers(p) : pc[c] \in {"done", "panicked"}) /\ ~everFailedOrCrashed =>
                 (p \in DOMAIN ns /\ Content(p) \in {req[c].data : c \in Writers(p)})
=============================================================================
