---------------------------- MODULE FsLinTrace ----------------------------
(* Code -> spec, concurrent histories of MemFs / DirFs (C14).              *)
(* Events, ordered by a global atomic sequence number:                     *)
(*   reset, inv(c, op, args...), res(c, reply...)                          *)
(* Descriptors and inodes are named by client-chosen unique tokens (tok):  *)
(* the token of the Create/Open/AtomicCreate that produced them, so that   *)
(* the abstract state is independent of the linearization order of         *)
(* independent operations (this keeps the search space small).             *)
(* Lin is the unlogged internal step (searched by TLC, depth-first).       *)
(* Accepted iff every reply is the reply of FsSem at some linearization    *)
(* point between inv and res, and concrete descriptor numbers of           *)
(* descriptors that are open at the same time are distinct.                *)
EXTENDS FsSem, TLC, Json

Trace == ndJsonDeserialize("trace.ndjson")

VARIABLES fs, pend, cfd, l
vars == <<fs, pend, cfd, l>>

E == Trace[l]
Is(ev) == l <= Len(Trace) /\ E.ev = ev
Del(f, k) == Rem(f, k)

Init == TLCSet(1, 0) /\ fs = InitFs /\ pend = <<>> /\ cfd = <<>> /\ l = 1

Reset == /\ Is("reset") /\ DOMAIN pend = {}
         /\ fs' = InitFs /\ pend' = <<>> /\ cfd' = <<>> /\ l' = l + 1

Inv == /\ Is("inv") /\ E.c \notin DOMAIN pend
       /\ pend' = Ext(pend, E.c, [e |-> E, st |-> "inv", rep |-> Unit])
       /\ l' = l + 1 /\ UNCHANGED <<fs, cfd>>

\* the FsSem operation of a logged invocation; the token of a Create / Open /
\* AtomicCreate names the descriptor / inode it produces (FsSem!FreshFd)
OpOf(e) ==
  CASE e.op \in {"mkdir", "list"} -> [op |-> e.op, d |-> e.d]
    [] e.op = "delete" -> [op |-> e.op, d |-> e.d, n |-> e.n]
    [] e.op \in {"create", "open"} -> [op |-> e.op, d |-> e.d, n |-> e.n, tok |-> e.tok]
    [] e.op = "append" -> [op |-> "append", h |-> e.tok, data |-> e.data]
    [] e.op = "close"  -> [op |-> "close", h |-> e.tok]
    [] e.op = "readat" -> [op |-> "readat", h |-> e.tok, off |-> e.off, len |-> e.len]
    [] e.op = "link"   -> [op |-> "link", d |-> e.d, n |-> e.n, d2 |-> e.d2, n2 |-> e.n2]
    [] e.op = "atomiccreate" -> [op |-> "atomiccreate", d |-> e.d, n |-> e.n, data |-> e.data, tok |-> e.tok]

UsesTok(e) == e.op \in {"append", "close", "readat"}

\* Just-in-time linearization: a linearization point may always be delayed
\* until immediately before the next response event without changing the
\* order of linearization points or violating real time, so Lin is only
\* enabled when the next logged event is a response.
Lin == \E c \in DOMAIN pend :
         /\ Is("res")
         /\ pend[c].st = "inv"
         /\ LET e == pend[c].e IN
            /\ LET op == OpOf(e) res == Apply(fs, op) IN
               /\ Valid(fs, op)
               /\ fs' = res.s
               /\ pend' = [pend EXCEPT ![c].st = "lin", ![c].rep = res.r]
         /\ UNCHANGED <<cfd, l>>

SeqSet(q) == {q[i] : i \in DOMAIN q}

Match(e, rep, r) ==
  /\ r.p = 0
  /\ CASE e.op = "create" -> r.ok = rep.ok
       [] e.op = "readat" -> r.data = rep.data
       [] e.op = "link"   -> r.ok = rep.ok
       [] e.op = "list"   -> SeqSet(r.names) = rep.names /\ Len(r.names) = Cardinality(rep.names)
       [] OTHER -> TRUE

Res == /\ Is("res") /\ E.c \in DOMAIN pend /\ pend[E.c].st = "lin"
       /\ LET e == pend[E.c].e rep == pend[E.c].rep IN
          /\ Match(e, rep, E)
          /\ IF e.op \in {"create", "open"} /\ rep.ok = 1
             THEN /\ \A h \in DOMAIN cfd : h \in fs.live => cfd[h] # E.fd     \* descriptors handed out are distinct
                  /\ cfd' = Ext(cfd, rep.h, E.fd)
             ELSE cfd' = cfd
       /\ pend' = Del(pend, E.c)
       /\ l' = l + 1 /\ UNCHANGED fs

Next == Reset \/ Inv \/ Lin \/ Res

HighWater == TLCSet(1, IF l > TLCGet(1) THEN l ELSE TLCGet(1))
Accepted == /\ PrintT(<<"H", ToString(TLCGet(1))>>)
            /\ TLCGet(1) = Len(Trace) + 1
=============================================================================
