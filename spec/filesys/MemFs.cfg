CONSTANTS
  Thread = {"t1", "t2", "t3"}
  Names = {"a", "b"}
  HoldAcross = TRUE
  FdUnderLock = TRUE
INIT Init
NEXT Next
INVARIANTS CreateOnce FdDistinct Mutex EmitGate
CHECK_DEADLOCK FALSE
