CONSTANTS
  Creator = {"c1", "c2"}
  Dirs = {"d1", "d2"}
  Names = {"n", "m"}
  Datas <- MCDatas2
  Leftovers <- NoLeftover
  TmpInRoot = TRUE
  TruncTmp = TRUE
  TmpPerCall = FALSE
  AllowCrash = FALSE
  AllowFail = FALSE
INIT Init
NEXT Next
INVARIANTS AllOrNothing Untouched ExactAfterReturn NoInterference OneWinner
CHECK_DEADLOCK FALSE
