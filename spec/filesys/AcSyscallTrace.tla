-------------------------- MODULE AcSyscallTrace --------------------------
(* Code -> spec at system-call level for DirFs.AtomicCreate (C13): the      *)
(* strace log of one successful call.  Events:                              *)
(*   reset, open(fd, tmp)   the temp file was opened (O_CREAT|O_WRONLY...)  *)
(*   write(fd, ret)  fsync(fd, ret)  rename(from, to, ret)  ret             *)
(* Accepted iff the rename's source is the opened temp file, and a          *)
(* successful fsync of the temp descriptor happened after the last write    *)
(* to it and before the rename was issued: flushed before visible.          *)
EXTENDS Integers, Sequences, TLC, Json
Trace == ndJsonDeserialize("trace.ndjson")
VARIABLES s, l      \* s: [fd, tmp, dirty, renamed]
E == Trace[l]
Is(ev) == l <= Len(Trace) /\ E.ev = ev
Idle == [fd |-> -1, tmp |-> "", dirty |-> TRUE, renamed |-> FALSE]
Init == TLCSet(1, 0) /\ s = Idle /\ l = 1
Reset == Is("reset") /\ s' = Idle /\ l' = l + 1
Open == Is("open") /\ s' = [fd |-> E.fd, tmp |-> E.path, dirty |-> TRUE, renamed |-> FALSE] /\ l' = l + 1
Write == Is("write") /\ s' = (IF E.fd = s.fd THEN [s EXCEPT !.dirty = TRUE] ELSE s) /\ l' = l + 1
Fsync == Is("fsync") /\ s' = (IF E.fd = s.fd /\ E.ret = 0 THEN [s EXCEPT !.dirty = FALSE] ELSE s) /\ l' = l + 1
Rename == /\ Is("rename") /\ E.ret = 0
          /\ E.from = s.tmp           \* what becomes visible is the file that was written
          /\ ~s.dirty                 \* and it was flushed
          /\ s' = [s EXCEPT !.renamed = TRUE] /\ l' = l + 1
Ret == Is("ret") /\ s.renamed /\ s' = Idle /\ l' = l + 1
Next == Reset \/ Open \/ Write \/ Fsync \/ Rename \/ Ret
HighWater == TLCSet(1, IF l > TLCGet(1) THEN l ELSE TLCGet(1))
Accepted == /\ PrintT(<<"H", ToString(TLCGet(1))>>)
            /\ TLCGet(1) = Len(Trace) + 1
=============================================================================
