CONSTANTS
  Dirs = {"d1", "d2"}
  Names = {"a"}
  Units = {1, 2}
  MaxIno = 2
  MaxFd = 2
  MaxLive = 2
  MaxLen = 2
  D = 0
INIT Init
NEXT Next
VIEW View
INVARIANTS TypeOK CreateRule FreshDescriptor LinkShares ReadExact ListExact AtomicCreateRule
PROPERTIES DataMonotone OnlyOwnInode
