----------------------------- MODULE Filesys -----------------------------
(* L1 specification of the Filesys interface as a state machine over the  *)
(* pure semantics FsSem (C12).  Used for the exhaustive design check and  *)
(* to generate valid histories (with their specified replies) that are    *)
(* replayed on MemFs and DirFs.                                           *)
EXTENDS FsSem, TLC, Json

CONSTANTS Dirs, Names, Units,
          MaxIno, MaxFd, MaxLive, MaxLen,   \* bounds of the exhaustive model
          D                                 \* history length at which a behaviour is printed

VARIABLES fs, last, hist
vars == <<fs, last, hist>>

Op(op, d, n, d2, n2, h, off, len, data) ==
  [op |-> op, d |-> d, n |-> n, d2 |-> d2, n2 |-> n2, h |-> h, off |-> off, len |-> len, data |-> data]
NoD == ""

Datas == {<<>>} \cup {<<u>> : u \in Units} \cup {<<u, v>> : u \in Units, v \in Units}

Ops(s) ==
     {Op("mkdir", d, NoD, NoD, NoD, 0, 0, 0, <<>>) : d \in Dirs}
  \cup {Op("create", d, n, NoD, NoD, 0, 0, 0, <<>>) : d \in Dirs, n \in Names}
  \cup {Op("append", NoD, NoD, NoD, NoD, h, 0, 0, dat) : h \in s.live, dat \in Datas \ {<<>>}}
  \cup {Op("append", NoD, NoD, NoD, NoD, h, 0, 0, <<>>) : h \in s.live}
  \cup {Op("close", NoD, NoD, NoD, NoD, h, 0, 0, <<>>) : h \in s.live}
  \cup {Op("open", d, n, NoD, NoD, 0, 0, 0, <<>>) : d \in Dirs, n \in Names}
  \cup {Op("readat", NoD, NoD, NoD, NoD, h, off, len, <<>>) : h \in s.live, off \in 0..(MaxLen+1), len \in 0..(MaxLen+1)}
  \cup {Op("delete", d, n, NoD, NoD, 0, 0, 0, <<>>) : d \in Dirs, n \in Names}
  \cup {Op("link", d, n, d2, n2, 0, 0, 0, <<>>) : d \in Dirs, n \in Names, d2 \in Dirs, n2 \in Names}
  \cup {Op("atomiccreate", d, n, NoD, NoD, 0, 0, 0, dat) : d \in Dirs, n \in Names, dat \in Datas}
  \cup {Op("list", d, NoD, NoD, NoD, 0, 0, 0, <<>>) : d \in Dirs}

Bounded(s) == /\ Cardinality(DOMAIN s.data) <= MaxIno /\ Cardinality(DOMAIN s.fds) <= MaxFd /\ Cardinality(s.live) <= MaxLive
              /\ \A i \in DOMAIN s.data : Len(s.data[i]) <= MaxLen

Init == fs = InitFs /\ last = [op |-> Op("init", NoD, NoD, NoD, NoD, 0, 0, 0, <<>>), r |-> Unit, pre |-> InitFs] /\ hist = <<>>

SetToSeq(S) == CHOOSE q \in [1..Cardinality(S) -> S] : \A x \in S : \E i \in DOMAIN q : q[i] = x

Do(op) == /\ Valid(fs, op)
          /\ LET res == Apply(fs, op) IN
               /\ Bounded(res.s)
               /\ fs' = res.s
               /\ last' = [op |-> op, r |-> res.r, pre |-> fs]
               /\ hist' = Append(hist, [op |-> op, r |-> [h |-> res.r.h, ok |-> res.r.ok, data |-> res.r.data,
                                                          names |-> SetToSeq(res.r.names)]])

Next == \E op \in Ops(fs) : Do(op)
\* the same machine restricted to whole-file reads (simulation with one or two names and one unit: names are re-used,
\* overwritten with the bytes they already hold, read through descriptors that predate the overwrite)
FocusOps(s) == {op \in Ops(s) : op.op # "list" /\ (op.op = "readat" => op.off = 0 /\ op.len = MaxLen + 1)}
NextFocus == \E op \in FocusOps(fs) : Do(op)
Spec == Init /\ [][Next]_vars

-----------------------------------------------------------------------------
TypeOK == /\ fs.dirs \subseteq Dirs
          /\ DOMAIN fs.dirent \subseteq (Dirs \X Names)
          /\ \A p \in DOMAIN fs.dirent : fs.dirent[p] \in DOMAIN fs.data
          /\ fs.live \subseteq DOMAIN fs.fds
          /\ \A h \in DOMAIN fs.fds : fs.fds[h].ino \in DOMAIN fs.data /\ fs.fds[h].mode \in {"a", "r"}

\* Create fails without side effects iff the name exists
CreateRule == last.op.op = "create" =>
     /\ (last.r.ok = 0) = Exists(last.pre, Path(last.op))
     /\ (last.r.ok = 0 => fs = last.pre)
     /\ (last.r.ok = 1 => last.r.h \notin last.pre.live /\ fs.data[fs.dirent[Path(last.op)]] = <<>>)
\* every Create / Open yields an independent (fresh) descriptor
FreshDescriptor == last.op.op \in {"create", "open"} /\ last.r.ok = 1 =>
     last.r.h \in fs.live /\ last.r.h \notin DOMAIN last.pre.fds
\* hard links share contents
LinkShares == last.op.op = "link" /\ last.r.ok = 1 => fs.dirent[Path2(last.op)] = fs.dirent[Path(last.op)]
\* a deleted file stays readable through open descriptors: only Append/AtomicCreate touch data, and never shrink it
DataMonotone == [][\A i \in DOMAIN fs.data : i \in DOMAIN fs'.data /\ Len(fs'.data[i]) >= Len(fs.data[i])
                      /\ SubSeq(fs'.data[i], 1, Len(fs.data[i])) = fs.data[i]]_vars
OnlyOwnInode == [][\A i \in DOMAIN fs.data : fs'.data[i] # fs.data[i] =>
                      last'.op.op = "append" /\ fs.fds[last'.op.h].ino = i]_vars
\* ReadAt returns exactly the existing bytes of [off, off+len)
ReadExact == last.op.op = "readat" =>
     LET dat == fs.data[fs.fds[last.op.h].ino] IN
       /\ Len(last.r.data) = (IF last.op.off >= Len(dat) THEN 0 ELSE Min(last.op.len, Len(dat) - last.op.off))
       /\ \A i \in 1..Len(last.r.data) : last.r.data[i] = dat[last.op.off + i]
\* List returns exactly the names of that directory
ListExact == last.op.op = "list" =>
     \A n \in Names : (n \in last.r.names) = Exists(fs, <<last.op.d, n>>)
\* AtomicCreate: afterwards the name holds exactly data, other names keep their inode
AtomicCreateRule == last.op.op = "atomiccreate" =>
     /\ fs.data[fs.dirent[Path(last.op)]] = last.op.data
     /\ \A p \in DOMAIN last.pre.dirent : p # Path(last.op) => fs.dirent[p] = last.pre.dirent[p]

EmitHist == IF Len(hist) = D THEN PrintT(<<"H", ToJson(hist)>>) ELSE TRUE
View == <<fs, last>>
=============================================================================
