CONSTANTS
  Thread = {"t1", "t2", "t3"}
  Names = {"a", "b"}
  HoldAcross = FALSE
  FdUnderLock = TRUE
INIT Init
NEXT Next
INVARIANTS CreateOnce
CHECK_DEADLOCK FALSE
