CONSTANTS
  Thread = {"t1", "t2", "t3"}
  Names = {"a", "b"}
  HoldAcross = TRUE
  FdUnderLock = FALSE
INIT Init
NEXT Next
INVARIANTS FdDistinct
CHECK_DEADLOCK FALSE
