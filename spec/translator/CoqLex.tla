------------------------------- MODULE CoqLex -------------------------------
(* Coq's lexical structure, as far as it decides which definitions Coq sees  *)
(* in a file goose emitted (C05): comments nest, string literals are lexed    *)
(* INSIDE comments too, "" is the only escape in a string.                    *)
(* Text is a sequence over character classes                                  *)
(*    "(" "*" ")" "q" (double quote) "n" (newline) "x" (anything else)        *)
(*    and "D" = the keyword Definition/Notation at the start of a line.       *)
(* Lex(text) folds Step over the text; the lexer state is                     *)
(*    [mode: "code" | "str" | "com" | "comstr", depth: comment nesting,       *)
(*     skip: 1 if the next character was consumed as the 2nd of a digraph,    *)
(*     defs: D tokens seen in code mode, hidden: D tokens swallowed,          *)
(*     closed: number of top-level comments closed]                           *)
EXTENDS Integers, Sequences, FiniteSets, TLC

LexInit == [mode |-> "code", depth |-> 0, skip |-> 0, defs |-> 0, hidden |-> 0, closed |-> 0, stray |-> 0]

Step(m, ch, nxt) ==
  IF m.skip = 1 THEN [m EXCEPT !.skip = 0]
  ELSE CASE m.mode = "code" /\ ch = "(" /\ nxt = "*" -> [m EXCEPT !.mode = "com", !.depth = 1, !.skip = 1]
         [] m.mode = "code" /\ ch = "*" /\ nxt = ")" -> [m EXCEPT !.stray = @ + 1, !.skip = 1]      \* a stray comment terminator in code
         [] m.mode = "code" /\ ch = "q" -> [m EXCEPT !.mode = "str"]
         [] m.mode = "code" /\ ch = "D" -> [m EXCEPT !.defs = @ + 1]
         [] m.mode = "str" /\ ch = "q" -> IF nxt = "q" THEN [m EXCEPT !.skip = 1] ELSE [m EXCEPT !.mode = "code"]
         [] m.mode = "com" /\ ch = "(" /\ nxt = "*" -> [m EXCEPT !.depth = @ + 1, !.skip = 1]
         [] m.mode = "com" /\ ch = "*" /\ nxt = ")" ->
              IF m.depth = 1 THEN [m EXCEPT !.mode = "code", !.depth = 0, !.skip = 1, !.closed = @ + 1]
              ELSE [m EXCEPT !.depth = @ - 1, !.skip = 1]
         [] m.mode = "com" /\ ch = "q" -> [m EXCEPT !.mode = "comstr"]
         [] m.mode = "comstr" /\ ch = "q" -> IF nxt = "q" THEN [m EXCEPT !.skip = 1] ELSE [m EXCEPT !.mode = "com"]
         [] m.mode \in {"str", "com", "comstr"} /\ ch = "D" -> [m EXCEPT !.hidden = @ + 1]
         [] OTHER -> m

RECURSIVE LexFrom(_, _, _)
LexFrom(m, t, k) == IF k > Len(t) THEN m
                    ELSE LexFrom(Step(m, t[k], IF k < Len(t) THEN t[k + 1] ELSE "x"), t, k + 1)
Lex(t) == LexFrom(LexInit, t, 1)

\* ---- the comment sanitiser of internal/coq (buffer.AddComment): two sequential ReplaceAll passes ----
RECURSIVE ReplaceAll(_, _, _, _)
ReplaceAll(s, a, b, rep) ==       \* replace every non-overlapping occurrence (left to right) of <<a, b>> by rep
  IF Len(s) < 2 THEN s
  ELSE IF s[1] = a /\ s[2] = b THEN rep \o ReplaceAll(SubSeq(s, 3, Len(s)), a, b, rep)
  ELSE <<s[1]>> \o ReplaceAll(SubSeq(s, 2, Len(s)), a, b, rep)
Sanitize(s) == ReplaceAll(ReplaceAll(s, "(", "*", <<"(", "x", "*">>), "*", ")", <<"*", "x", ")">>)
\* the single-pass variant (strings.NewReplacer) does not rescan: modelled for the sensitivity check
RECURSIVE OnePass(_)
OnePass(s) == IF Len(s) < 2 THEN s
              ELSE IF s[1] = "(" /\ s[2] = "*" THEN <<"(", "x", "*">> \o OnePass(SubSeq(s, 3, Len(s)))
              ELSE IF s[1] = "*" /\ s[2] = ")" THEN <<"*", "x", ")">> \o OnePass(SubSeq(s, 3, Len(s)))
              ELSE <<s[1]>> \o OnePass(SubSeq(s, 2, Len(s)))

Comment(body) == <<"(", "*", "x">> \o body \o <<"x", "*", ")">>
\* a comment built from source text s, followed by a definition: Coq must see exactly that definition
Safe(san(_), s) == LET m == Lex(Comment(san(s)) \o <<"n", "D", "x">>) IN
                   m.mode = "code" /\ m.closed = 1 /\ m.defs = 1 /\ m.hidden = 0 /\ m.stray = 0

CONSTANTS Alphabet, K, UseOnePass
VARIABLE s
Strings == UNION {[1..k -> Alphabet] : k \in 0..K}
Init == s \in Strings
Next == UNCHANGED s
CommentSafe == IF UseOnePass THEN Safe(OnePass, s) ELSE Safe(Sanitize, s)
=============================================================================
