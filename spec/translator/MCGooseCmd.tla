---- MODULE MCGooseCmd ----
EXTENDS GooseCmd
MCPkgs == {"good", "goodffi", "partial", "allbad", "tagged", "nested", "latebad", "earlybad", "cgotag", "nofiles", "missing", "twin1", "twin2"}
MCClass == [p \in MCPkgs |-> CASE p = "partial" -> "partial" [] p = "earlybad" -> "partial" [] p = "allbad" -> "allbad" [] p = "latebad" -> "late-bad" [] p \in {"nofiles", "missing"} -> "unloadable" [] OTHER -> "good"]
MCPatterns == {<<"good">>, <<"partial">>, <<"allbad">>, <<"partial", "good">>, <<"allbad", "goodffi">>, <<"good", "partial">>,
               <<"goodffi">>, <<"tagged", "nested">>, <<"earlybad">>, <<"earlybad", "good">>, <<"nested", "earlybad">>, <<"cgotag", "good", "nested">>, <<"cgotag", "earlybad", "good", "goodffi", "tagged">>, <<"latebad">>, <<"latebad", "good">>, <<"goodffi", "latebad", "nested">>,
               <<"twin1", "twin2">>, <<"twin2", "good", "twin1">>, <<"twin1">>, <<"partial", "twin2", "twin1">>,
               <<"good", "missing">>, <<"missing", "good">>, <<"nofiles", "good", "nested">>, <<"goodffi", "nofiles">>, <<"nofiles">>, <<"partial", "missing", "goodffi">>,
               <<"allbad", "cgotag", "earlybad", "good", "goodffi", "latebad", "nested", "partial", "tagged">>}
SmallPkgs == {"good", "partial", "latebad", "missing"}
SmallClass == [p \in SmallPkgs |-> CASE p = "partial" -> "partial" [] p = "latebad" -> "late-bad" [] p = "missing" -> "unloadable" [] OTHER -> "good"]
SmallPatterns == {<<"missing", "good">>, <<"good">>, <<"partial">>, <<"partial", "good">>, <<"latebad">>, <<"latebad", "good", "partial">>}
====
