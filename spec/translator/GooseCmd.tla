------------------------------ MODULE GooseCmd ------------------------------
(* Specification of the goose command (C17) as a state machine over          *)
(* invocations: exit status, which files exist under -out, what they contain *)
(* (symbolically: the full or the partial translation of a package version)  *)
(* and which files an invocation rewrites.  Between invocations the sources  *)
(* of a package may be edited (version 1 <-> 2).                             *)
(*   Class[p]: "good" | "partial" (some declarations fail) | "allbad"        *)
(*           | "late-bad" (version 2 fails) | "unloadable" (the pattern      *)
(*             names a directory that does not exist, or one whose files are  *)
(*             all excluded by build constraints: the Go toolchain reports    *)
(*             an error for it and there is nothing to translate)             *)
EXTENDS Integers, Sequences, FiniteSets, TLC, Json

CONSTANTS Pkgs, Class, PatternLists, D

VARIABLES tree,     \* package -> "absent" | [v, kind]   (the file at the package's Coq path under -out)
          ver,      \* package -> source version
          last, hist

vars == <<tree, ver, last, hist>>
Bad(p, v) == Class[p] \in {"partial", "allbad", "unloadable"} \/ (Class[p] = "late-bad" /\ v[p] = 2)
Absent == [v |-> 0, kind |-> "absent"]

Init == /\ tree = [p \in Pkgs |-> Absent]
        /\ ver = [p \in Pkgs |-> 1]
        /\ last = [op |-> "init"] /\ hist = <<>>

SeqSet(s) == {s[k] : k \in 1..Len(s)}

\* one invocation: patterns is a sequence of packages (order as on the command line).
\* subDir: -dir names a directory INSIDE the module (not the one holding go.mod) and the patterns are written
\* relative to it; like relOut it must not influence anything (the Go toolchain finds go.mod in a parent).
\* emptyWild: an additional wildcard pattern over an existing directory that holds no package (./docs/...): the Go
\* toolchain only warns about it, so next to patterns that match something it must not influence anything.
Invoke(pats, ign, relOut, subDir, emptyWild) ==
  LET matched == SeqSet(pats)
      someErr == \E p \in matched : Bad(p, ver)
      newTree == [q \in Pkgs |->
                    IF q \in matched /\ Class[q] # "unloadable" /\ (~Bad(q, ver) \/ ign)
                    THEN [v |-> ver[q], kind |-> IF Bad(q, ver) THEN "partial" ELSE "full"]
                    ELSE tree[q]]
      e == [op |-> "invoke", pats |-> pats, ign |-> ign, relOut |-> relOut, subDir |-> subDir, emptyWild |-> emptyWild,
            exit |-> IF someErr THEN 1 ELSE 0,
            tree |-> newTree,
            written |-> {q \in Pkgs : newTree[q] # tree[q]}]
  IN /\ tree' = newTree /\ last' = e /\ hist' = Append(hist, e) /\ UNCHANGED ver

\* a pattern that matches no package: exit 1, nothing written
InvokeNoMatch ==
  LET e == [op |-> "nomatch", pats |-> <<>>, ign |-> FALSE, relOut |-> FALSE, subDir |-> FALSE, emptyWild |-> FALSE, exit |-> 1, tree |-> tree, written |-> {}]
  IN /\ last' = e /\ hist' = Append(hist, e) /\ UNCHANGED <<tree, ver>>

Edit(p) == /\ ver' = [ver EXCEPT ![p] = 3 - @]
           /\ last' = [op |-> "edit", p |-> p] /\ hist' = Append(hist, [op |-> "edit", p |-> p, pats |-> <<>>, ign |-> FALSE, relOut |-> FALSE, subDir |-> FALSE, emptyWild |-> FALSE, exit |-> 0, tree |-> tree, written |-> {}])
           /\ UNCHANGED tree

Next == \/ \E pats \in PatternLists, ign \in BOOLEAN, rel \in BOOLEAN, sub \in BOOLEAN, ew \in BOOLEAN : Invoke(pats, ign, rel, sub, ew)
        \/ InvokeNoMatch
        \/ \E p \in Pkgs : Edit(p)
Spec == Init /\ [][Next]_vars

\* ---- properties of the command, checked on the specification itself ----
\* exit 0 exactly when every matched package translated without error
ExitRule == last.op = "invoke" => (last.exit = 0) = (\A p \in SeqSet(last.pats) : ~Bad(p, ver))
\* a failing package leaves no (new) file unless -ignore-errors was given
NoFileForFailed == [][\A p \in Pkgs : last'.op = "invoke" /\ p \in SeqSet(last'.pats) /\ Bad(p, ver) /\ ~last'.ign => tree'[p] = tree[p]]_vars
\* packages that are not matched are never touched; an unchanged file is not rewritten
OnlyMatchedWritten == [][last'.op = "invoke" => last'.written \subseteq SeqSet(last'.pats)]_vars
NotRewritten == [][\A p \in Pkgs : tree'[p] = tree[p] => (last'.op # "invoke" \/ p \notin last'.written)]_vars

EmitHist == IF Len(hist) = D THEN PrintT(<<"H", ToJson(hist)>>) ELSE TRUE
View == <<tree, ver, last>>
=============================================================================
