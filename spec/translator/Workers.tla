------------------------------ MODULE Workers ------------------------------
(* The per-package translation workers of TranslatePackages (interface.go): C06. *)
(* One goroutine per matched package: Start -> Translate -> write its own result  *)
(* slot -> Done; the caller waits for all of them and then reads the slots.       *)
(* Every slot has exactly one writer; the specification is used                   *)
(*  (a) to check that no slot is written twice or read before the join,           *)
(*  (b) to enumerate ALL orders of the observable worker events (start,           *)
(*      translated) which the harness then forces on the real code through the    *)
(*      verif hooks, and                                                           *)
(*  (c) in trace form (out is a write-once register per package) to validate      *)
(*      that outputs of repeated / regrouped / rescheduled runs are a function of *)
(*      the package alone.                                                         *)
EXTENDS Integers, Sequences, FiniteSets, TLC, Json

CONSTANT W            \* workers = matched packages
VARIABLES pc, slot, collected, hist
vars == <<pc, slot, collected, hist>>

Init == /\ pc = [w \in W |-> "spawned"] /\ slot = [w \in W |-> "empty"] /\ collected = FALSE /\ hist = <<>>
Start(w)      == pc[w] = "spawned" /\ pc' = [pc EXCEPT ![w] = "translating"] /\ hist' = Append(hist, <<w, "worker.start">>) /\ UNCHANGED <<slot, collected>>
Translated(w) == pc[w] = "translating" /\ pc' = [pc EXCEPT ![w] = "writing"] /\ hist' = Append(hist, <<w, "worker.translated">>) /\ UNCHANGED <<slot, collected>>
WriteSlot(w)  == pc[w] = "writing" /\ slot[w] = "empty" /\ slot' = [slot EXCEPT ![w] = w] /\ pc' = [pc EXCEPT ![w] = "done"] /\ UNCHANGED <<collected, hist>>
Collect       == (\A w \in W : pc[w] = "done") /\ ~collected /\ collected' = TRUE /\ UNCHANGED <<pc, slot, hist>>
Next == (\E w \in W : Start(w) \/ Translated(w) \/ WriteSlot(w)) \/ Collect

OwnSlotOnly == \A w \in W : slot[w] \in {"empty", w}
CollectAfterJoin == collected => \A w \in W : slot[w] = w
EmitSchedule == collected => PrintT(<<"H", ToJson(hist)>>)
View == <<pc, slot, collected, hist>>
=============================================================================
