CONSTANTS
  Pkgs <- SmallPkgs
  Class <- SmallClass
  PatternLists <- SmallPatterns
  D = 0
INIT Init
NEXT Next
VIEW View
INVARIANT ExitRule
PROPERTIES NoFileForFailed OnlyMatchedWritten NotRewritten
