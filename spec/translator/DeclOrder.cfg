CONSTANTS
  N = 3
  AscendingOnly = FALSE
  SkipEarlier = FALSE
SPECIFICATION Spec
INVARIANTS EmittedOnce TopoWhenAcyclic StackBounded
PROPERTY Terminates
CHECK_DEADLOCK FALSE
