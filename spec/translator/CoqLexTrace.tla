---------------------------- MODULE CoqLexTrace ----------------------------
(* Code -> spec (C05): the bytes of files emitted by the real goose, mapped   *)
(* to CoqLex's character classes, are lexed by the specification.  A file is   *)
(* accepted iff Coq's lexer ends in code mode outside every comment, no stray  *)
(* comment terminator occurs in code, and the Definition/Notation keywords     *)
(* Coq SEES are exactly as many as the package has declarations (none          *)
(* swallowed by a comment or string, none invented).                           *)
EXTENDS CoqLex, Json
Files == ndJsonDeserialize("files.ndjson")     \* records [name, text (sequence of classes), defs (expected number)]
VARIABLE i
TInit == i \in 1..Len(Files) /\ s = <<>>
TNext == UNCHANGED <<i, s>>
Verdict(f) == LET m == Lex(f.text) IN
              [name |-> f.name, ok |-> (m.mode = "code" /\ m.depth = 0 /\ m.stray = 0 /\ m.hidden = 0 /\ m.defs = f.defs),
               mode |-> m.mode, depth |-> m.depth, stray |-> m.stray, hidden |-> m.hidden, defs |-> m.defs, want |-> f.defs]
EmitVerdict == PrintT(<<"H", ToJson(Verdict(Files[i]))>>)
=============================================================================
