CONSTANTS
  Alphabet = {"(", "*", ")", "x", "n"}
  K = 6
  UseOnePass = FALSE
INIT Init
NEXT Next
INVARIANT CommentSafe
