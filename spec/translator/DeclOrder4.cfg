CONSTANTS
  N = 4
  AscendingOnly = TRUE
  SkipEarlier = FALSE
SPECIFICATION Spec
INVARIANTS EmittedOnce TopoWhenAcyclic StackBounded
CHECK_DEADLOCK FALSE
