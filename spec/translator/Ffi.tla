-------------------------------- MODULE Ffi --------------------------------
(* Specification of the file header goose emits (C08): which FFI prelude a  *)
(* package gets, which imports become Coq Requires, and where the file goes.*)
(* Text is represented as sequences of byte values so that the path mapping *)
(* ('.' and '-' become '_', '/' separates logical path components) and the  *)
(* sorting of the Require lines are part of the specification.              *)
(*                                                                          *)
(* A case is [pkgs, top] where pkgs[p] = [path, imports (sequence of        *)
(* package names in collection order, repetitions allowed), ffi ("none" or  *)
(* the FFI this package IS), builtin (BOOLEAN)] for every package of the    *)
(* import graph (user packages and the leaves they reach).                  *)
EXTENDS Integers, Sequences, FiniteSets, TLC, Json

CONSTANT Cases
VARIABLE i
Init == i \in 1..Len(Cases)
Next == UNCHANGED i

SeqSet(s) == {s[k] : k \in 1..Len(s)}

\* packages reachable from p by import paths that do not pass THROUGH an FFI package:
\* an FFI package is reached but its own imports are not followed
RECURSIVE ReachFrom(_, _, _)
ReachFrom(pk, frontier, seen) ==
  IF frontier = {} THEN seen
  ELSE LET p == CHOOSE x \in frontier : TRUE
           nxt == IF pk[p].ffi # "none" THEN {} ELSE SeqSet(pk[p].imports) \ (seen \cup frontier)
       IN ReachFrom(pk, (frontier \ {p}) \cup nxt, seen \cup {p})
Reach(pk, p) == ReachFrom(pk, {p}, {})
SeenFfis(pk, p) == {pk[q].ffi : q \in {r \in Reach(pk, p) : pk[r].ffi # "none"}}
\* the unique FFI, "none", or "refused" when two different FFIs are reachable
FfiOutcome(pk, p) == LET s == SeenFfis(pk, p) IN
                     IF Cardinality(s) > 1 THEN "refused" ELSE IF s = {} THEN "none" ELSE CHOOSE f \in s : TRUE

\* ---- path mapping on byte sequences ----
Dot == 46  Dash == 45  Slash == 47  Under == 95
MapChar(ch) == IF ch = Dot \/ ch = Dash THEN Under ELSE ch
CoqFsPath(path) == [k \in 1..Len(path) |-> MapChar(path[k])]                 \* file path under -out (without ".v")
CoqLogical(path) == [k \in 1..Len(path) |-> IF path[k] = Slash THEN Dot ELSE MapChar(path[k])]   \* From Goose Require <this>.
\* last path component starts after the last '/'
RECURSIVE LastSlash(_, _)
LastSlash(path, k) == IF k = 0 THEN 0 ELSE IF path[k] = Slash THEN k ELSE LastSlash(path, k - 1)
IsTrusted(path) == LET b == LastSlash(path, Len(path)) IN
                   Len(path) - b >= 8 /\ SubSeq(path, b + 1, b + 8) = <<116, 114, 117, 115, 116, 101, 100, 95>>   \* "trusted_"

\* ---- Require lines: every non-builtin direct import exactly once, sorted (all "From Goose" lines sort before "From Perennial") ----
RECURSIVE LexLt(_, _, _)
LexLt(a, b, k) == IF k > Len(b) THEN FALSE ELSE IF k > Len(a) THEN TRUE
                  ELSE IF a[k] # b[k] THEN a[k] < b[k] ELSE LexLt(a, b, k + 1)
ReqKey(pk, q) == <<IF IsTrusted(pk[q].path) THEN 1 ELSE 0>> \o CoqLogical(pk[q].path)
RECURSIVE SortSet(_, _)
SortSet(pk, S) == IF S = {} THEN <<>>
                  ELSE LET m == CHOOSE x \in S : \A y \in S \ {x} : LexLt(ReqKey(pk, x), ReqKey(pk, y), 1)
                       IN <<m>> \o SortSet(pk, S \ {m})
Requires(pk, p) == LET direct == {q \in SeqSet(pk[p].imports) : ~pk[q].builtin}
                   IN [k \in 1..Cardinality(direct) |->
                         LET q == SortSet(pk, direct)[k] IN [trusted |-> IsTrusted(pk[q].path), logical |-> CoqLogical(pk[q].path)]]

Expected(cs) == [p \in DOMAIN cs.top |->
                   LET name == cs.top[p] IN
                   [pkg |-> name, ffi |-> FfiOutcome(cs.pkgs, name),
                    requires |-> Requires(cs.pkgs, name),
                    file |-> CoqFsPath(cs.pkgs[name].path)]]

\* sanity: an FFI package's own dependencies never count
HiddenNeverCounts == \A p \in DOMAIN Cases[i].top :
   LET name == Cases[i].top[p] pk == Cases[i].pkgs IN
   \A q \in Reach(pk, name) : pk[q].ffi = "none" \/ q = name \/ \E r \in Reach(pk, name) : pk[r].ffi = "none" /\ q \in SeqSet(pk[r].imports)
Emit == PrintT(<<"H", ToJson([i |-> i, e |-> Expected(Cases[i])])>>)
=============================================================================
