---------------------------- MODULE WorkersTrace ----------------------------
(* Code -> spec (C06): results of many translations of the same sources.      *)
(*   result(run, pkg, hash, errs)   one per matched package and run            *)
(*   runend(run, n)                 the run returned n results                 *)
(* out[pkg] is a write-once register: the first result fixes the value, every  *)
(* later result of that package (other run, other grouping, other schedule,    *)
(* other GOMAXPROCS) must be equal.  A run must return exactly one result per  *)
(* matched package.                                                            *)
EXTENDS Integers, Sequences, TLC, Json
Trace == ndJsonDeserialize("trace.ndjson")
VARIABLES out, cnt, seen, l
E == Trace[l]
Is(ev) == l <= Len(Trace) /\ E.ev = ev
Put(f, k, v) == [x \in DOMAIN f \cup {k} |-> IF x = k THEN v ELSE f[x]]
Init == TLCSet(1, 0) /\ out = <<>> /\ cnt = 0 /\ seen = {} /\ l = 1
Result == /\ Is("result")
          /\ IF E.pkg \in DOMAIN out THEN out[E.pkg] = <<E.hash, E.errs>> /\ UNCHANGED out
             ELSE out' = Put(out, E.pkg, <<E.hash, E.errs>>)
          /\ cnt' = cnt + 1 /\ seen' = seen \cup {E.pkg} /\ l' = l + 1
\* exactly one result per matched package, and for exactly the matched packages
RunEnd == /\ Is("runend") /\ cnt = E.n /\ seen = {E.pkgs[k] : k \in 1..Len(E.pkgs)}
          /\ cnt' = 0 /\ seen' = {} /\ l' = l + 1 /\ UNCHANGED out
Next == Result \/ RunEnd
HighWater == TLCSet(1, IF l > TLCGet(1) THEN l ELSE TLCGet(1))
Accepted == /\ PrintT(<<"H", ToString(TLCGet(1))>>)
            /\ TLCGet(1) = Len(Trace) + 1
=============================================================================
