INIT Init
NEXT Next
CONSTRAINT HighWater
POSTCONDITION Accepted
CHECK_DEADLOCK FALSE
