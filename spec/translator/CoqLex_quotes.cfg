CONSTANTS
  Alphabet = {"(", "*", ")", "x", "q"}
  K = 4
  UseOnePass = FALSE
INIT Init
NEXT Next
INVARIANT CommentSafe
