------------------------------ MODULE DeclOrder ------------------------------
(* The declaration emission algorithm of goose (interface.go, Ctx.Decls): C04. *)
(* Declarations 1..N are numbered in source order (files sorted by name,       *)
(* declarations in file order).  deps[d] is the SEQUENCE of declarations that  *)
(* the translation of d recorded as dependencies (in recording order).  The    *)
(* algorithm walks the declarations in source order and emits each one after   *)
(* (recursively) emitting its not-yet-generated dependencies:                  *)
(*     processDecl(d): if generated[d] return; generated[d] := true;           *)
(*                     for dep in deps[d]: processDecl(dep);  emit d           *)
(* One action per step of that recursion (explicit stack).                     *)
(* TLC checks, for EVERY dependency relation over N declarations (chosen in    *)
(* the initial state), that every declaration is emitted exactly once, that    *)
(* the walk terminates also on cyclic relations, and that for acyclic          *)
(* relations every declaration comes after everything it depends on.           *)
EXTENDS Integers, Sequences, FiniteSets, TLC

CONSTANTS N,
          SkipEarlier,   \* FALSE = as written; TRUE models the "skip dependencies that come earlier in the source" shortcut
          AscendingOnly  \* TRUE: dependency sequences in ascending order only (keeps N = 4 tractable)

Decl == 1..N
VARIABLES deps, stack, generated, out, top
vars == <<deps, stack, generated, out, top>>

\* all dependency sequences without repetition over the other declarations (and itself: self reference = recursion)
SeqsOver(S) == UNION {[1..k -> S] : k \in 0..Cardinality(S)}
NoRep(s) == \A a, b \in 1..Len(s) : a # b => s[a] # s[b]

Asc(s) == \A a, b \in 1..Len(s) : a < b => s[a] < s[b]
Init == /\ deps \in [Decl -> {s \in SeqsOver(Decl) : NoRep(s) /\ (AscendingOnly => Asc(s))}]
        /\ stack = <<>> /\ generated = {} /\ out = <<>> /\ top = 1

Top == stack[Len(stack)]
Pop == SubSeq(stack, 1, Len(stack) - 1)

\* the outer loop hands the next declaration in source order to processDecl
StartTop == /\ stack = <<>> /\ top <= N
            /\ top' = top + 1
            /\ IF top \in generated THEN UNCHANGED <<stack, generated>>
               ELSE stack' = <<[d |-> top, i |-> 1]>> /\ generated' = generated \cup {top}
            /\ UNCHANGED <<deps, out>>
\* next dependency of the activation on top of the stack
VisitDep == /\ stack # <<>> /\ Top.i <= Len(deps[Top.d])
            /\ LET dep == deps[Top.d][Top.i]
                   adv == [stack EXCEPT ![Len(stack)].i = @ + 1]
               IN IF dep \in generated \/ (SkipEarlier /\ dep < Top.d)
                  THEN stack' = adv /\ UNCHANGED generated
                  ELSE stack' = Append(adv, [d |-> dep, i |-> 1]) /\ generated' = generated \cup {dep}
            /\ UNCHANGED <<deps, out, top>>
Emit == /\ stack # <<>> /\ Top.i > Len(deps[Top.d])
        /\ out' = Append(out, Top.d) /\ stack' = Pop
        /\ UNCHANGED <<deps, generated, top>>
Next == StartTop \/ VisitDep \/ Emit
Spec == Init /\ [][Next]_vars /\ WF_vars(Next)

Done == stack = <<>> /\ top > N
\* transitive closure of the recorded dependency relation
DepSet(d) == {deps[d][k] : k \in 1..Len(deps[d])}
RECURSIVE ReachD(_, _)
ReachD(front, seen) == IF front = {} THEN seen
                       ELSE LET nx == UNION {DepSet(x) : x \in front} \ seen IN ReachD(nx, seen \cup nx)
Closure(d) == ReachD({d}, {})                  \* declarations reachable in >= 1 step
Acyclic == \A d \in Decl : d \notin Closure(d) \/ DepSet(d) = {d} \/ (d \in DepSet(d) /\ d \notin ReachD(DepSet(d) \ {d}, {}))
SelfOnlyCycles == \A d \in Decl : d \notin ReachD(DepSet(d) \ {d}, DepSet(d) \ {d})
Pos(d) == CHOOSE k \in 1..Len(out) : out[k] = d

EmittedOnce == Done => /\ Len(out) = N /\ \A d \in Decl : Cardinality({k \in 1..Len(out) : out[k] = d}) = 1
\* acyclic (apart from self reference, which goes through the recursive binder): definitions before uses
TopoWhenAcyclic == Done /\ SelfOnlyCycles => \A d \in Decl : \A e \in DepSet(d) \ {d} : Pos(e) < Pos(d)
Terminates == <>Done
StackBounded == Len(stack) <= N
=============================================================================
