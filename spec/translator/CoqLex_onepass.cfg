CONSTANTS
  Alphabet = {"(", "*", ")", "x", "n"}
  K = 6
  UseOnePass = TRUE
INIT Init
NEXT Next
INVARIANT CommentSafe
