CONSTANTS
  Alphabet = {"x"}
  K = 0
  UseOnePass = FALSE
INIT TInit
NEXT TNext
INVARIANT EmitVerdict
