------------------------------ MODULE TestGen ------------------------------
(* Specification of cmd/test_gen (C18): which tests must be generated for a *)
(* semantics package directory.  A directory is a sequence of files (in the *)
(* order os.ReadDir returns them: sorted by name), a file has a kind and a  *)
(* sequence of gofmt-formatted top-level LINES, each of a class:            *)
(*   test         func testN(...) bool {                                    *)
(*   failing      func failing_testN(...) bool {                            *)
(*   underscore   func test_N(...)          (still "named test...")         *)
(*   unicode      func test<non-ASCII letter>N(...)                         *)
(*   oneline      func testN() bool { return true }   (gofmt keeps a body   *)
(*                that was written on one line)                              *)
(*   bracecomment func testN() bool { // note      (comment after the brace) *)
(*   failingoneline   func failing_testN() bool { return true }             *)
(*   bigcomment   about 5000 bytes of // comment lines (pushes what follows    *)
(*                past any 4096-byte read buffer)                            *)
(*   disabled     func disabled_testN(...                                   *)
(*   helper       func helperN(...                                          *)
(*   method       func (r *T) testN(...      a method, not a top-level function *)
(*   captest      func TestN(...                                            *)
(*   commented    // func testN(...                                         *)
(*   blockline    func testN(... at column 0 INSIDE a /* */ comment         *)
(*   indented     <tab>func testN(...  inside a block comment / raw string  *)
(*   onelinecomment   /* text */     a one-line block comment at column 0   *)
(* File kinds: src (x.go), testish (x_tests.go: an ordinary source whose    *)
(* name merely contains _test), gotest (x_test.go), gold (x.gold.v),        *)
(* exttest (x_test.go whose package clause is <pkg>_test), backup (x.go~),   *)
(* symsrc (x.go that is a symbolic link to a source file elsewhere: a src),  *)
(* subdir (a sub-directory of the package directory holding a source file   *)
(* with these lines: a nested package or test data, not part of the package). *)
(* Only src, symsrc and testish files are read.  How the directory itself is *)
(* named on the command line (odd characters, through a symbolic link) does  *)
(* not matter.                                                               *)
EXTENDS Integers, Sequences, TLC, Json

CONSTANT Cases        \* sequence of directories: each a sequence of [kind, name, lines: Seq([class, n])]

IsTestLine(l) == l.class \in {"test", "failing", "underscore", "unicode", "oneline", "bracecomment", "failingoneline"}
Read(f) == f.kind \in {"src", "testish", "symsrc"}

RECURSIVE LineTests(_, _)
LineTests(lines, i) == IF i > Len(lines) THEN <<>>
                       ELSE (IF IsTestLine(lines[i]) THEN <<[n |-> lines[i].n, fail |-> IF lines[i].class \in {"failing", "failingoneline"} THEN 1 ELSE 0]>> ELSE <<>>)
                            \o LineTests(lines, i + 1)
RECURSIVE DirTests(_, _)
DirTests(dir, i) == IF i > Len(dir) THEN <<>>
                    ELSE (IF Read(dir[i]) THEN LineTests(dir[i].lines, 1) ELSE <<>>) \o DirTests(dir, i + 1)

\* the Go and the Coq generator must both produce exactly this sequence (Coq marks failing ones with Fail)
Expected(dir) == DirTests(dir, 1)

VARIABLE i
Init == i \in 1..Len(Cases)
Next == UNCHANGED i
\* sanity of the specification itself: one test per test line of a read file, in order, nothing else
CountOK == Len(Expected(Cases[i])) =
             LET RECURSIVE Cnt(_, _)
                 Cnt(d, k) == IF k > Len(d) THEN 0
                              ELSE (IF Read(d[k]) THEN Len(SelectSeq(d[k].lines, IsTestLine)) ELSE 0) + Cnt(d, k + 1)
             IN Cnt(Cases[i], 1)
Emit == PrintT(<<"H", ToJson([i |-> i, tests |-> Expected(Cases[i])])>>)
=============================================================================
