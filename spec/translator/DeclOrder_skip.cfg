CONSTANTS
  N = 3
  AscendingOnly = FALSE
  SkipEarlier = TRUE
SPECIFICATION Spec
INVARIANTS EmittedOnce TopoWhenAcyclic StackBounded
CHECK_DEADLOCK FALSE
