CONSTANT W = {"p1", "p2", "p3"}
INIT Init
NEXT Next
INVARIANTS OwnSlotOnly CollectAfterJoin EmitSchedule
CHECK_DEADLOCK FALSE
