---- MODULE WordTest ----
(* evaluates Word operations on operand vectors supplied by the harness; the results are compared with Go's native arithmetic *)
EXTENDS Word, TLC, Json
CONSTANT Vec      \* sequence of [a, b] operand pairs (limb sequences of equal length)
VARIABLE i
Init == i \in 1..Len(Vec)
Next == UNCHANGED i
R(a, b) == [a |-> a, b |-> b, add |-> Add(a, b), sub |-> Sub(a, b), mul |-> Mul(a, b),
            band |-> WAnd(a, b), bor |-> WOr(a, b), bxor |-> WXor(a, b), bnot |-> WNot(a),
            lt |-> IF Lt(a, b) THEN 1 ELSE 0,
            shl |-> Shl(a, ShiftAmt(b, 8 * Len(a))), shr |-> Shr(a, ShiftAmt(b, 8 * Len(a))),
            quot |-> IF IsZero(b) THEN <<>> ELSE Quot(a, b), rem |-> IF IsZero(b) THEN <<>> ELSE Rem(a, b),
            dec |-> Dec(a)]
Emit == PrintT(<<"H", ToJson(R(Vec[i][1], Vec[i][2]))>>)
====
