------------------------------ MODULE Word ------------------------------
(* Fixed-width unsigned machine words as little-endian sequences of byte   *)
(* limbs (TLC integers are 32-bit, so a 64-bit word cannot be an integer). *)
(* A word of width w bits is a sequence of w/8 limbs in 0..255, least      *)
(* significant first - which is also its little-endian encoding.           *)
(* All operations are total and wrap around (Go's unsigned arithmetic).    *)
EXTENDS Integers, Sequences

\* TLC evaluates [i \in S |-> e] lazily, element by element, on every application; chains of such
\* values blow up exponentially, so every function constructor below is forced into a tuple.
Strict(f, n) == SubSeq(f, 1, n)
ZeroW(n) == Strict([i \in 1..n |-> 0], n)
OfNat(n, x) ==            \* x < 2^31, as an n-limb word
  LET RECURSIVE F(_, _)
      F(i, y) == IF i > n THEN <<>> ELSE <<y % 256>> \o F(i + 1, y \div 256)
  IN F(1, x)
\* value of a word that is known to fit a TLC integer (<= 3 significant limbs + small 4th)
ToNat(w) == LET RECURSIVE F(_)
                F(i) == IF i > Len(w) THEN 0 ELSE w[i] + 256 * F(i + 1)
            IN F(1)
FitsNat(w) == \A i \in 1..Len(w) : i > 3 => w[i] = 0      \* < 2^24: safe for indices and counts

\* zero-extension / truncation to n limbs
Resize(w, n) == Strict([i \in 1..n |-> IF i <= Len(w) THEN w[i] ELSE 0], n)

RECURSIVE AddC(_, _, _, _)
AddC(a, b, i, c) == IF i > Len(a) THEN <<>>
                    ELSE LET s == a[i] + b[i] + c IN <<s % 256>> \o AddC(a, b, i + 1, s \div 256)
Add(a, b) == AddC(a, b, 1, 0)
WNot(a) == Strict([i \in 1..Len(a) |-> 255 - a[i]], Len(a))
Neg(a) == AddC(WNot(a), ZeroW(Len(a)), 1, 1)
Sub(a, b) == AddC(a, WNot(b), 1, 1)

\* comparison from the most significant limb
RECURSIVE LtFrom(_, _, _)
LtFrom(a, b, i) == IF i = 0 THEN FALSE
                   ELSE IF a[i] # b[i] THEN a[i] < b[i] ELSE LtFrom(a, b, i - 1)
Lt(a, b) == LtFrom(a, b, Len(a))
Le(a, b) == ~Lt(b, a)

\* multiplication: school book, result truncated to Len(a) limbs
MulLimb(a, m, shift) ==    \* (a * m) << (8*shift), truncated
  LET n == Len(a)
      RECURSIVE F(_, _)
      F(i, c) == IF i > n THEN <<>>
                 ELSE IF i <= shift THEN <<0>> \o F(i + 1, 0)
                 ELSE LET p == a[i - shift] * m + c IN <<p % 256>> \o F(i + 1, p \div 256)
  IN F(1, 0)
RECURSIVE MulAcc(_, _, _, _)
MulAcc(a, b, j, acc) == IF j > Len(b) THEN acc
                        ELSE MulAcc(a, b, j + 1, IF b[j] = 0 THEN acc ELSE Add(acc, MulLimb(a, b[j], j - 1)))
Mul(a, b) == MulAcc(a, b, 1, ZeroW(Len(a)))

\* bitwise, limb by limb, bit by bit (closed form over the 8 bits of a limb)
P2 == <<1, 2, 4, 8, 16, 32, 64, 128>>
BitOf(x, k) == (x \div P2[k]) % 2
ByteOp(x, y, f(_, _)) == f(BitOf(x, 1), BitOf(y, 1)) + 2 * f(BitOf(x, 2), BitOf(y, 2)) + 4 * f(BitOf(x, 3), BitOf(y, 3))
                       + 8 * f(BitOf(x, 4), BitOf(y, 4)) + 16 * f(BitOf(x, 5), BitOf(y, 5)) + 32 * f(BitOf(x, 6), BitOf(y, 6))
                       + 64 * f(BitOf(x, 7), BitOf(y, 7)) + 128 * f(BitOf(x, 8), BitOf(y, 8))
AndBit(p, q) == p * q
OrBit(p, q)  == IF p + q > 0 THEN 1 ELSE 0
XorBit(p, q) == (p + q) % 2
WAnd(a, b) == Strict([i \in 1..Len(a) |-> ByteOp(a[i], b[i], AndBit)], Len(a))
WOr(a, b) == Strict([i \in 1..Len(a) |-> ByteOp(a[i], b[i], OrBit)], Len(a))
WXor(a, b) == Strict([i \in 1..Len(a) |-> ByteOp(a[i], b[i], XorBit)], Len(a))

\* shifts by a TLC integer amount k >= 0 (k >= width gives 0)
Pow2(k) == LET RECURSIVE P(_)
               P(j) == IF j = 0 THEN 1 ELSE 2 * P(j - 1)
           IN P(k)
Shl(a, k) == LET n == Len(a) q == k \div 8 r == k % 8 IN
  IF k >= 8 * n THEN ZeroW(n)
  ELSE Strict([i \in 1..n |->
          LET lo == IF i - q >= 1 THEN a[i - q] ELSE 0
              lo2 == IF i - q - 1 >= 1 THEN a[i - q - 1] ELSE 0
          IN ((lo * Pow2(r)) % 256) + (lo2 \div Pow2(8 - r))], n)
Shr(a, k) == LET n == Len(a) q == k \div 8 r == k % 8 IN
  IF k >= 8 * n THEN ZeroW(n)
  ELSE Strict([i \in 1..n |->
          LET hi == IF i + q <= n THEN a[i + q] ELSE 0
              hi2 == IF i + q + 1 <= n THEN a[i + q + 1] ELSE 0
          IN (hi \div Pow2(r)) + ((hi2 * Pow2(8 - r)) % 256)], n)
\* shift amount given as a word: anything >= width is "large"
ShiftAmt(b, width) == IF (\A i \in 2..Len(b) : b[i] = 0) /\ b[1] < width THEN b[1] ELSE width

\* division and remainder by shift-subtract (bit by bit, most significant first); divisor # 0
Bit(a, k) == (a[(k \div 8) + 1] \div Pow2(k % 8)) % 2        \* k-th bit, k from 0
Shl1In(r, bit) == LET n == Len(r) IN Strict([i \in 1..n |-> ((r[i] * 2) % 256) + (IF i = 1 THEN bit ELSE r[i - 1] \div 128)], n)
RECURSIVE DivLoop(_, _, _, _, _)
DivLoop(a, b, k, q, r) ==      \* processes bit k of a (from the top); q, r accumulate
  IF k < 0 THEN <<q, r>>
  ELSE LET top == r[Len(r)] \div 128          \* bit shifted out of r (r < b <= 2^w so r*2+bit may need w+1 bits)
           r2 == Shl1In(r, Bit(a, k))
           ge == top = 1 \/ Le(b, r2)
           r3 == IF ge THEN Sub(r2, b) ELSE r2
           q2 == Shl1In(q, IF ge THEN 1 ELSE 0)
       IN DivLoop(a, b, k - 1, q2, r3)
DivMod(a, b) == DivLoop(a, b, 8 * Len(a) - 1, ZeroW(Len(a)), ZeroW(Len(a)))
Quot(a, b) == DivMod(a, b)[1]
Rem(a, b)  == DivMod(a, b)[2]
IsZero(a) == \A i \in 1..Len(a) : a[i] = 0

\* canonical decimal digits (most significant first)
RECURSIVE DivStep10(_, _, _)
DivStep10(w, i, rem) ==
  IF i = 0 THEN <<<<>>, rem>>
  ELSE LET cur == rem * 256 + w[i]
           lower == DivStep10(w, i - 1, cur % 10)
       IN <<Strict([k \in 1..i |-> IF k = i THEN cur \div 10 ELSE lower[1][k]], i), lower[2]>>
RECURSIVE DecRev(_)
DecRev(w) == IF IsZero(w) THEN <<>> ELSE LET dm == DivStep10(w, Len(w), 0) IN <<dm[2]>> \o DecRev(dm[1])
Dec(w) == IF IsZero(w) THEN <<0>> ELSE LET d == DecRev(w) IN Strict([i \in 1..Len(d) |-> d[Len(d) + 1 - i]], Len(d))
=============================================================================
