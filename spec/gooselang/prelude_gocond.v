(* Condition variables with Go's operational meaning (sync.Cond's ticket list): Wait registers a ticket before it
   releases the lock and parks until that ticket has been notified; Signal notifies the oldest waiting ticket, if any;
   Broadcast notifies every ticket issued so far. Perennial's definitions (prelude.v) are the coarser model in which
   Wait may return spuriously and Signal/Broadcast do nothing; every behaviour below is also a behaviour there.
   Loaded after prelude.v, these definitions replace the four cond operations. Cell layout of a cond:
   c+0 lock, c+1 next ticket to issue, c+2 first ticket not yet notified. *)

Definition lock.newCond: val :=
  rec: "lock.newCond" "l" :=
    let: "c" := AllocN #3 #0 in
    assign "c" "l";;
    "c".

Definition cond.ticket: val :=
  rec: "cond.ticket" "p" :=
    let: "v" := Load "p" in
    (if: Snd (CmpXchg "p" "v" ("v" + #1))
    then "v"
    else "cond.ticket" "p").

Definition lock.condSignal: val :=
  rec: "lock.condSignal" "c" :=
    let: "n" := Load (loc_add "c" #2) in
    let: "w" := Load (loc_add "c" #1) in
    (if: "n" < "w"
    then
      (if: Snd (CmpXchg (loc_add "c" #2) "n" ("n" + #1))
      then #()
      else "lock.condSignal" "c")
    else #()).

Definition lock.condBroadcast: val :=
  rec: "lock.condBroadcast" "c" :=
    let: "n" := Load (loc_add "c" #2) in
    let: "w" := Load (loc_add "c" #1) in
    (if: "n" < "w"
    then
      (if: Snd (CmpXchg (loc_add "c" #2) "n" "w")
      then #()
      else "lock.condBroadcast" "c")
    else #()).

Definition cond.park: val :=
  rec: "cond.park" "c" "t" :=
    (if: "t" < (Load (loc_add "c" #2))
    then #()
    else "cond.park" "c" "t").

Definition lock.condWait: val :=
  rec: "lock.condWait" "c" :=
    let: "l" := Load "c" in
    let: "t" := cond.ticket (loc_add "c" #1) in
    lock.release "l";;
    cond.park "c" "t";;
    lock.acquire "l".
