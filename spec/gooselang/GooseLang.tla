----------------------------- MODULE GooseLang -----------------------------
(* An executable small-step semantics of GooseLang (the target language of *)
(* goose), written so that TLC can run it: a CEK-style abstract machine.    *)
(*                                                                          *)
(* The program is NOT state: it is the constant P, loaded from batch.json,  *)
(* which the harness produces from the .v text emitted by the real goose    *)
(* binary (parsed with Coq's precedences, notations expanded into the core  *)
(* forms below) together with prelude.v, the GooseLang library written in   *)
(* the same syntax.                                                         *)
(*                                                                          *)
(*   P.nodes[i] = [op, x, xs, k, v]   core term i (k = sub-term ids)        *)
(*        val v | var x | glob x | bi x | rec x(=f) xs(=<<param>>) k=<<body>> *)
(*        app k=<<f,a>> | bin x(=op) k=<<l,r>> | un x k=<<e>> | if k=<<c,a,b>> *)
(*        let x k=<<e1,e2>> (x = "" for ;;) | pair k=<<a,b>> | fork k=<<e>>   *)
(*   P.defs[name] = node id of a top-level definition (program and prelude)  *)
(*   P.tests[j]   = [name, entry (node id of a closed term), rty]            *)
(*                                                                          *)
(* Evaluation order is GooseLang's: the argument of an application, the     *)
(* right operand of a binary operator and the right component of a pair are *)
(* evaluated first.  Heap cells carry the non-atomic access state of        *)
(* Perennial (reader count / being written), so a data race is a stuck      *)
(* state.  Values of product type are flattened over consecutive cells.     *)
EXTENDS Integers, Sequences, FiniteSets, TLC, Json, Word

CONSTANTS Mode,        \* "seq": one thread, run to completion | "conc": interleave at visible primitives
          Fuel,        \* reductions per TLC step
          ArbChoices   \* words ArbitraryInt may return

P == JsonDeserialize("batch.json")
N == P.nodes

VARIABLES th,      \* thread path -> machine configuration
          heap,    \* location -> [s |-> access state, v |-> value]; s = -1 being written, n >= 0 readers
          test     \* index of the test being run

vars == <<th, heap, test>>

DiskTid == <<0 - 1>>       \* reserved thread path under which the blocks of the disk FFI live in the heap
DiskBlocks == 30
BlockBytes == 4096

-----------------------------------------------------------------------------
(* values *)
VUnit        == [k |-> "unit"]
VBool(b)     == [k |-> "bool", t |-> b]
VW(kind, w)  == [k |-> kind, w |-> w]                 \* kind \in {"u64","u32","u8"}
VStr(s)      == [k |-> "str", s |-> s]                \* s: sequence of bytes
VLoc(l)      == [k |-> "loc", l |-> l]                \* l = <<thread path, block, offset>>
VNull        == VLoc(<<<<>>, 0, 0>>)
VPair(a, b)  == [k |-> "pair", a |-> a, b |-> b]
VInjL(v)     == [k |-> "injl", i |-> v]
VInjR(v)     == [k |-> "injr", i |-> v]
VClo(f, x, n, env) == [k |-> "clo", f |-> f, x |-> x, n |-> n, env |-> env]
VBi(name, args)    == [k |-> "bi", name |-> name, args |-> args]
VTy(t, a, b) == [k |-> "ty", t |-> t, a |-> a, b |-> b]
U64(n)       == VW("u64", OfNat(8, n))
IsWord(v)    == v.k \in {"u64", "u32", "u8"}

\* environments are association sequences (strict values; the last binding wins)
RECURSIVE LookupFrom(_, _, _)
LookupFrom(env, x, i) == IF i = 0 THEN [found |-> FALSE]
                         ELSE IF env[i][1] = x THEN [found |-> TRUE, v |-> env[i][2]]
                         ELSE LookupFrom(env, x, i - 1)
Lookup(env, x) == LookupFrom(env, x, Len(env))
Bind(env, x, v) == IF x = "" THEN env ELSE Append(env, <<x, v>>)

-----------------------------------------------------------------------------
(* machine configurations:  m = "e" evaluate node n in env | "v" return v to the continuation k  *)
(*                          | "prim" a visible primitive is pending | "done" | "stuck"            *)
NewCfg(n, env) == [m |-> "e", n |-> n, v |-> VUnit, env |-> env, k |-> <<>>,
                   na |-> 0, nc |-> 0, why |-> "", pend |-> [op |-> "none", args |-> <<>>]]
Ret(c, v)      == [c EXCEPT !.m = "v", !.v = v]
Stuck(c, why)  == [c EXCEPT !.m = "stuck", !.why = why]
Push(c, fr)    == [c EXCEPT !.k = Append(@, fr)]
EvalAt(c, n, env) == [c EXCEPT !.m = "e", !.n = n, !.env = env]
Pend(c, op, args) == [c EXCEPT !.m = "prim", !.pend = [op |-> op, args |-> args]]

-----------------------------------------------------------------------------
(* type descriptors (values of kind "ty") and the type-directed helpers     *)
RECURSIVE TySize(_)
TySize(t) == CASE t.t = "unit" -> 0
               [] t.t = "prod" -> TySize(t.a) + TySize(t.b)
               [] OTHER -> 1
RECURSIVE ZeroVal(_)
ZeroVal(t) == CASE t.t = "u64" -> VW("u64", ZeroW(8))
                [] t.t = "u32" -> VW("u32", ZeroW(4))
                [] t.t = "u8"  -> VW("u8", ZeroW(1))
                [] t.t = "bool" -> VBool(FALSE)
                [] t.t = "str" -> VStr(<<>>)
                [] t.t = "unit" -> VUnit
                [] t.t = "prod" -> VPair(ZeroVal(t.a), ZeroVal(t.b))
                [] OTHER -> VNull        \* ptrT, mapT, arrayT, anyT, function types: null
RECURSIVE Flatten(_)
Flatten(v) == CASE v.k = "unit" -> <<>>
                [] v.k = "pair" -> Flatten(v.a) \o Flatten(v.b)
                [] OTHER -> <<v>>

-----------------------------------------------------------------------------
(* operators *)
Comparable(v) == v.k \notin {"clo", "bi"}
SameWidth(a, b) == IsWord(a) /\ a.k = b.k
\* values are compared kind first (TLC refuses to compare values of different shape)
RECURSIVE ValEq(_, _)
ValEq(a, b) == IF a.k # b.k THEN FALSE
               ELSE CASE a.k = "pair" -> ValEq(a.a, b.a) /\ ValEq(a.b, b.b)
                      [] a.k \in {"injl", "injr"} -> ValEq(a.i, b.i)
                      [] a.k = "unit" -> TRUE
                      [] a.k = "bool" -> a.t = b.t
                      [] IsWord(a) -> a.w = b.w
                      [] a.k = "str" -> a.s = b.s
                      [] a.k = "loc" -> a.l = b.l
                      [] a.k = "ty" -> a.t = b.t
                      [] OTHER -> FALSE
RECURSIVE AllComparable(_)
AllComparable(v) == CASE v.k = "pair" -> AllComparable(v.a) /\ AllComparable(v.b)
                      [] v.k \in {"injl", "injr"} -> AllComparable(v.i)
                      [] OTHER -> Comparable(v)

RECURSIVE StrLtFrom(_, _, _)
StrLtFrom(x, y, i) == IF i > Len(y) THEN FALSE
                      ELSE IF i > Len(x) THEN TRUE
                      ELSE IF x[i] # y[i] THEN x[i] < y[i] ELSE StrLtFrom(x, y, i + 1)
StrLt(x, y) == StrLtFrom(x, y, 1)

BinOp(c, op, a, b) ==
  CASE op = "=" -> IF AllComparable(a) /\ AllComparable(b) THEN Ret(c, VBool(ValEq(a, b))) ELSE Stuck(c, "comparison of closures")
    [] op = "+" /\ a.k = "str" /\ b.k = "str" -> Ret(c, VStr(a.s \o b.s))
    [] op \in {"+", "-", "*", "and", "or", "xor"} ->
         IF SameWidth(a, b)
         THEN Ret(c, VW(a.k, CASE op = "+" -> Add(a.w, b.w) [] op = "-" -> Sub(a.w, b.w) [] op = "*" -> Mul(a.w, b.w)
                                [] op = "and" -> WAnd(a.w, b.w) [] op = "or" -> WOr(a.w, b.w) [] op = "xor" -> WXor(a.w, b.w)))
         ELSE Stuck(c, "binary operator on operands of different width or kind: " \o op)
    [] op \in {"quot", "rem"} ->
         IF SameWidth(a, b) /\ ~IsZero(b.w)
         THEN Ret(c, VW(a.k, IF op = "quot" THEN Quot(a.w, b.w) ELSE Rem(a.w, b.w)))
         ELSE Stuck(c, "division: different widths or zero divisor")
    [] op \in {"shl", "shr"} ->
         IF IsWord(a) /\ IsWord(b)                 \* the shift count may have any width (deliberately lenient)
         THEN LET amt == ShiftAmt(b.w, 8 * Len(a.w)) IN
              Ret(c, VW(a.k, IF op = "shl" THEN Shl(a.w, amt) ELSE Shr(a.w, amt)))
         ELSE Stuck(c, "shift of a non-word")
    \* (ordering of strings: byte-wise lexicographic, as in Go; whether GooseLang defines it at all is not known
    \*  offline, so the model is deliberately permissive here and goose's acceptance of it is not judged)
    [] op \in {"<", "<=", ">", ">="} /\ a.k = "str" /\ b.k = "str" ->
         Ret(c, VBool(CASE op = "<" -> StrLt(a.s, b.s) [] op = "<=" -> ~StrLt(b.s, a.s) [] op = ">" -> StrLt(b.s, a.s) [] op = ">=" -> ~StrLt(a.s, b.s)))
    [] op \in {"<", "<=", ">", ">="} ->
         IF SameWidth(a, b)
         THEN Ret(c, VBool(CASE op = "<" -> Lt(a.w, b.w) [] op = "<=" -> Le(a.w, b.w) [] op = ">" -> Lt(b.w, a.w) [] op = ">=" -> Le(b.w, a.w)))
         ELSE Stuck(c, "ordering comparison on operands of different width or kind")
    [] OTHER -> Stuck(c, "unknown binary operator " \o op)

UnOp(c, op, a) ==
  CASE op = "~" /\ a.k = "bool" -> Ret(c, VBool(~a.t))
    [] op = "~" /\ IsWord(a) -> Ret(c, VW(a.k, WNot(a.w)))
    [] OTHER -> Stuck(c, "unary operator on a wrong operand")

-----------------------------------------------------------------------------
(* builtins: pure ones reduce locally; visible ones become a pending primitive *)
Arity(name) ==
  CASE name \in {"Fst", "Snd", "InjL", "InjR", "to_u64", "to_u32", "to_u8", "ty.size", "ty.isprod", "ty.isunit",
                 "ty.fst", "ty.snd", "zero_val", "slice.T", "mapT", "arrayT", "str.len", "str.ofbyte",
                 "uint64_to_string", "StartRead", "FinishRead", "PrepareWrite", "Load", "ArbitraryInt", "Panic",
                 "is_null", "DiskRead", "DiskSize"} -> 1
    [] name \in {"loc_add", "prodT", "str.get", "AllocN", "FinishStore", "DiskWrite"} -> 2
    [] name \in {"Case", "CmpXchg"} -> 3
    [] OTHER -> 0
Visible == {"AllocN", "StartRead", "FinishRead", "PrepareWrite", "FinishStore", "Load", "CmpXchg", "ArbitraryInt", "Panic",
            "DiskRead", "DiskWrite", "DiskSize"}

ToWidth(c, kind, n, a) == IF IsWord(a) THEN Ret(c, VW(kind, Resize(a.w, n))) ELSE Stuck(c, "integer conversion of a non-integer")

\* Apply a function value to an argument (used by application frames and by Case)
RECURSIVE Apply(_, _, _)
Builtin(c, name, a) ==
  CASE name = "Fst" -> IF a[1].k = "pair" THEN Ret(c, a[1].a) ELSE Stuck(c, "Fst of a non-pair")
    [] name = "Snd" -> IF a[1].k = "pair" THEN Ret(c, a[1].b) ELSE Stuck(c, "Snd of a non-pair")
    [] name = "InjL" -> Ret(c, VInjL(a[1]))
    [] name = "InjR" -> Ret(c, VInjR(a[1]))
    [] name = "Case" -> IF a[1].k = "injl" THEN Apply(c, a[2], a[1].i)
                        ELSE IF a[1].k = "injr" THEN Apply(c, a[3], a[1].i) ELSE Stuck(c, "match on a non-sum")
    [] name = "to_u64" -> ToWidth(c, "u64", 8, a[1])
    [] name = "to_u32" -> ToWidth(c, "u32", 4, a[1])
    [] name = "to_u8"  -> ToWidth(c, "u8", 1, a[1])
    [] name = "is_null" -> IF a[1].k = "loc" THEN Ret(c, VBool(a[1] = VNull)) ELSE Stuck(c, "is_null of a non-location")
    [] name = "loc_add" ->
         IF a[1].k = "loc" /\ a[2].k = "u64" /\ FitsNat(a[2].w)
         THEN Ret(c, VLoc(<<a[1].l[1], a[1].l[2], a[1].l[3] + ToNat(a[2].w)>>))
         ELSE Stuck(c, "pointer arithmetic on a non-location or with a huge offset")
    [] name = "ty.size"   -> IF a[1].k = "ty" THEN Ret(c, U64(TySize(a[1]))) ELSE Stuck(c, "ty.size of a non-type")
    [] name = "ty.isprod" -> IF a[1].k = "ty" THEN Ret(c, VBool(a[1].t = "prod")) ELSE Stuck(c, "type expected")
    [] name = "ty.isunit" -> IF a[1].k = "ty" THEN Ret(c, VBool(a[1].t = "unit")) ELSE Stuck(c, "type expected")
    [] name = "ty.fst"    -> IF a[1].k = "ty" /\ a[1].t = "prod" THEN Ret(c, a[1].a) ELSE Stuck(c, "product type expected")
    [] name = "ty.snd"    -> IF a[1].k = "ty" /\ a[1].t = "prod" THEN Ret(c, a[1].b) ELSE Stuck(c, "product type expected")
    [] name = "zero_val"  -> IF a[1].k = "ty" THEN Ret(c, ZeroVal(a[1])) ELSE Stuck(c, "zero_val of a non-type")
    \* slice.T t = (arrayT t * uint64T * uint64T): a slice is the triple ((ptr, len), cap), flattened over 3 cells
    [] name = "slice.T"   -> Ret(c, VTy("prod", VTy("prod", VTy("array", a[1], 0), VTy("u64", 0, 0)), VTy("u64", 0, 0)))
    [] name = "mapT"      -> Ret(c, VTy("map", a[1], 0))
    [] name = "arrayT"    -> Ret(c, VTy("array", a[1], 0))
    [] name = "prodT"     -> Ret(c, VTy("prod", a[1], a[2]))
    [] name = "str.len"   -> IF a[1].k = "str" THEN Ret(c, U64(Len(a[1].s))) ELSE Stuck(c, "length of a non-string")
    [] name = "str.get"   -> IF a[1].k = "str" /\ a[2].k = "u64" /\ FitsNat(a[2].w) /\ ToNat(a[2].w) < Len(a[1].s)
                             THEN Ret(c, VW("u8", <<a[1].s[ToNat(a[2].w) + 1]>>)) ELSE Stuck(c, "string index")
    [] name = "str.ofbyte" -> IF a[1].k = "u8" THEN Ret(c, VStr(<<a[1].w[1]>>)) ELSE Stuck(c, "byte expected")
    [] name = "uint64_to_string" ->
         IF a[1].k = "u64" THEN Ret(c, VStr(LET d == Dec(a[1].w) IN Strict([i \in 1..Len(d) |-> 48 + d[i]], Len(d))))
         ELSE Stuck(c, "uint64_to_string of a non-u64")
    [] name \in Visible -> Pend(c, name, a)
    [] OTHER -> Stuck(c, "unknown builtin " \o name)

Apply(c, f, a) ==
  CASE f.k = "clo" -> EvalAt(c, f.n, Bind(Bind(f.env, f.f, f), f.x, a))
    [] f.k = "bi"  -> LET args == Append(f.args, a) IN
                      IF Len(args) < Arity(f.name) THEN Ret(c, VBi(f.name, args)) ELSE Builtin(c, f.name, args)
    [] OTHER -> Stuck(c, "application of a non-function")

-----------------------------------------------------------------------------
(* local (thread-private) reduction steps *)
Eval(c) ==
  LET nd == N[c.n] IN
  CASE nd.op = "val"  -> Ret(c, nd.v)
    [] nd.op = "var"  -> LET r == Lookup(c.env, nd.x) IN IF r.found THEN Ret(c, r.v) ELSE Stuck(c, "unbound variable " \o nd.x)
    [] nd.op = "glob" -> IF nd.x \in DOMAIN P.defs THEN EvalAt(c, P.defs[nd.x], <<>>) ELSE Stuck(c, "unknown identifier " \o nd.x)
    [] nd.op = "bi"   -> IF Arity(nd.x) = 0 THEN Stuck(c, "unknown builtin " \o nd.x) ELSE Ret(c, VBi(nd.x, <<>>))
    [] nd.op = "rec"  -> Ret(c, VClo(nd.x, nd.xs[1], nd.k[1], c.env))
    [] nd.op = "app"  -> EvalAt(Push(c, [f |-> "appA", n |-> nd.k[1], env |-> c.env]), nd.k[2], c.env)
    [] nd.op = "bin"  -> EvalAt(Push(c, [f |-> "binB", op |-> nd.x, n |-> nd.k[1], env |-> c.env]), nd.k[2], c.env)
    [] nd.op = "un"   -> EvalAt(Push(c, [f |-> "un", op |-> nd.x]), nd.k[1], c.env)
    [] nd.op = "if"   -> EvalAt(Push(c, [f |-> "if", a |-> nd.k[2], b |-> nd.k[3], env |-> c.env]), nd.k[1], c.env)
    [] nd.op = "let"  -> EvalAt(Push(c, [f |-> "let", x |-> nd.x, n |-> nd.k[2], env |-> c.env]), nd.k[1], c.env)
    [] nd.op = "pair" -> EvalAt(Push(c, [f |-> "pairB", n |-> nd.k[1], env |-> c.env]), nd.k[2], c.env)
    [] nd.op = "fork" -> [c EXCEPT !.m = "prim", !.pend = [op |-> "fork", args |-> <<>>, n |-> nd.k[1], env |-> c.env]]
    [] OTHER -> Stuck(c, "unknown term " \o nd.op)

Cont(c) ==
  IF c.k = <<>> THEN [c EXCEPT !.m = "done"]
  ELSE LET fr == c.k[Len(c.k)]
           c1 == [c EXCEPT !.k = SubSeq(c.k, 1, Len(c.k) - 1)]
       IN CASE fr.f = "appA"  -> EvalAt(Push(c1, [f |-> "appF", v |-> c.v]), fr.n, fr.env)
            [] fr.f = "appF"  -> Apply(c1, c.v, fr.v)
            [] fr.f = "binB"  -> EvalAt(Push(c1, [f |-> "binA", op |-> fr.op, v |-> c.v]), fr.n, fr.env)
            [] fr.f = "binA"  -> BinOp(c1, fr.op, c.v, fr.v)
            [] fr.f = "un"    -> UnOp(c1, fr.op, c.v)
            [] fr.f = "if"    -> IF c.v.k = "bool" THEN EvalAt(c1, IF c.v.t THEN fr.a ELSE fr.b, fr.env)
                                 ELSE Stuck(c1, "if on a non-boolean")
            [] fr.f = "let"   -> EvalAt(c1, fr.n, Bind(fr.env, fr.x, c.v))
            [] fr.f = "pairB" -> EvalAt(Push(c1, [f |-> "pairA", v |-> c.v]), fr.n, fr.env)
            [] fr.f = "pairA" -> Ret(c1, VPair(c.v, fr.v))
            [] OTHER -> Stuck(c1, "bad frame")

Local(c) == IF c.m = "e" THEN Eval(c) ELSE Cont(c)

-----------------------------------------------------------------------------
(* visible primitives: the only steps that read or write shared state *)
Cell(h, l) == h[l]
Has(h, v) == v.k = "loc" /\ v.l \in DOMAIN h
Res(c, h) == [c |-> c, h |-> h]

ExecPrim(c, h, tid, arb) ==
  LET op == c.pend.op  a == c.pend.args IN
  CASE op = "AllocN" ->
         IF a[1].k = "u64" /\ FitsNat(a[1].w) /\ ToNat(a[1].w) > 0
         THEN LET fl == Flatten(a[2])
                  n == ToNat(a[1].w)
                  blk == c.na + 1
                  cells == [l \in {<<tid, blk, o>> : o \in 0..(n * Len(fl) - 1)} |-> [s |-> 0, v |-> fl[(l[3] % Len(fl)) + 1]]]
              IN Res(Ret([c EXCEPT !.na = blk], VLoc(<<tid, blk, 0>>)), IF Len(fl) = 0 THEN h ELSE cells @@ h)
         ELSE Res(Stuck(c, "AllocN with a bad count"), h)
    [] op = "StartRead" ->
         IF Has(h, a[1]) /\ h[a[1].l].s >= 0
         THEN Res(Ret(c, h[a[1].l].v), [h EXCEPT ![a[1].l].s = @ + 1])
         ELSE Res(Stuck(c, "read of an unallocated location or racing with a write"), h)
    [] op = "FinishRead" ->
         IF Has(h, a[1]) /\ h[a[1].l].s > 0 THEN Res(Ret(c, VUnit), [h EXCEPT ![a[1].l].s = @ - 1])
         ELSE Res(Stuck(c, "FinishRead without StartRead"), h)
    [] op = "Load" ->
         IF Has(h, a[1]) /\ h[a[1].l].s >= 0 THEN Res(Ret(c, h[a[1].l].v), h)
         ELSE Res(Stuck(c, "load of an unallocated location or racing with a write"), h)
    [] op = "PrepareWrite" ->
         IF Has(h, a[1]) /\ h[a[1].l].s = 0 THEN Res(Ret(c, VUnit), [h EXCEPT ![a[1].l].s = -1])
         ELSE Res(Stuck(c, "write to an unallocated location or racing with another access"), h)
    [] op = "FinishStore" ->
         IF Has(h, a[1]) /\ h[a[1].l].s = -1 THEN Res(Ret(c, VUnit), [h EXCEPT ![a[1].l] = [s |-> 0, v |-> a[2]]])
         ELSE Res(Stuck(c, "FinishStore without PrepareWrite"), h)
    [] op = "CmpXchg" ->
         IF Has(h, a[1]) /\ h[a[1].l].s = 0 /\ AllComparable(a[2]) /\ AllComparable(h[a[1].l].v)
         THEN LET old == h[a[1].l].v  ok == ValEq(old, a[2]) IN
              Res(Ret(c, VPair(old, VBool(ok))), IF ok THEN [h EXCEPT ![a[1].l].v = a[3]] ELSE h)
         ELSE Res(Stuck(c, "CmpXchg on an unallocated or concurrently accessed location"), h)
    \* ---- the disk FFI (ffi/disk.v): DiskBlocks blocks of BlockBytes bytes. The disk lives in the heap under the
    \* reserved thread path DiskTid; a byte that was never written has no cell and reads as zero. Read allocates a
    \* fresh block and copies (one atomic step, as ReadOp); Write copies BlockBytes cells from the given location
    \* (WriteOp requires the block to be readable: no concurrent writer).
    [] op = "DiskRead" ->
         IF a[1].k = "u64" /\ FitsNat(a[1].w) /\ ToNat(a[1].w) < DiskBlocks
         THEN LET ad == ToNat(a[1].w)
                  blk == c.na + 1
                  cells == [l \in {<<tid, blk, o>> : o \in 0..(BlockBytes - 1)} |->
                              [s |-> 0, v |-> IF <<DiskTid, ad, l[3]>> \in DOMAIN h THEN h[<<DiskTid, ad, l[3]>>].v ELSE VW("u8", ZeroW(1))]]
              IN Res(Ret([c EXCEPT !.na = blk], VLoc(<<tid, blk, 0>>)), cells @@ h)
         ELSE Res(Stuck(c, "disk read out of bounds"), h)
    [] op = "DiskWrite" ->
         IF a[1].k = "u64" /\ FitsNat(a[1].w) /\ ToNat(a[1].w) < DiskBlocks /\ a[2].k = "loc"
            /\ \A o \in 0..(BlockBytes - 1) : LET l == <<a[2].l[1], a[2].l[2], a[2].l[3] + o>> IN l \in DOMAIN h /\ h[l].s >= 0 /\ h[l].v.k = "u8"
         THEN LET ad == ToNat(a[1].w)
                  cells == [l \in {<<DiskTid, ad, o>> : o \in 0..(BlockBytes - 1)} |->
                              [s |-> 0, v |-> h[<<a[2].l[1], a[2].l[2], a[2].l[3] + l[3]>>].v]]
              IN Res(Ret(c, VUnit), cells @@ h)
         ELSE Res(Stuck(c, "disk write out of bounds or from a block that is not 4096 readable bytes"), h)
    [] op = "DiskSize" -> Res(Ret(c, U64(DiskBlocks)), h)
    [] op = "ArbitraryInt" -> Res(Ret(c, VW("u64", arb)), h)
    [] op = "Panic" -> Res(Stuck(c, "Panic"), h)
    [] OTHER -> Res(Stuck(c, "unknown primitive " \o op), h)

-----------------------------------------------------------------------------
(* running a thread: local steps, and in sequential mode deterministic primitives as well *)
RECURSIVE Run(_, _, _, _)
Run(c, h, tid, fuel) ==
  IF fuel = 0 \/ c.m \in {"done", "stuck"} THEN Res(c, h)
  ELSE IF c.m = "prim"
       THEN IF Mode = "conc" \/ c.pend.op \in {"fork", "ArbitraryInt"} THEN Res(c, h)
            ELSE LET r == ExecPrim(c, h, tid, <<>>) IN Run(r.c, r.h, tid, fuel - 1)
       ELSE Run(Local(c), h, tid, fuel - 1)

Root == <<>>
Live(t) == th[t].m \notin {"done", "stuck"}
Finished == th[Root].m \in {"done", "stuck"} \/ \E t \in DOMAIN th : th[t].m = "stuck"

Init == /\ test \in 1..Len(P.tests)
        /\ th = (Root :> NewCfg(P.tests[test].entry, <<>>))
        /\ heap = << >>

\* one step of thread t: run up to the next visible primitive (r), then execute it
Commit(t, r, arb) ==
  LET c == r.c IN
  IF c.m # "prim"
  THEN /\ th' = [th EXCEPT ![t] = c] /\ heap' = r.h
  ELSE IF c.pend.op = "fork"
       THEN LET child == Append(t, c.nc + 1) IN
            /\ th' = (child :> NewCfg(c.pend.n, c.pend.env)) @@ [th EXCEPT ![t] = Ret([c EXCEPT !.nc = @ + 1], VUnit)]
            /\ heap' = r.h
       ELSE LET x == ExecPrim(c, r.h, t, arb) IN
            /\ th' = [th EXCEPT ![t] = x.c] /\ heap' = x.h

\* the step of thread t (enabled while t is live)
ThreadNext(t) ==
  /\ t \in DOMAIN th /\ Live(t)
  /\ LET r == Run(th[t], heap, t, Fuel) IN
     IF r.c.m = "prim" /\ r.c.pend.op = "ArbitraryInt"
     THEN \E arb \in ArbChoices : Commit(t, r, arb)
     ELSE Commit(t, r, <<>>)

Next == /\ ~Finished
        /\ UNCHANGED test
        /\ \E t \in DOMAIN th : ThreadNext(t)

\* fairness used for the termination clause of concurrent programs: every live thread keeps taking steps
\* (weak fairness), and a compare-and-exchange that is enabled to SUCCEED infinitely often eventually
\* succeeds (strong fairness) - i.e. spin locks are fair.  Under these assumptions every behaviour of a
\* program whose Go result is schedule independent must reach Finished.
TStep(t) == ~Finished /\ UNCHANGED test /\ ThreadNext(t)
CasSucceeds(t) ==
  /\ ~Finished /\ UNCHANGED test
  /\ t \in DOMAIN th /\ Live(t)
  /\ LET r == Run(th[t], heap, t, Fuel) IN
     /\ r.c.m = "prim" /\ r.c.pend.op = "CmpXchg"
     /\ Has(r.h, r.c.pend.args[1]) /\ r.h[r.c.pend.args[1].l].s = 0
     /\ ValEq(r.h[r.c.pend.args[1].l].v, r.c.pend.args[2])
     /\ Commit(t, r, <<>>)
CONSTANT TIDs
Fairness == \A t \in TIDs : WF_vars(TStep(t)) /\ SF_vars(CasSucceeds(t))
LiveSpec == Init /\ [][Next]_vars /\ Fairness
Terminates == <>Finished

Spec == Init /\ [][Next]_vars
=============================================================================
