------------------------------- MODULE GLRun -------------------------------
(* Running tests on the GooseLang machine and observing results.            *)
(* Canon(rt, v, h) turns a result value into a canonical, pointer-free form *)
(* directed by the rich type rt the harness derives from the Go result type *)
(* (pointers are followed, slices expanded to their elements, maps to their *)
(* distinct key/value pairs); the Go side produces the same form by         *)
(* reflection, so results are compared structurally.                        *)
EXTENDS GooseLang

Bad(why) == [t |-> "bad", why |-> why]
Off(l, n) == <<l[1], l[2], l[3] + n>>

RECURSIVE RSize(_), RSizeSeq(_, _)
RSizeSeq(fs, i) == IF i > Len(fs) THEN 0 ELSE RSize(fs[i].t) + RSizeSeq(fs, i + 1)
RSize(rt) == CASE rt.t = "struct" -> RSizeSeq(rt.fs, 1)
               [] rt.t = "slice" -> 3
               [] rt.t = "unit" -> 0
               [] OTHER -> 1

\* rebuild the value of type rt stored (flattened) at location l
RECURSIVE ReadVal(_, _, _), ReadFields(_, _, _, _)
ReadFields(fs, i, l, h) == IF i > Len(fs) THEN VUnit
                           ELSE VPair(ReadVal(fs[i].t, l, h), ReadFields(fs, i + 1, Off(l, RSize(fs[i].t)), h))
ReadVal(rt, l, h) ==
  CASE rt.t = "struct" -> ReadFields(rt.fs, 1, l, h)
    [] rt.t = "unit" -> VUnit
    [] rt.t = "slice" -> IF {l, Off(l, 1), Off(l, 2)} \subseteq DOMAIN h
                         THEN VPair(VPair(h[l].v, h[Off(l, 1)].v), h[Off(l, 2)].v) ELSE [k |-> "missing"]
    [] OTHER -> IF l \in DOMAIN h THEN h[l].v ELSE [k |-> "missing"]

\* i-th component of a left-nested n-tuple
RECURSIVE Comp(_, _, _)
Comp(v, i, n) == IF n = 1 THEN v
                 ELSE IF v.k # "pair" THEN [k |-> "missing"]
                 ELSE IF i = n THEN v.b ELSE Comp(v.a, i, n - 1)

RECURSIVE Canon(_, _, _), CanonFields(_, _, _, _), CanonElems(_, _, _, _, _), CanonChain(_, _, _, _, _)
CanonFields(fs, i, v, h) ==
  IF i > Len(fs) THEN <<>>
  ELSE IF v.k # "pair" THEN <<Bad("struct value is not a tuple")>>
  ELSE <<[n |-> fs[i].n, v |-> Canon(fs[i].t, v.a, h)]>> \o CanonFields(fs, i + 1, v.b, h)
CanonElems(rt, p, i, n, h) ==
  IF i >= n THEN <<>>
  ELSE <<Canon(rt, ReadVal(rt, Off(p, i * RSize(rt)), h), h)>> \o CanonElems(rt, p, i + 1, n, h)
\* map chain: InjL default | InjR ((k, v), rest); first occurrence of a key wins
CanonChain(kt, vt, c, seen, h) ==
  IF c.k = "injl" THEN <<>>
  ELSE IF c.k # "injr" \/ c.i.k # "pair" \/ c.i.a.k # "pair" THEN <<Bad("malformed map")>>
  ELSE LET key == Canon(kt, c.i.a.a, h) IN
       IF key \in seen THEN CanonChain(kt, vt, c.i.b, seen, h)
       ELSE <<[k |-> key, v |-> Canon(vt, c.i.a.b, h)]>> \o CanonChain(kt, vt, c.i.b, seen \cup {key}, h)
Canon(rt, v, h) ==
  CASE rt.t \in {"u64", "u32", "u8"} -> IF v.k = rt.t THEN [t |-> rt.t, w |-> v.w] ELSE Bad("expected " \o rt.t \o ", got " \o v.k)
    [] rt.t = "bool" -> IF v.k = "bool" THEN [t |-> "bool", b |-> v.t] ELSE Bad("expected bool, got " \o v.k)
    [] rt.t = "str"  -> IF v.k = "str" THEN [t |-> "str", s |-> v.s] ELSE Bad("expected string, got " \o v.k)
    [] rt.t = "unit" -> IF v.k = "unit" THEN [t |-> "unit"] ELSE Bad("expected unit, got " \o v.k)
    [] rt.t = "tuple" -> [t |-> "tuple", es |-> [i \in 1..Len(rt.es) |-> Canon(rt.es[i], Comp(v, i, Len(rt.es)), h)]]
    [] rt.t = "struct" -> [t |-> "struct", fs |-> CanonFields(rt.fs, 1, v, h)]
    [] rt.t = "ptr" -> IF v.k # "loc" THEN Bad("expected pointer, got " \o v.k)
                       ELSE IF v = VNull THEN [t |-> "nil"]
                       ELSE [t |-> "ptr", v |-> Canon(rt.e, ReadVal(rt.e, v.l, h), h)]
    [] rt.t = "slice" ->
         IF v.k = "pair" /\ v.a.k = "pair" /\ v.a.a.k = "loc" /\ v.a.b.k = "u64" /\ FitsNat(v.a.b.w)
         THEN [t |-> "slice", es |-> CanonElems(rt.e, v.a.a.l, 0, ToNat(v.a.b.w), h)]
         ELSE Bad("malformed slice")
    [] rt.t = "map" ->
         IF v.k = "loc" /\ v.l \in DOMAIN h THEN [t |-> "map", kv |-> CanonChain(rt.k, rt.v, h[v.l].v, {}, h)]
         ELSE Bad("malformed map reference")
    [] rt.t = "opaque" -> [t |-> "opaque"]
    [] OTHER -> Bad("unknown result type")

Outcome ==
  LET stuckT == {t \in DOMAIN th : th[t].m = "stuck"} IN
  IF stuckT # {} THEN LET t == CHOOSE x \in stuckT : TRUE IN
       [name |-> P.tests[test].name, st |-> "stuck", why |-> th[t].why, res |-> [t |-> "none"]]
  ELSE [name |-> P.tests[test].name, st |-> "done", why |-> "",
        res |-> Canon(P.tests[test].rty, th[Root].v, heap)]

\* evaluated as an invariant: prints the outcome of every finished run
Emit == Finished => PrintT(<<"H", ToJson(Outcome)>>)
\* invariants used when a single test is re-run to obtain TLC's trace of the offending execution
NoStuck == \A t \in DOMAIN th : th[t].m # "stuck"
=============================================================================
