(* GooseLang library, transcribed from Perennial's goose_lang/lib (not available offline) into the
   concrete syntax goose itself emits, extended with the builtins of GooseLang.tla:
     Fst Snd InjL InjR Case, to_u64 to_u32 to_u8, loc_add, is_null,
     ty.size ty.isprod ty.isunit ty.fst ty.snd zero_val slice.T mapT arrayT prodT,
     str.len str.get str.ofbyte uint64_to_string,
     AllocN StartRead FinishRead PrepareWrite FinishStore Load CmpXchg ArbitraryInt Panic
   Type arguments are ordinary (first) parameters holding type descriptors. *)

Definition Continue: val := #true.
Definition Break: val := #false.
Definition Skip: val := #().
Definition Linearize: val := #().
Definition null: val := #null.

(* non-atomic memory access: two steps each, so that racing accesses are stuck states *)
Definition deref: val :=
  rec: "deref" "l" :=
    let: "v" := StartRead "l" in
    FinishRead "l";;
    "v".

Definition assign: val :=
  rec: "assign" "l" "v" :=
    PrepareWrite "l";;
    FinishStore "l" "v".

Definition ref: val :=
  rec: "ref" "v" := AllocN #1 "v".

Definition ref_to: val :=
  rec: "ref_to" "t" "v" := AllocN #1 "v".

Definition load_ty: val :=
  rec: "load_ty" "t" "l" :=
    (if: ty.isunit "t"
    then #()
    else
      (if: ty.isprod "t"
      then ("load_ty" (ty.fst "t") "l", "load_ty" (ty.snd "t") (loc_add "l" (ty.size (ty.fst "t"))))
      else deref "l")).

Definition store_ty: val :=
  rec: "store_ty" "t" "l" "v" :=
    (if: ty.isunit "t"
    then #()
    else
      (if: ty.isprod "t"
      then
        "store_ty" (ty.fst "t") "l" (Fst "v");;
        "store_ty" (ty.snd "t") (loc_add "l" (ty.size (ty.fst "t"))) (Snd "v")
      else assign "l" "v")).

(* loops *)
Definition For: val :=
  rec: "For" "cond" "body" "post" :=
    (rec: "loop" <> :=
      let: "continue" := (if: "cond" #() then "body" #() else #false) in
      (if: "continue"
      then
        "post" #();;
        "loop" #()
      else #())) #().

(* slices: ((ptr, len), cap) *)
Definition slice.ptr: val := rec: "slice.ptr" "s" := Fst (Fst "s").
Definition slice.len: val := rec: "slice.len" "s" := Snd (Fst "s").
Definition slice.cap: val := rec: "slice.cap" "s" := Snd "s".
Definition slice.nil: val := (#null, #0, #0).

Definition elem_ref: val :=
  rec: "elem_ref" "t" "p" "i" := loc_add "p" ("i" * (ty.size "t")).

Definition NewSlice: val :=
  rec: "NewSlice" "t" "sz" :=
    (if: "sz" = #0
    then slice.nil
    else
      let: "p" := AllocN "sz" (zero_val "t") in
      ("p", "sz", "sz")).

Definition NewSliceWithCap: val :=
  rec: "NewSliceWithCap" "t" "sz" "cap" :=
    (if: "cap" < "sz"
    then Panic "NewSlice with cap smaller than len"
    else
      (if: "cap" = #0
      then slice.nil
      else
        let: "p" := AllocN "cap" (zero_val "t") in
        ("p", "sz", "cap"))).

Definition SliceSingleton: val :=
  rec: "SliceSingleton" "x" :=
    let: "p" := AllocN #1 "x" in
    ("p", #1, #1).

Definition SliceRef: val :=
  rec: "SliceRef" "t" "s" "i" :=
    (if: "i" < (slice.len "s")
    then elem_ref "t" (slice.ptr "s") "i"
    else Panic "slice index out-of-bounds").

Definition SliceGet: val :=
  rec: "SliceGet" "t" "s" "i" := load_ty "t" (elem_ref "t" (slice.ptr "s") "i").

Definition SliceSet: val :=
  rec: "SliceSet" "t" "s" "i" "v" := store_ty "t" (elem_ref "t" (slice.ptr "s") "i") "v".

Definition SliceSkip: val :=
  rec: "SliceSkip" "t" "s" "n" :=
    (elem_ref "t" (slice.ptr "s") "n", (slice.len "s") - "n", (slice.cap "s") - "n").

Definition SliceTake: val :=
  rec: "SliceTake" "s" "n" :=
    (if: (slice.cap "s") < "n"
    then Panic "slice index out-of-bounds"
    else (slice.ptr "s", "n", slice.cap "s")).

Definition SliceSubslice: val :=
  rec: "SliceSubslice" "t" "s" "n1" "n2" :=
    (if: "n2" < "n1"
    then Panic "slice indices out of order"
    else
      (if: (slice.cap "s") < "n2"
      then Panic "slice index out-of-bounds"
      else (elem_ref "t" (slice.ptr "s") "n1", "n2" - "n1", (slice.cap "s") - "n1"))).

Definition MemCpy_rec: val :=
  rec: "MemCpy_rec" "t" "dst" "src" "n" :=
    (if: "n" = #0
    then #()
    else
      store_ty "t" "dst" (load_ty "t" "src");;
      "MemCpy_rec" "t" (elem_ref "t" "dst" #1) (elem_ref "t" "src" #1) ("n" - #1)).

Definition SliceAppend: val :=
  rec: "SliceAppend" "t" "s" "x" :=
    let: "sz" := (slice.len "s") + #1 in
    (if: "sz" = #0
    then Panic "slice too large"
    else
      (if: ((slice.cap "s") - (slice.len "s")) ≥ #1
      then
        store_ty "t" (elem_ref "t" (slice.ptr "s") (slice.len "s")) "x";;
        (slice.ptr "s", "sz", slice.cap "s")
      else
        let: "p" := AllocN "sz" (zero_val "t") in
        MemCpy_rec "t" "p" (slice.ptr "s") (slice.len "s");;
        store_ty "t" (elem_ref "t" "p" (slice.len "s")) "x";;
        ("p", "sz", "sz"))).

Definition SliceAppendSlice: val :=
  rec: "SliceAppendSlice" "t" "s1" "s2" :=
    let: "sz" := (slice.len "s1") + (slice.len "s2") in
    (if: "sz" < (slice.len "s1")
    then Panic "slice too large"
    else
      (if: ((slice.cap "s1") - (slice.len "s1")) ≥ (slice.len "s2")
      then
        MemCpy_rec "t" (elem_ref "t" (slice.ptr "s1") (slice.len "s1")) (slice.ptr "s2") (slice.len "s2");;
        (slice.ptr "s1", "sz", slice.cap "s1")
      else
        (if: "sz" = #0
        then slice.nil
        else
          let: "p" := AllocN "sz" (zero_val "t") in
          MemCpy_rec "t" "p" (slice.ptr "s1") (slice.len "s1");;
          MemCpy_rec "t" (elem_ref "t" "p" (slice.len "s1")) (slice.ptr "s2") (slice.len "s2");;
          ("p", "sz", "sz")))).

Definition SliceCopy: val :=
  rec: "SliceCopy" "t" "dst" "src" :=
    let: "n" := (if: (slice.len "dst") < (slice.len "src") then slice.len "dst" else slice.len "src") in
    MemCpy_rec "t" (slice.ptr "dst") (slice.ptr "src") "n";;
    "n".

(* ForSlice t k v s body is lowered to ForSlice.impl t s (λ: k v, body) *)
Definition ForSlice.impl: val :=
  rec: "ForSlice.impl" "t" "s" "f" :=
    let: "len" := slice.len "s" in
    (rec: "loop" "i" :=
      (if: "i" < "len"
      then
        "f" "i" (SliceGet "t" "s" "i");;
        "loop" ("i" + #1)
      else #())) #0.

(* maps: a reference to  InjL default | InjR ((key, value), rest)  (most recent binding first) *)
Definition NewMap: val :=
  rec: "NewMap" "kt" "vt" <> := AllocN #1 (InjL (zero_val "vt")).

Definition map.get_chain: val :=
  rec: "map.get_chain" "c" "k" :=
    Case "c" (λ: "d", ("d", #false))
             (λ: "kvt",
               (if: (Fst (Fst "kvt")) = "k"
               then (Snd (Fst "kvt"), #true)
               else "map.get_chain" (Snd "kvt") "k")).

Definition MapGet: val :=
  rec: "MapGet" "m" "k" := map.get_chain (deref "m") "k".

Definition MapInsert: val :=
  rec: "MapInsert" "m" "k" "v" := assign "m" (InjR (("k", "v"), deref "m")).

Definition map.del_chain: val :=
  rec: "map.del_chain" "c" "k" :=
    Case "c" (λ: "d", InjL "d")
             (λ: "kvt",
               (if: (Fst (Fst "kvt")) = "k"
               then "map.del_chain" (Snd "kvt") "k"
               else InjR (Fst "kvt", "map.del_chain" (Snd "kvt") "k"))).

Definition MapDelete: val :=
  rec: "MapDelete" "m" "k" := assign "m" (map.del_chain (deref "m") "k").

Definition map.len_chain: val :=
  rec: "map.len_chain" "c" :=
    Case "c" (λ: "d", #0)
             (λ: "kvt",
               (if: Snd (map.get_chain (Snd "kvt") (Fst (Fst "kvt")))
               then "map.len_chain" (Snd "kvt")
               else ("map.len_chain" (Snd "kvt")) + #1)).

Definition MapLen: val :=
  rec: "MapLen" "m" := map.len_chain (deref "m").

Definition map.default: val :=
  rec: "map.default" "c" :=
    Case "c" (λ: "d", "d") (λ: "kvt", "map.default" (Snd "kvt")).

Definition MapClear: val :=
  rec: "MapClear" "m" := assign "m" (InjL (map.default (deref "m"))).

Definition map.seen: val :=
  rec: "map.seen" "l" "k" :=
    Case "l" (λ: "u", #false)
             (λ: "kt", (if: (Fst "kt") = "k" then #true else "map.seen" (Snd "kt") "k")).

Definition map.iter_chain: val :=
  rec: "map.iter_chain" "c" "seen" "f" :=
    Case "c" (λ: "d", #())
             (λ: "kvt",
               let: "k" := Fst (Fst "kvt") in
               (if: map.seen "seen" "k"
               then #()
               else "f" "k" (Snd (Fst "kvt")));;
               "map.iter_chain" (Snd "kvt") (InjR ("k", "seen")) "f").

Definition MapIter: val :=
  rec: "MapIter" "m" "f" :=
    let: "c" := StartRead "m" in
    map.iter_chain "c" (InjL #()) "f";;
    FinishRead "m".

(* strings *)
Definition StringLength: val :=
  rec: "StringLength" "s" := str.len "s".

Definition StringToBytes: val :=
  rec: "StringToBytes" "s" :=
    let: "n" := str.len "s" in
    (if: "n" = #0
    then slice.nil
    else
      let: "p" := AllocN "n" #(U8 0) in
      (rec: "fill" "i" :=
        (if: "i" < "n"
        then
          assign (loc_add "p" "i") (str.get "s" "i");;
          "fill" ("i" + #1)
        else #())) #0;;
      ("p", "n", "n")).

Definition StringFromBytes: val :=
  rec: "StringFromBytes" "b" :=
    let: "n" := slice.len "b" in
    (rec: "go" "i" :=
      (if: "i" < "n"
      then (str.ofbyte (deref (loc_add (slice.ptr "b") "i"))) + ("go" ("i" + #1))
      else #(str""))) #0.

(* integer encoding: byte-wise, least significant byte first *)
Definition UInt64Put: val :=
  rec: "UInt64Put" "p" "n" :=
    (rec: "put" "i" :=
      (if: "i" < #8
      then
        assign (loc_add (slice.ptr "p") "i") (to_u8 ("n" ≫ ("i" * #8)));;
        "put" ("i" + #1)
      else #())) #0.

Definition UInt64Get: val :=
  rec: "UInt64Get" "p" :=
    (rec: "get" "i" :=
      (if: "i" < #8
      then ((to_u64 (deref (loc_add (slice.ptr "p") "i"))) ≪ ("i" * #8)) `or` ("get" ("i" + #1))
      else #0)) #0.

Definition UInt32Put: val :=
  rec: "UInt32Put" "p" "n" :=
    (rec: "put" "i" :=
      (if: "i" < #4
      then
        assign (loc_add (slice.ptr "p") "i") (to_u8 ("n" ≫ (to_u32 ("i" * #8))));;
        "put" ("i" + #1)
      else #())) #0.

Definition UInt32Get: val :=
  rec: "UInt32Get" "p" :=
    (rec: "get" "i" :=
      (if: "i" < #4
      then ((to_u32 (deref (loc_add (slice.ptr "p") "i"))) ≪ (to_u32 ("i" * #8))) `or` ("get" ("i" + #1))
      else #(U32 0))) #0.

(* synchronisation *)
Definition lock.new: val :=
  rec: "lock.new" <> := AllocN #1 #false.

Definition lock.acquire: val :=
  rec: "lock.acquire" "l" :=
    (if: Snd (CmpXchg "l" #false #true)
    then #()
    else "lock.acquire" "l").

Definition lock.release: val :=
  rec: "lock.release" "l" :=
    CmpXchg "l" #true #false;;
    #().

Definition lock.newCond: val :=
  rec: "lock.newCond" "l" := AllocN #1 "l".

Definition lock.condSignal: val :=
  rec: "lock.condSignal" "c" := #().

Definition lock.condBroadcast: val :=
  rec: "lock.condBroadcast" "c" := #().

Definition lock.condWait: val :=
  rec: "lock.condWait" "c" :=
    let: "l" := Load "c" in
    lock.release "l";;
    lock.acquire "l".

Definition lock.condWaitTimeout: val :=
  rec: "lock.condWaitTimeout" "c" "t" := lock.condWait "c".

Definition waitgroup.New: val :=
  rec: "waitgroup.New" <> := (lock.new #(), AllocN #1 #0).

Definition waitgroup.Add: val :=
  rec: "waitgroup.Add" "wg" "d" :=
    lock.acquire (Fst "wg");;
    assign (Snd "wg") ((deref (Snd "wg")) + "d");;
    lock.release (Fst "wg").

Definition waitgroup.Done: val :=
  rec: "waitgroup.Done" "wg" :=
    lock.acquire (Fst "wg");;
    assign (Snd "wg") ((deref (Snd "wg")) - #1);;
    lock.release (Fst "wg").

Definition waitgroup.Wait: val :=
  rec: "waitgroup.Wait" "wg" :=
    lock.acquire (Fst "wg");;
    let: "n" := deref (Snd "wg") in
    lock.release (Fst "wg");;
    (if: "n" = #0
    then #()
    else "waitgroup.Wait" "wg").

(* control, time, randomness *)
Definition control.impl.Assume: val :=
  rec: "control.impl.Assume" "c" :=
    (if: "c"
    then #()
    else (rec: "loop" <> := "loop" #()) #()).

Definition control.impl.Assert: val :=
  rec: "control.impl.Assert" "c" :=
    (if: "c"
    then #()
    else Panic "assertion failed").

Definition time.Sleep: val :=
  rec: "time.Sleep" "d" := #().

Definition time.TimeNow: val :=
  rec: "time.TimeNow" <> := ArbitraryInt #().

Definition rand.RandomUint64: val :=
  rec: "rand.RandomUint64" <> := ArbitraryInt #().

(* the disk FFI (Perennial goose_lang/ffi/disk.v): blocks of 4096 bytes; Read returns a fresh slice *)
Definition disk.BlockSize: val := #4096.

Definition disk.Get: val :=
  rec: "disk.Get" <> := #().

Definition disk.Read: val :=
  rec: "disk.Read" "a" :=
    let: "p" := DiskRead "a" in
    ("p", #4096, #4096).

Definition disk.ReadTo: val :=
  rec: "disk.ReadTo" "a" "b" :=
    let: "p" := DiskRead "a" in
    MemCpy_rec byteT (slice.ptr "b") "p" #4096.

Definition disk.Write: val :=
  rec: "disk.Write" "a" "b" :=
    DiskWrite "a" (slice.ptr "b").

Definition disk.Size: val :=
  rec: "disk.Size" <> := DiskSize #().

Definition disk.Barrier: val :=
  rec: "disk.Barrier" <> := #().
