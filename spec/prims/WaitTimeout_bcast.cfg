CONSTANTS
  NCalls = 2
  Sig = {"s1", "s2"}
  UseBroadcast = TRUE
  EnqueueBeforeUnlock = TRUE
SPECIFICATION Spec
INVARIANTS HeldAtReturn NoBadUnlock CallerOwns PromptAfterSignal
PROPERTIES AllReturn
CHECK_DEADLOCK FALSE
