CONSTANTS
  NCalls = 2
  Sig = {"s1", "s2"}
  UseBroadcast = FALSE
  EnqueueBeforeUnlock = TRUE
SPECIFICATION Spec
INVARIANTS HeldAtReturn NoBadUnlock CallerOwns
PROPERTIES AllReturn
CHECK_DEADLOCK FALSE
