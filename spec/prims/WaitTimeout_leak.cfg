CONSTANTS
  NCalls = 2
  Sig = {"s1", "s2"}
  UseBroadcast = FALSE
  EnqueueBeforeUnlock = TRUE
SPECIFICATION Spec
INVARIANTS PromptAfterSignal
CHECK_DEADLOCK FALSE
