---- MODULE MCPrims ----
EXTENDS Prims
CONSTANT Rand64, Rand32
Bnd == {1, 127, 128, 255}
One(n, i, x, fill) == [k \in 1..n |-> IF k = i THEN x ELSE fill]
B64 == {One(8, 1, 0, 0), One(8, 1, 255, 255)}
       \cup {One(8, i, x, 0) : i \in 1..8, x \in Bnd}
       \cup {One(8, i, x, 255) : i \in 1..8, x \in {0, 127, 128, 254}}
B32 == {One(4, 1, 0, 0), One(4, 1, 255, 255)}
       \cup {One(4, i, x, 0) : i \in 1..4, x \in Bnd}
       \cup {One(4, i, x, 255) : i \in 1..4, x \in {0, 127, 128, 254}}
MCWords64 == B64 \cup Rand64
MCWords32 == B32 \cup Rand32
====
