------------------------- MODULE WaitTimeoutTrace -------------------------
(* Code -> spec for the timed clause of C16: runs of the real               *)
(* machine.WaitTimeout, logged with monotonic times in milliseconds.       *)
(*   reset                                                                 *)
(*   call(t, timeout)          the caller (holding L) calls WaitTimeout    *)
(*   signal(t, kind)           a signaller finished L.Lock(); Signal|Broadcast; L.Unlock() at t *)
(*   return(t, held)           the call returned; held = 1 iff L was still locked 20 ms later  *)
(* Accepted iff every return holds the lock, comes no later than           *)
(* call.t + timeout + Delta, and - when a signal was issued during the     *)
(* wait - no later than signal.t + Delta.                                  *)
EXTENDS Integers, Sequences, TLC, Json
CONSTANT Delta
Trace == ndJsonDeserialize("trace.ndjson")
VARIABLES st, l      \* st: [phase, t0, timeout, sig]
E == Trace[l]
Is(ev) == l <= Len(Trace) /\ E.ev = ev
Idle == [phase |-> "idle", t0 |-> 0, timeout |-> 0, sig |-> -1]
Init == TLCSet(1, 0) /\ st = Idle /\ l = 1
Reset == Is("reset") /\ st' = Idle /\ l' = l + 1
Call == /\ Is("call") /\ st.phase = "idle"
        /\ st' = [phase |-> "wait", t0 |-> E.t, timeout |-> E.timeout, sig |-> -1] /\ l' = l + 1
\* signals outside a wait are irrelevant (stuttering on st); the first one inside the wait is remembered
Signal == /\ Is("signal")
          /\ st' = IF st.phase = "wait" /\ st.sig = -1 /\ E.t >= st.t0 THEN [st EXCEPT !.sig = E.t] ELSE st
          /\ l' = l + 1
Min(a, b) == IF a < b THEN a ELSE b
Deadline == IF st.sig = -1 THEN st.t0 + st.timeout + Delta
            ELSE Min(st.t0 + st.timeout, st.sig) + Delta
Return == /\ Is("return") /\ st.phase = "wait"
          /\ E.held = 1
          /\ E.t <= Deadline
          /\ st' = Idle /\ l' = l + 1
Next == Reset \/ Call \/ Signal \/ Return
HighWater == TLCSet(1, IF l > TLCGet(1) THEN l ELSE TLCGet(1))
Accepted == /\ PrintT(<<"H", ToString(TLCGet(1))>>)
            /\ TLCGet(1) = Len(Trace) + 1
=============================================================================
