CONSTANTS
  NCalls = 1
  Sig = {"s1", "s2"}
  UseBroadcast = FALSE
  EnqueueBeforeUnlock = TRUE
SPECIFICATION Spec
INVARIANTS HeldAtReturn NoBadUnlock CallerOwns PromptAfterSignal
PROPERTIES AllReturn
CHECK_DEADLOCK FALSE
