------------------------------ MODULE Prims ------------------------------
(* Contracts of the machine encoding/formatting primitives (C15, C16).    *)
(* TLC integers are 32 bit, so a 64/32-bit word is its sequence of byte    *)
(* limbs, least significant first - which IS its little-endian encoding.   *)
(* The harness rebuilds numbers from limbs with sum(b[i] * 256^i) (no      *)
(* encoder involved) and compares every byte the real functions produce.   *)
EXTENDS Integers, Sequences, FiniteSets, TLC, Json

Byte == 0..255

\* ---- UInt64Put / UInt32Put / Get -----------------------------------------
\* Put writes exactly the Len(w) first bytes; too-short buffers are refused untouched
PutRefused(buf, w) == Len(buf) < Len(w)
Put(buf, w) == IF PutRefused(buf, w) THEN buf
               ELSE [i \in 1..Len(buf) |-> IF i <= Len(w) THEN w[i] ELSE buf[i]]
GetRefused(buf, n) == Len(buf) < n
Get(buf, n) == SubSeq(buf, 1, n)

\* The buffer a caller passes is in general a WINDOW of a larger array: mem[Pre+1 .. Pre+len], followed by `slack`
\* bytes of spare capacity that belong to somebody else (a field carved out of a block). "Every other byte" of the
\* contract includes those neighbours, and "too short" is about the window's length, not its capacity.
Pre == 3
Window(mem, len) == SubSeq(mem, Pre + 1, Pre + len)
PutMem(mem, len, w) == IF len < Len(w) THEN mem
                       ELSE [i \in 1..Len(mem) |-> IF i > Pre /\ i <= Pre + Len(w) THEN w[i - Pre] ELSE mem[i]]

\* ---- UInt64ToString: canonical decimal of a limb word ----------------------
\* school division of the limb sequence by 10, most significant limb first
RECURSIVE DivStep(_, _, _)
DivStep(w, i, rem) ==        \* returns <<quotient limbs (as function on 1..i), remainder>>
  IF i = 0 THEN <<[k \in {} |-> 0], rem>>
  ELSE LET cur == rem * 256 + w[i]
           lower == DivStep(w, i - 1, cur % 10)
       IN <<[k \in 1..i |-> IF k = i THEN cur \div 10 ELSE lower[1][k]], lower[2]>>
DivMod10(w) == DivStep(w, Len(w), 0)
IsZero(w) == \A i \in 1..Len(w) : w[i] = 0
RECURSIVE DecRev(_)
DecRev(w) == IF IsZero(w) THEN <<>> ELSE LET dm == DivMod10(w) IN <<dm[2]>> \o DecRev(dm[1])
Reverse(s) == [i \in 1..Len(s) |-> s[Len(s) + 1 - i]]
Dec(w) == IF IsZero(w) THEN <<0>> ELSE Reverse(DecRev(w))     \* digits, most significant first

\* ---- case enumeration: every case is an initial state; Emit prints it -------
CONSTANTS Slacks,    \* spare capacity behind the buffer (bytes of the backing array beyond its length)
          Lens,      \* buffer lengths
          Priors,    \* prior fill patterns: "zero" | "ff" | "pat"
          Words64, Words32   \* sets of limb sequences

VARIABLES cs
Fill(p, n) == [i \in 1..n |-> CASE p = "zero" -> 0 [] p = "ff" -> 255 [] OTHER -> (i * 37 + 11) % 256]

Cases == [len : Lens, slack : Slacks, prior : Priors, w : Words64 \cup Words32]
Init == cs \in Cases
Next == UNCHANGED cs

Expected(c) ==
  LET mem == Fill(c.prior, Pre + c.len + c.slack)
      buf == Window(mem, c.len) IN
  [len |-> c.len, slack |-> c.slack, prior |-> c.prior, w |-> c.w,
   refused |-> IF PutRefused(buf, c.w) THEN 1 ELSE 0,
   after |-> PutMem(mem, c.len, c.w),      \* the whole backing array
   dec |-> Dec(c.w)]

\* properties of the contract itself, checked on every case
RoundTrip == LET buf == Fill(cs.prior, cs.len) IN
             ~PutRefused(buf, cs.w) => Get(Put(buf, cs.w), Len(cs.w)) = cs.w
Framed    == LET buf == Fill(cs.prior, cs.len) b2 == Put(buf, cs.w) IN
             /\ Len(b2) = Len(buf)
             /\ \A i \in 1..Len(buf) : i > Len(cs.w) => b2[i] = buf[i]
RefusedUntouched == LET buf == Fill(cs.prior, cs.len) IN PutRefused(buf, cs.w) => Put(buf, cs.w) = buf
\* the window view and the whole-array view agree, and nothing outside the window ever changes
WindowFramed == LET mem == Fill(cs.prior, Pre + cs.len + cs.slack) m2 == PutMem(mem, cs.len, cs.w) IN
             /\ Window(m2, cs.len) = Put(Window(mem, cs.len), cs.w)
             /\ \A i \in 1..Len(mem) : (i <= Pre \/ i > Pre + cs.len) => m2[i] = mem[i]
DecCanonical == LET d == Dec(cs.w) IN
             /\ \A i \in 1..Len(d) : d[i] \in 0..9
             /\ (Len(d) > 1 => d[1] # 0)
Emit == PrintT(<<"H", ToJson(Expected(cs))>>)
=============================================================================
