CONSTANT Delta = 150
INIT Init
NEXT Next
CONSTRAINT HighWater
POSTCONDITION Accepted
CHECK_DEADLOCK FALSE
