CONSTANTS
  NCalls = 1
  Sig = {"s1", "s2"}
  UseBroadcast = FALSE
  EnqueueBeforeUnlock = FALSE
SPECIFICATION Spec
INVARIANTS PromptAfterSignal
CHECK_DEADLOCK FALSE
