--------------------------- MODULE WaitTimeout ---------------------------
(* L2 specification of machine.WaitTimeout (= primitive.WaitTimeout): C16. *)
(*   caller (holds L):  spawn helper; select { timer | done }; L.Lock()    *)
(*   helper:            cond.Wait() = enqueue; L.Unlock(); park; L.Lock()  *)
(*                      then L.Unlock(); close(done)                       *)
(* plus a timer that may fire at any step after the call, and signallers   *)
(* doing L.Lock(); Signal | Broadcast; L.Unlock().  The caller performs    *)
(* NCalls calls in sequence, so helpers leaked by an earlier timed-out     *)
(* call are still parked on the condition variable during the next call.   *)
(* L is a Go mutex: no owner check; "holder" is ghost information.         *)
EXTENDS Integers, Sequences, FiniteSets, TLC

CONSTANTS NCalls, Sig, UseBroadcast, EnqueueBeforeUnlock
\* EnqueueBeforeUnlock = TRUE is the code as written (sync.Cond.Wait adds the
\* waiter to the notify list before unlocking); FALSE models "unlock first".

VARIABLES L,        \* "free" or the ghost holder
          q,        \* notify list: sequence of helper ids (call numbers)
          cpc, call, timer, done, hpc, woken, spc,
          sigSeen   \* call numbers during whose wait (caller in select) a Signal/Broadcast happened

vars == <<L, q, cpc, call, timer, done, hpc, woken, spc, sigSeen>>
Calls == 1..NCalls

Init == /\ L = "caller" /\ q = <<>> /\ cpc = "idle" /\ call = 0 /\ timer = FALSE
        /\ done = [i \in Calls |-> FALSE] /\ hpc = [i \in Calls |-> "none"]
        /\ woken = {} /\ spc = [s \in Sig |-> "idle"] /\ sigSeen = {}

\* ---- caller ----
CallWT == /\ cpc = "idle" /\ call < NCalls /\ L = "caller"
          /\ call' = call + 1 /\ cpc' = "select" /\ timer' = FALSE
          /\ hpc' = [hpc EXCEPT ![call + 1] = IF EnqueueBeforeUnlock THEN "enq" ELSE "unl"]
          /\ UNCHANGED <<L, q, done, woken, spc, sigSeen>>
TimerFires == /\ cpc = "select" /\ ~timer /\ timer' = TRUE
              /\ UNCHANGED <<L, q, cpc, call, done, hpc, woken, spc, sigSeen>>
Select == /\ cpc = "select" /\ (timer \/ done[call]) /\ cpc' = "relock"
          /\ UNCHANGED <<L, q, call, timer, done, hpc, woken, spc, sigSeen>>
Relock == /\ cpc = "relock" /\ L = "free" /\ L' = "caller" /\ cpc' = "ret"
          /\ UNCHANGED <<q, call, timer, done, hpc, woken, spc, sigSeen>>
\* the caller's own critical section after the call; it may Unlock/Lock around the next call
Return == /\ cpc = "ret" /\ cpc' = "idle"
          /\ UNCHANGED <<L, q, call, timer, done, hpc, woken, spc, sigSeen>>
\* between calls the caller releases and re-acquires its lock (lets leaked helpers and signallers run)
CallerYield == /\ cpc = "idle" /\ L = "caller" /\ L' = "free" /\ cpc' = "outside"
               /\ UNCHANGED <<q, call, timer, done, hpc, woken, spc, sigSeen>>
CallerBack == /\ cpc = "outside" /\ L = "free" /\ L' = "caller" /\ cpc' = "idle"
              /\ UNCHANGED <<q, call, timer, done, hpc, woken, spc, sigSeen>>

\* ---- helper i ----
HEnq(i) == /\ hpc[i] = "enq" /\ q' = Append(q, i)
           /\ hpc' = [hpc EXCEPT ![i] = IF EnqueueBeforeUnlock THEN "unl" ELSE "park"]
           /\ UNCHANGED <<L, cpc, call, timer, done, woken, spc, sigSeen>>
HUnlock(i) == /\ hpc[i] = "unl" /\ L # "free"            \* unlocking a free mutex is a Go fatal error
              /\ L' = "free"
              /\ hpc' = [hpc EXCEPT ![i] = IF EnqueueBeforeUnlock THEN "park" ELSE "enq"]
              /\ UNCHANGED <<q, cpc, call, timer, done, woken, spc, sigSeen>>
HWake(i) == /\ hpc[i] = "park" /\ i \in woken
            /\ hpc' = [hpc EXCEPT ![i] = "lock"] /\ woken' = woken \ {i}
            /\ UNCHANGED <<L, q, cpc, call, timer, done, spc, sigSeen>>
HLock(i) == /\ hpc[i] = "lock" /\ L = "free" /\ L' = "helper"
            /\ hpc' = [hpc EXCEPT ![i] = "unl2"]
            /\ UNCHANGED <<q, cpc, call, timer, done, woken, spc, sigSeen>>
HUnlock2(i) == /\ hpc[i] = "unl2" /\ L' = "free"
               /\ hpc' = [hpc EXCEPT ![i] = "close"]
               /\ UNCHANGED <<q, cpc, call, timer, done, woken, spc, sigSeen>>
HClose(i) == /\ hpc[i] = "close" /\ done' = [done EXCEPT ![i] = TRUE]
             /\ hpc' = [hpc EXCEPT ![i] = "end"]
             /\ UNCHANGED <<L, q, cpc, call, timer, woken, spc, sigSeen>>

\* ---- signaller s (one signal each) ----
SLock(s) == /\ spc[s] = "idle" /\ spc' = [spc EXCEPT ![s] = "lock"]
            /\ UNCHANGED <<L, q, cpc, call, timer, done, hpc, woken, sigSeen>>
SAcquire(s) == /\ spc[s] = "lock" /\ L = "free" /\ L' = "sig" /\ spc' = [spc EXCEPT ![s] = "sig"]
               /\ UNCHANGED <<q, cpc, call, timer, done, hpc, woken, sigSeen>>
InQ(i) == \E k \in 1..Len(q) : q[k] = i
SSignal(s) == /\ spc[s] = "sig"
              /\ IF UseBroadcast
                 THEN woken' = woken \cup {q[k] : k \in 1..Len(q)} /\ q' = <<>>
                 ELSE IF q = <<>> THEN UNCHANGED <<woken, q>>
                      ELSE woken' = woken \cup {Head(q)} /\ q' = Tail(q)
              /\ sigSeen' = IF call > 0 /\ cpc = "select" THEN sigSeen \cup {call} ELSE sigSeen
              /\ spc' = [spc EXCEPT ![s] = "unl"]
              /\ UNCHANGED <<L, cpc, call, timer, done, hpc>>
SUnlock(s) == /\ spc[s] = "unl" /\ L' = "free" /\ spc' = [spc EXCEPT ![s] = "end"]
              /\ UNCHANGED <<q, cpc, call, timer, done, hpc, woken, sigSeen>>

Next == \/ CallWT \/ TimerFires \/ Select \/ Relock \/ Return \/ CallerYield \/ CallerBack
        \/ \E i \in Calls : HEnq(i) \/ HUnlock(i) \/ HWake(i) \/ HLock(i) \/ HUnlock2(i) \/ HClose(i)
        \/ \E s \in Sig : SLock(s) \/ SAcquire(s) \/ SSignal(s) \/ SUnlock(s)
Fair == WF_vars(Next) /\ SF_vars(CallWT) /\ WF_vars(TimerFires) /\ WF_vars(Select) /\ WF_vars(Relock) /\ WF_vars(Return)
        /\ \A i \in Calls : WF_vars(HEnq(i)) /\ WF_vars(HUnlock(i)) /\ WF_vars(HWake(i)) /\ SF_vars(HLock(i)) /\ WF_vars(HUnlock2(i)) /\ WF_vars(HClose(i))
        /\ \A s \in Sig : WF_vars(SSignal(s)) /\ WF_vars(SUnlock(s))
Spec == Init /\ [][Next]_vars /\ Fair

\* ---- properties ----
\* returns with the caller's lock held
HeldAtReturn == cpc = "ret" => L = "caller"
\* nobody unlocks a free mutex (HUnlock is the only unlock whose holder is somebody else)
NoBadUnlock == \A i \in Calls : hpc[i] = "unl" => L # "free"
\* mutual exclusion of the ghost holders: the signaller / helper never hold L while the caller thinks it does
CallerOwns == cpc \in {"idle", "ret"} => L = "caller"
\* a signal issued (under L) while the caller is waiting in the CURRENT call wakes
\* that call's helper (so the caller returns without waiting for the timer)
PromptAfterSignal == \A c \in sigSeen : c \in woken \/ hpc[c] \notin {"enq", "unl", "park"}
\* every call returns (timer eventually fires): no deadlock, checked as a liveness property
AllReturn == <>(call = NCalls /\ cpc \in {"idle", "outside"})
=============================================================================
