CONSTANTS
  N = 3
  Val = {0, 1, 2, 3}
  NBuf = 3
  Probe <- MCProbe
  D = 30
INIT Init
NEXT Next
INVARIANTS EmitHist
