---- MODULE MCDisk ----
EXTENDS Disk
MCProbe == 0..(N+1) \cup {-1}
====
