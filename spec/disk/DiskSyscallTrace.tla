------------------------- MODULE DiskSyscallTrace -------------------------
(* Code -> spec at system-call level (C11): the strace log of a child       *)
(* process driving FileDisk, delimited by operation markers.                *)
(*   op(k, name, a)     marker written by the driver before the API call    *)
(*   sys(name, fd, len, off, ret)   a system call of the child              *)
(*   ret(k)             the API call returned normally                      *)
(* Accepted iff, before an operation returns normally,                      *)
(*   write a   : one pwrite64 of 4096 bytes at a*4096 succeeded in full,    *)
(*   read a    : one pread64 of 4096 bytes at a*4096 succeeded,             *)
(*   barrier   : an fsync of the disk's descriptor succeeded,               *)
(* and no system call of the operation failed (a failed call must end the   *)
(* operation by panic, i.e. without a ret event).                           *)
EXTENDS Integers, Sequences, TLC, Json
Trace == ndJsonDeserialize("trace.ndjson")
VARIABLES cur, l     \* cur: [name, a, good, bad, fd]
E == Trace[l]
Is(ev) == l <= Len(Trace) /\ E.ev = ev
Idle == [name |-> "none", a |-> 0, good |-> 0, bad |-> 0]
Init == TLCSet(1, 0) /\ cur = Idle /\ l = 1
Reset == Is("reset") /\ cur' = Idle /\ l' = l + 1
OpEv == /\ Is("op") /\ cur' = [name |-> E.name, a |-> E.a, good |-> 0, bad |-> 0] /\ l' = l + 1
Needed(c, e) ==
  CASE c.name = "write"   -> e.name = "pwrite64" /\ e.len = 4096 /\ e.off = c.a * 4096 /\ e.ret = 4096
    [] c.name = "read"    -> e.name = "pread64" /\ e.len = 4096 /\ e.off = c.a * 4096 /\ e.ret >= 0
    [] c.name = "barrier" -> e.name = "fsync" /\ e.ret = 0
    [] OTHER -> FALSE
Relevant(e) == e.name \in {"pwrite64", "pread64", "fsync", "ftruncate"}
Sys == /\ Is("sys")
       /\ cur' = IF ~Relevant(E) THEN cur
                 ELSE IF E.ret < 0 THEN [cur EXCEPT !.bad = @ + 1]
                 ELSE IF Needed(cur, E) THEN [cur EXCEPT !.good = @ + 1] ELSE cur
       /\ l' = l + 1
\* (NewFileDisk reports a failed call by returning an error: ret with r = -1)
Ret == /\ Is("ret")
       /\ (cur.bad = 0 \/ (cur.name = "open" /\ E.r = -1))
       /\ (cur.name \in {"write", "read", "barrier"} => cur.good >= 1)
       /\ (cur.name \in {"write", "read"} => cur.good = 1)
       /\ cur' = Idle /\ l' = l + 1
Next == Reset \/ OpEv \/ Sys \/ Ret
HighWater == TLCSet(1, IF l > TLCGet(1) THEN l ELSE TLCGet(1))
Accepted == /\ PrintT(<<"H", ToString(TLCGet(1))>>)
            /\ TLCGet(1) = Len(Trace) + 1
=============================================================================
