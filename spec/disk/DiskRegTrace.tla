--------------------------- MODULE DiskRegTrace ---------------------------
(* Code -> spec, concurrent histories of the file-backed disk (C10).       *)
(* The property claims less than linearizability here: operations on       *)
(* distinct addresses never interfere, and operations ordered in real time *)
(* on one address are observed in that order.  The driver has ONE writer   *)
(* per address (so the writes of an address are totally ordered) and any   *)
(* number of readers.  A read may return                                   *)
(*   - the value of the last write that completed before the read began,   *)
(*   - the value of any write that overlaps the read,                      *)
(*   - TORN only if some write to that address overlaps the read.          *)
(* Validation is deterministic (no search).                                *)
EXTENDS DiskSem, TLC, Json, FiniteSets

Trace == ndJsonDeserialize("trace.ndjson")

VARIABLES cur,      \* [Addr -> value of the last completed write]
          infl,     \* [Addr -> value being written, or -100]
          rd,       \* pending reads:  client -> [a, cands, over]
          wr,       \* pending writes: client -> [a, v]
          n, l
vars == <<cur, infl, rd, wr, n, l>>
NoneV == -100

E == Trace[l]
Is(ev) == l <= Len(Trace) /\ E.ev = ev
Put(f, k, v) == [x \in DOMAIN f \cup {k} |-> IF x = k THEN v ELSE f[x]]
Del(f, k)    == [x \in DOMAIN f \ {k} |-> f[x]]

Init == TLCSet(1, 0) /\ cur = <<>> /\ infl = <<>> /\ rd = <<>> /\ wr = <<>> /\ n = 0 /\ l = 1

Reset == /\ Is("reset") /\ DOMAIN rd = {} /\ DOMAIN wr = {}
         /\ cur' = ZeroDisk(E.n) /\ infl' = [a \in 0..(E.n-1) |-> NoneV]
         /\ rd' = <<>> /\ wr' = <<>> /\ n' = E.n /\ l' = l + 1

InvWrite == /\ Is("inv") /\ E.op = "write" /\ E.a \in DOMAIN cur
            /\ infl[E.a] = NoneV                       \* single writer per address (driver discipline)
            /\ infl' = [infl EXCEPT ![E.a] = E.v]
            /\ wr' = Put(wr, E.c, [a |-> E.a, v |-> E.v])
            /\ rd' = [c \in DOMAIN rd |-> IF rd[c].a = E.a
                                           THEN [rd[c] EXCEPT !.cands = @ \cup {E.v}, !.over = TRUE] ELSE rd[c]]
            /\ l' = l + 1 /\ UNCHANGED <<cur, n>>
ResWrite == /\ Is("res") /\ E.c \in DOMAIN wr /\ wr[E.c].a # -1 /\ E.r = OK
            /\ cur' = [cur EXCEPT ![wr[E.c].a] = wr[E.c].v]
            /\ infl' = [infl EXCEPT ![wr[E.c].a] = NoneV]
            /\ wr' = Del(wr, E.c)
            /\ l' = l + 1 /\ UNCHANGED <<rd, n>>
InvRead == /\ Is("inv") /\ E.op = "read" /\ E.a \in DOMAIN cur
           /\ rd' = Put(rd, E.c, [a |-> E.a,
                                   cands |-> {cur[E.a]} \cup (IF infl[E.a] = NoneV THEN {} ELSE {infl[E.a]}),
                                   over |-> infl[E.a] # NoneV])
           /\ l' = l + 1 /\ UNCHANGED <<cur, infl, wr, n>>
ResRead == /\ Is("res") /\ E.c \in DOMAIN rd
           /\ (E.r \in rd[E.c].cands \/ (rd[E.c].over /\ E.r = TORN))
           /\ rd' = Del(rd, E.c)
           /\ l' = l + 1 /\ UNCHANGED <<cur, infl, wr, n>>
\* out-of-range operations and Size are refused / answered independently of everything else
InvOther == /\ Is("inv") /\ (E.op = "size" \/ E.a \notin DOMAIN cur)
            /\ wr' = Put(wr, E.c, [a |-> -1, v |-> IF E.op = "size" THEN n ELSE PANIC])
            /\ l' = l + 1 /\ UNCHANGED <<cur, infl, rd, n>>
ResOther == /\ Is("res") /\ E.c \in DOMAIN wr /\ wr[E.c].a = -1 /\ E.r = wr[E.c].v
            /\ wr' = Del(wr, E.c)
            /\ l' = l + 1 /\ UNCHANGED <<cur, infl, rd, n>>

Next == Reset \/ InvWrite \/ ResWrite \/ InvRead \/ ResRead \/ InvOther \/ ResOther

HighWater == TLCSet(1, IF l > TLCGet(1) THEN l ELSE TLCGet(1))
Accepted == /\ PrintT(<<"H", ToString(TLCGet(1))>>)
            /\ TLCGet(1) = Len(Trace) + 1
=============================================================================
