--------------------------- MODULE DiskRegTrace ---------------------------
(* Code -> spec, concurrent histories of the file-backed disk (C10).       *)
(* The property claims less than linearizability here: operations on       *)
(* distinct addresses never interfere, and operations ordered in real time *)
(* on one address are observed in that order.  Any number of writers and   *)
(* readers per address.  last[a] is the set of values of completed writes  *)
(* that no other completed write follows in real time (one element when    *)
(* the writes of an address are ordered, several after concurrent writes). *)
(* A read may return                                                       *)
(*   - a value in last[a] as of its invocation,                            *)
(*   - the value of any write that overlaps the read,                      *)
(*   - TORN only if some write to that address overlaps the read.          *)
(* In particular a read that begins after two concurrent writes have both  *)
(* returned must see one of the two whole blocks, never a mixture.         *)
(* Validation is deterministic (no search).                                *)
EXTENDS DiskSem, TLC, Json, FiniteSets

Trace == ndJsonDeserialize("trace.ndjson")

VARIABLES cur,      \* [Addr -> set of values of the real-time-maximal completed writes]  (last[a] above)
          infl,     \* [Addr -> set of values being written]
          rd,       \* pending reads:  client -> [a, cands, over]
          wr,       \* pending writes: client -> [a, v, pred]   pred = cur[a] when the write began
          n, l
vars == <<cur, infl, rd, wr, n, l>>
NoneV == -100

E == Trace[l]
Is(ev) == l <= Len(Trace) /\ E.ev = ev
Put(f, k, v) == [x \in DOMAIN f \cup {k} |-> IF x = k THEN v ELSE f[x]]
Del(f, k)    == [x \in DOMAIN f \ {k} |-> f[x]]

Init == TLCSet(1, 0) /\ cur = <<>> /\ infl = <<>> /\ rd = <<>> /\ wr = <<>> /\ n = 0 /\ l = 1

Reset == /\ Is("reset") /\ DOMAIN rd = {} /\ DOMAIN wr = {}
         /\ cur' = [a \in 0..(E.n-1) |-> {ZeroDisk(E.n)[a]}] /\ infl' = [a \in 0..(E.n-1) |-> {}]
         /\ rd' = <<>> /\ wr' = <<>> /\ n' = E.n /\ l' = l + 1

InvWrite == /\ Is("inv") /\ E.op = "write" /\ E.a \in DOMAIN cur
            /\ infl' = [infl EXCEPT ![E.a] = @ \cup {E.v}]
            /\ wr' = Put(wr, E.c, [a |-> E.a, v |-> E.v, pred |-> cur[E.a]])
            /\ rd' = [c \in DOMAIN rd |-> IF rd[c].a = E.a
                                           THEN [rd[c] EXCEPT !.cands = @ \cup {E.v}, !.over = TRUE] ELSE rd[c]]
            /\ l' = l + 1 /\ UNCHANGED <<cur, n>>
ResWrite == /\ Is("res") /\ E.c \in DOMAIN wr /\ wr[E.c].a # -1 /\ E.r = OK
            /\ cur' = [cur EXCEPT ![wr[E.c].a] = (@ \ wr[E.c].pred) \cup {wr[E.c].v}]   \* supersedes what completed before it began
            /\ infl' = [infl EXCEPT ![wr[E.c].a] = @ \ {wr[E.c].v}]
            /\ wr' = Del(wr, E.c)
            /\ l' = l + 1 /\ UNCHANGED <<rd, n>>
InvRead == /\ Is("inv") /\ E.op = "read" /\ E.a \in DOMAIN cur
           /\ rd' = Put(rd, E.c, [a |-> E.a,
                                   cands |-> cur[E.a] \cup infl[E.a],
                                   over |-> infl[E.a] # {}])
           /\ l' = l + 1 /\ UNCHANGED <<cur, infl, wr, n>>
ResRead == /\ Is("res") /\ E.c \in DOMAIN rd
           /\ (E.r \in rd[E.c].cands \/ (rd[E.c].over /\ E.r = TORN))
           /\ rd' = Del(rd, E.c)
           /\ l' = l + 1 /\ UNCHANGED <<cur, infl, wr, n>>
\* out-of-range operations and Size are refused / answered independently of everything else
InvOther == /\ Is("inv") /\ (E.op = "size" \/ E.a \notin DOMAIN cur)
            /\ wr' = Put(wr, E.c, [a |-> -1, v |-> IF E.op = "size" THEN n ELSE PANIC, pred |-> {}])
            /\ l' = l + 1 /\ UNCHANGED <<cur, infl, rd, n>>
ResOther == /\ Is("res") /\ E.c \in DOMAIN wr /\ wr[E.c].a = -1 /\ E.r = wr[E.c].v
            /\ wr' = Del(wr, E.c)
            /\ l' = l + 1 /\ UNCHANGED <<cur, infl, rd, n>>

Next == Reset \/ InvWrite \/ ResWrite \/ InvRead \/ ResRead \/ InvOther \/ ResOther

HighWater == TLCSet(1, IF l > TLCGet(1) THEN l ELSE TLCGet(1))
Accepted == /\ PrintT(<<"H", ToString(TLCGet(1))>>)
            /\ TLCGet(1) = Len(Trace) + 1
=============================================================================
