CONSTANTS
  Thread = {"t1", "t2", "t3"}
  NAddr = 2
  Val = {0, 1, 2}
  MaxOps = 2
  LockReads = FALSE
  LockWrites = TRUE
  CopyUnderLock = TRUE
INIT Init
NEXT Next
INVARIANTS MutualExclusion NoTornRead LinOK Refines
CHECK_DEADLOCK FALSE
