----------------------------- MODULE FileDisk -----------------------------
(* L2 specification of machine/disk/file.go at system-call level: C11.     *)
(* The backing image is a byte sequence (a block is BS model bytes; the    *)
(* harness maps a model length q*BS + r to q*4096 + r real bytes, so the   *)
(* "numBlocks bytes" image of the property is representable).              *)
(* One action per system call; each call can fail (Fail = the call that    *)
(* is made to fail, injected with strace); the process can be killed       *)
(* between any two calls.  Pwrite/pread that succeed transfer the bytes    *)
(* that exist (a pread past the end of file transfers nothing and the      *)
(* caller's buffer keeps its stale content - the code never looks at the   *)
(* count).                                                                 *)
(*   OpenCmp = "bytes"  : resize iff size in bytes # numBlocks * BlockSize  *)
(*   OpenCmp = "blocks" : resize iff size in bytes # numBlocks   (the code  *)
(*                        as originally written: bytes compared with blocks)*)
EXTENDS Integers, Sequences, FiniteSets, TLC, Json

CONSTANTS BS, MaxN, Val, OpenCmp, PriorLens, MaxOps, MaxFaults, D

VARIABLES img,      \* the byte sequence of the image (empty if the file does not exist yet: O_CREAT)
          st,       \* "closed" | "open" | "dead" (process killed) | "panicked"
          n,        \* numBlocks of the open disk
          last,     \* last operation and its outcome
          hist, prior, nf,   \* nf: number of injected failures so far
          expect    \* ghost: the block contents the property promises (function 0..n-1 -> Val), valid while open

vars == <<img, st, n, last, hist, prior, nf, expect>>
Zero == 0
STALE == -7     \* marker for "the caller's dirty buffer content survived the read"
Bytes(i) == i
BlockOf(bytes, a) == [k \in 1..BS |-> IF a * BS + k <= Len(bytes) THEN bytes[a * BS + k] ELSE STALE]
Uniform(blk) == IF \A k \in 1..BS : blk[k] = blk[1] THEN blk[1] ELSE -5   \* -5: mixed (partially retained) block
Resize(bytes, len) == [k \in 1..len |-> IF k <= Len(bytes) THEN bytes[k] ELSE Zero]
Overwrite(bytes, off, v) == LET len == IF off + BS > Len(bytes) THEN off + BS ELSE Len(bytes)
                            IN [k \in 1..len |-> IF k > off /\ k <= off + BS THEN v
                                                 ELSE IF k <= Len(bytes) THEN bytes[k] ELSE Zero]
Fails == {"none", "open", "fstat", "ftruncate"}
Op(op, a, v, fail, r) == [op |-> op, a |-> a, v |-> v, fail |-> fail, r |-> r]
Log(e) == /\ last' = e /\ hist' = Append(hist, e) /\ UNCHANGED prior
          /\ nf' = IF e.fail = "none" THEN nf ELSE nf + 1
          /\ (e.fail # "none" => nf < MaxFaults)

\* what the property promises after opening an image with prior content as blocks
Promise(bytes, nn) == [a \in 0..(nn-1) |->
     IF (a + 1) * BS <= Len(bytes) THEN Uniform([k \in 1..BS |-> bytes[a * BS + k]])     \* retained block preserved
     ELSE IF a * BS >= Len(bytes) THEN Zero                                               \* new block reads as zero
     ELSE -5]                                                                             \* partially present block: retained bytes + zeros (judged bytewise by the harness)

ABSENT == 99       \* prior "length" of a backing file that does not exist yet
Init == /\ prior \in PriorLens
        /\ img = (IF prior = ABSENT THEN <<>> ELSE [k \in 1..prior |-> 1 + ((k - 1) \div BS)])
        /\ nf = 0 /\ st = "closed" /\ n = 0 /\ last = Op("init", 0, 0, "none", 0) /\ hist = <<>> /\ expect = <<>>

NeedResize(bytes, nn) == IF OpenCmp = "bytes" THEN Len(bytes) # nn * BS ELSE Len(bytes) # nn

\* NewFileDisk(path, nn): open(O_RDWR|O_CREAT); fstat; [ftruncate]
Open(nn, fail) ==
  /\ st = "closed" /\ Len(hist) < MaxOps
  /\ LET b0 == Bytes(img) IN
     IF fail = "open" THEN /\ Log(Op("open", nn, 0, fail, -1)) /\ UNCHANGED <<img, st, n, expect>>
     ELSE IF fail = "fstat" THEN /\ img' = b0 /\ Log(Op("open", nn, 0, fail, -1)) /\ UNCHANGED <<st, n, expect>>
     ELSE IF fail = "ftruncate" /\ NeedResize(b0, nn) THEN /\ img' = b0 /\ Log(Op("open", nn, 0, fail, -1)) /\ UNCHANGED <<st, n, expect>>
     ELSE /\ fail = "none"
          /\ img' = IF NeedResize(b0, nn) THEN Resize(b0, nn * BS) ELSE b0
          /\ st' = "open" /\ n' = nn
          /\ expect' = Promise(b0, nn)
          /\ Log(Op("open", nn, 0, "none", 0))

Write(a, v, fail) ==
  /\ st = "open" /\ a \in 0..(n-1) /\ Len(hist) < MaxOps
  /\ IF fail THEN /\ st' = "panicked" /\ Log(Op("write", a, v, "pwrite64", -1)) /\ UNCHANGED <<img, n, expect>>
     ELSE /\ img' = Overwrite(img, a * BS, v)
          /\ expect' = [expect EXCEPT ![a] = v]
          /\ Log(Op("write", a, v, "none", 0)) /\ UNCHANGED <<st, n>>

\* ReadTo into a dirty buffer: result is the uniform value read, STALE/-9 otherwise
Read(a, fail) ==
  /\ st = "open" /\ a \in 0..(n-1) /\ Len(hist) < MaxOps
  /\ IF fail THEN /\ st' = "panicked" /\ Log(Op("read", a, 0, "pread64", -1)) /\ UNCHANGED <<img, n, expect>>
     ELSE /\ Log(Op("read", a, 0, "none", Uniform(BlockOf(img, a)))) /\ UNCHANGED <<img, st, n, expect>>

Barrier(fail) ==
  /\ st = "open" /\ Len(hist) < MaxOps
  /\ IF fail THEN /\ st' = "panicked" /\ Log(Op("barrier", 0, 0, "fsync", -1))
     ELSE /\ Log(Op("barrier", 0, 0, "none", 0)) /\ UNCHANGED st
  /\ UNCHANGED <<img, n, expect>>

Close == /\ st = "open" /\ st' = "closed" /\ Log(Op("close", 0, 0, "none", 0)) /\ UNCHANGED <<img, n, expect>>
\* the process dies (kill -9 between two system calls); the image keeps every completed pwrite; a new process may open it
Kill == /\ st = "open" /\ st' = "closed" /\ Log(Op("kill", 0, 0, "none", 0)) /\ UNCHANGED <<img, n, expect>>

Next == \/ \E nn \in 0..MaxN, f \in Fails : Open(nn, f)
        \/ \E a \in 0..(MaxN-1), v \in Val \ {Zero}, f \in BOOLEAN : Write(a, v, f)
        \/ \E a \in 0..(MaxN-1), f \in BOOLEAN : Read(a, f)
        \/ \E f \in BOOLEAN : Barrier(f)
        \/ Close \/ Kill
Spec == Init /\ [][Next]_vars

----------------------------------------------------------------------------
\* after a successful open the image has exactly numBlocks blocks
SizeExact == st = "open" => Len(img) = n * BS
\* every read returns the promised content: last write, preserved old block, or zero for a new block
ReadPromised == last.op = "read" /\ last.fail = "none" /\ expect[last.a] # -5 => last.r = expect[last.a]
\* a failed system call never yields a normal return
NoSilentFailure == last.fail # "none" => last.r = -1 /\ (last.op # "open" => st = "panicked")
EmitHist == IF (Len(hist) = D \/ st = "panicked") /\ Len(hist) > 0 THEN PrintT(<<"H", ToJson([prior |-> prior, h |-> hist])>>) ELSE TRUE
View == <<img, st, n, last, prior, nf, expect>>
=============================================================================
