--------------------------- MODULE DiskLinTrace ---------------------------
(* Code -> spec, concurrent histories of the in-memory disk (C10).         *)
(* Events (ordered by a global atomic sequence number taken by the client  *)
(* goroutines: inv before the call, res after it returns):                 *)
(*   reset(n)  inv(c, op, a, v)  res(c, r)                                 *)
(* The trace is accepted iff linearization points can be placed between    *)
(* each inv and its res such that the register-array semantics (DiskSem)   *)
(* gives exactly the observed replies.  Lin is the unlogged internal step  *)
(* (searched by TLC, depth-first).  A block that is a mixture of two       *)
(* writes is logged as TORN, which DiskSem never returns.                  *)
EXTENDS DiskSem, TLC, Json, FiniteSets

Trace == ndJsonDeserialize("trace.ndjson")

VARIABLES blk, pend, l
vars == <<blk, pend, l>>

E == Trace[l]
Is(ev) == l <= Len(Trace) /\ E.ev = ev

Init == TLCSet(1, 0) /\ blk = <<>> /\ pend = <<>> /\ l = 1

Reset == /\ Is("reset") /\ DOMAIN pend = {}
         /\ blk' = ZeroDisk(E.n) /\ pend' = <<>> /\ l' = l + 1

Put(f, k, v) == [x \in DOMAIN f \cup {k} |-> IF x = k THEN v ELSE f[x]]
Del(f, k)    == [x \in DOMAIN f \ {k} |-> f[x]]

Inv == /\ Is("inv") /\ E.c \notin DOMAIN pend
       /\ pend' = Put(pend, E.c, [op |-> E.op, a |-> E.a, v |-> E.v, st |-> "inv", rep |-> 0])
       /\ l' = l + 1 /\ UNCHANGED blk

Reply(p) == CASE p.op = "read"  -> RdReply(blk, p.a)
              [] p.op = "write" -> WrReply(blk, p.a, "ok")
              [] p.op = "size"  -> SizeReply(blk)

\* internal: operation of client c takes effect now
\* (just-in-time: a linearization point can always be delayed until right
\*  before the next response event, so Lin is enabled only then)
Lin == \E c \in DOMAIN pend :
         /\ Is("res")
         /\ pend[c].st = "inv"
         /\ pend' = [pend EXCEPT ![c].st = "lin", ![c].rep = Reply(pend[c])]
         /\ blk' = IF pend[c].op = "write" THEN WrBlocks(blk, pend[c].a, pend[c].v, "ok") ELSE blk
         /\ UNCHANGED l

Res == /\ Is("res") /\ E.c \in DOMAIN pend
       /\ pend[E.c].st = "lin" /\ pend[E.c].rep = E.r
       /\ pend' = Del(pend, E.c)
       /\ l' = l + 1 /\ UNCHANGED blk

Next == Reset \/ Inv \/ Lin \/ Res

HighWater == TLCSet(1, IF l > TLCGet(1) THEN l ELSE TLCGet(1))
Accepted == /\ PrintT(<<"H", ToString(TLCGet(1))>>)
            /\ TLCGet(1) = Len(Trace) + 1
=============================================================================
