---------------------------- MODULE DiskSem ----------------------------
(* Pure (state-free) meaning of the block-device API of machine/disk and    *)
(* machine/async_disk: an array of independent registers.  Shared by the   *)
(* model (Disk.tla), the sequential trace specification (DiskTrace.tla),   *)
(* the linearizability trace specification (DiskLinTrace.tla) and the      *)
(* implementation-shaped specifications (MemDisk.tla, FileDisk.tla).       *)
(*                                                                         *)
(* A block value is an abstract pattern identifier (0 = all zero bytes);   *)
(* the harness maps identifiers to 4096-byte patterns and back, mapping     *)
(* any byte content that is not exactly one pattern to TORN, which no      *)
(* operation of this module can return.                                    *)
EXTENDS Integers, Sequences

Zero  == 0
PANIC == -1      \* the call was refused (Go panic)
OK    == -2      \* the call returned normally and has no result
TORN  == -9      \* observed content that is not a single written pattern

ZeroDisk(n) == [a \in 0..(n-1) |-> Zero]

InRange(b, a) == a \in DOMAIN b

\* Read / ReadTo: the value of the register, or refusal when out of range.
RdReply(b, a) == IF InRange(b, a) THEN b[a] ELSE PANIC

\* Write of a buffer holding pattern v whose length class is len.
WrOk(b, a, len)     == InRange(b, a) /\ len = "ok"
WrReply(b, a, len)  == IF WrOk(b, a, len) THEN OK ELSE PANIC
WrBlocks(b, a, v, len) == IF WrOk(b, a, len) THEN [b EXCEPT ![a] = v] ELSE b

SizeReply(b) == IF DOMAIN b = {} THEN 0 ELSE 1 + CHOOSE m \in DOMAIN b : \A x \in DOMAIN b : x <= m

\* Re-opening a backing image with n blocks requested: retained blocks are
\* preserved, new blocks read as zero, the size is exactly n.
Reopened(b, n) == [a \in 0..(n-1) |-> IF a \in DOMAIN b THEN b[a] ELSE Zero]
=============================================================================
