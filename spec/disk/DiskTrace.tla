---------------------------- MODULE DiskTrace ----------------------------
(* Code -> spec: validates histories recorded from the real disks          *)
(* (sequential drivers, one history per target, many histories per file)   *)
(* against the register-array semantics of DiskSem.  Every event carries   *)
(* the observed reply, so each step is deterministic: the trace is         *)
(* accepted iff every observed reply equals the specified one.             *)
EXTENDS DiskSem, TLC, Json

Trace == ndJsonDeserialize("trace.ndjson")

VARIABLES blk, buf, l
vars == <<blk, buf, l>>

E == Trace[l]
Is(op) == l <= Len(Trace) /\ E.ev = op
Step == l' = l + 1

Init == /\ TLCSet(1, 0)
        /\ blk = <<>> /\ buf = <<>> /\ l = 1

Reset == /\ Is("reset")
         /\ blk' = ZeroDisk(E.n)
         /\ buf' = [i \in 1..E.nbuf |-> [v |-> Zero, len |-> "ok"]]
         /\ Step

\* re-open of the backing file with E.n blocks (FileDisk only): C11 clause
Reopen == /\ Is("reopen")
          /\ blk' = Reopened(blk, E.n)
          /\ UNCHANGED buf /\ Step

Read == /\ Is("read")
        /\ E.r = RdReply(blk, E.a)
        /\ buf' = IF InRange(blk, E.a) THEN [buf EXCEPT ![E.i] = [v |-> blk[E.a], len |-> "ok"]] ELSE buf
        /\ UNCHANGED blk /\ Step

\* E.r: PANIC or the pattern found in the caller's buffer after the call
ReadTo == /\ Is("readto")
          /\ buf[E.i].len = "ok"
          /\ E.r = RdReply(blk, E.a)
          /\ buf' = IF InRange(blk, E.a) THEN [buf EXCEPT ![E.i].v = blk[E.a]] ELSE buf
          /\ UNCHANGED blk /\ Step

Write == /\ Is("write")
         /\ E.r = WrReply(blk, E.a, buf[E.i].len)
         /\ blk' = WrBlocks(blk, E.a, buf[E.i].v, buf[E.i].len)
         /\ UNCHANGED buf /\ Step

Mutate == /\ Is("mutate")
          /\ buf' = [buf EXCEPT ![E.i] = [v |-> E.v, len |-> E.len]]
          /\ UNCHANGED blk /\ Step

Size == Is("size") /\ E.r = SizeReply(blk) /\ UNCHANGED <<blk, buf>> /\ Step
Barrier == Is("barrier") /\ E.r = OK /\ UNCHANGED <<blk, buf>> /\ Step

Next == Reset \/ Reopen \/ Read \/ ReadTo \/ Write \/ Mutate \/ Size \/ Barrier

HighWater == TLCSet(1, IF l > TLCGet(1) THEN l ELSE TLCGet(1))
Accepted == /\ PrintT(<<"H", ToString(TLCGet(1))>>)
            /\ TLCGet(1) = Len(Trace) + 1
=============================================================================
