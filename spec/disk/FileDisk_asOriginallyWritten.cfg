CONSTANTS
  BS = 4
  MaxN = 3
  Val = {0, 1, 2}
  OpenCmp = "blocks"
  PriorLens = {99, 0, 1, 2, 3, 4, 5, 8, 9, 12, 13}
  MaxOps = 5
  MaxFaults = 1
  D = 0
INIT Init
NEXT Next
VIEW View
INVARIANTS SizeExact ReadPromised NoSilentFailure
CHECK_DEADLOCK FALSE
