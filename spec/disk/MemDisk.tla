----------------------------- MODULE MemDisk -----------------------------
(* L2 (implementation shaped) specification of machine/disk/mem.go: C10.  *)
(* One action per step of the Go code: lock acquisition (RLock / Lock on   *)
(* one RWMutex), the block copy in two halves (a 4096-byte copy is not     *)
(* atomic), lock release.  The constants describe the code AS WRITTEN when *)
(* all TRUE; setting one to FALSE models the corresponding breaking change *)
(* (no lock around reads / writes; copy after the unlock).                 *)
(* Linearizability: a ghost register array abs is updated atomically at    *)
(* the linearization point (lock acquisition) and fixes the reply each     *)
(* call must give; LinOK says every call returns exactly that reply.       *)
EXTENDS DiskSem, FiniteSets, TLC, Json

CONSTANTS Thread, NAddr, Val, MaxOps,
          LockReads, LockWrites, CopyUnderLock

VARIABLES half,     \* [Addr -> <<v1, v2>>]  the two halves of each block
          readers,  \* threads holding the read lock
          writer,   \* thread holding the write lock, or "none"
          pc, call, tmp, exp, nops,
          abs       \* ghost: the linearized register array

vars == <<half, readers, writer, pc, call, tmp, exp, nops, abs>>
Addr == 0..(NAddr-1)
None == "none"

Init == /\ half = [a \in Addr |-> <<Zero, Zero>>]
        /\ readers = {} /\ writer = None
        /\ pc = [t \in Thread |-> "idle"]
        /\ call = [t \in Thread |-> [op |-> "none", a |-> 0, v |-> 0]]
        /\ tmp = [t \in Thread |-> <<Zero, Zero>>]
        /\ exp = [t \in Thread |-> 0]
        /\ nops = [t \in Thread |-> 0]
        /\ abs = ZeroDisk(NAddr)

Start(t) == /\ pc[t] = "idle" /\ nops[t] < MaxOps
            /\ \E a \in Addr :
                 \/ call' = [call EXCEPT ![t] = [op |-> "read", a |-> a, v |-> 0]]
                 \/ \E v \in Val \ {Zero} : call' = [call EXCEPT ![t] = [op |-> "write", a |-> a, v |-> v]]
            /\ pc' = [pc EXCEPT ![t] = "lock"]
            /\ nops' = [nops EXCEPT ![t] = @ + 1]
            /\ UNCHANGED <<half, readers, writer, tmp, exp, abs>>

IsRead(t) == call[t].op = "read"
CanEnter(t) == IF IsRead(t) THEN (LockReads => writer = None)
                            ELSE (LockWrites => writer = None /\ readers = {})

\* lock acquisition = linearization point (ghost update of abs)
Enter(t) == /\ pc[t] = "lock" /\ CanEnter(t)
            /\ IF IsRead(t)
               THEN /\ readers' = IF LockReads THEN readers \cup {t} ELSE readers
                    /\ exp' = [exp EXCEPT ![t] = abs[call[t].a]] /\ UNCHANGED <<writer, abs>>
               ELSE /\ writer' = IF LockWrites THEN t ELSE writer
                    /\ abs' = [abs EXCEPT ![call[t].a] = call[t].v]
                    /\ exp' = [exp EXCEPT ![t] = OK] /\ UNCHANGED readers
            /\ pc' = [pc EXCEPT ![t] = IF CopyUnderLock THEN "c1" ELSE "early"]
            /\ UNCHANGED <<half, call, tmp, nops>>

\* breaking change "unlock before the copy"
EarlyRelease(t) == /\ pc[t] = "early"
                   /\ readers' = readers \ {t}
                   /\ writer' = IF writer = t THEN None ELSE writer
                   /\ pc' = [pc EXCEPT ![t] = "c1"]
                   /\ UNCHANGED <<half, call, tmp, exp, nops, abs>>

Copy1(t) == /\ pc[t] = "c1"
            /\ IF IsRead(t) THEN tmp' = [tmp EXCEPT ![t][1] = half[call[t].a][1]] /\ UNCHANGED half
                            ELSE half' = [half EXCEPT ![call[t].a][1] = call[t].v] /\ UNCHANGED tmp
            /\ pc' = [pc EXCEPT ![t] = "c2"]
            /\ UNCHANGED <<readers, writer, call, exp, nops, abs>>
Copy2(t) == /\ pc[t] = "c2"
            /\ IF IsRead(t) THEN tmp' = [tmp EXCEPT ![t][2] = half[call[t].a][2]] /\ UNCHANGED half
                            ELSE half' = [half EXCEPT ![call[t].a][2] = call[t].v] /\ UNCHANGED tmp
            /\ pc' = [pc EXCEPT ![t] = "rel"]
            /\ UNCHANGED <<readers, writer, call, exp, nops, abs>>
Release(t) == /\ pc[t] = "rel"
              /\ readers' = readers \ {t}
              /\ writer' = IF writer = t THEN None ELSE writer
              /\ pc' = [pc EXCEPT ![t] = "ret"]
              /\ UNCHANGED <<half, call, tmp, exp, nops, abs>>
Return(t) == /\ pc[t] = "ret" /\ pc' = [pc EXCEPT ![t] = "idle"]
             /\ UNCHANGED <<half, readers, writer, call, tmp, exp, nops, abs>>

Next == \E t \in Thread : Start(t) \/ Enter(t) \/ EarlyRelease(t) \/ Copy1(t) \/ Copy2(t) \/ Release(t) \/ Return(t)
Spec == Init /\ [][Next]_vars

----------------------------------------------------------------------------
InCS(t) == pc[t] \in {"c1", "c2", "rel"} \/ (pc[t] = "early")
MutualExclusion == \A t, u \in Thread : t # u /\ InCS(t) /\ InCS(u) /\ call[t].a = call[u].a =>
                       IsRead(t) /\ IsRead(u)
NoTornRead == \A t \in Thread : pc[t] = "ret" /\ IsRead(t) => tmp[t][1] = tmp[t][2]
LinOK      == \A t \in Thread : pc[t] = "ret" =>
                 IF IsRead(t) THEN tmp[t] = <<exp[t], exp[t]>> ELSE exp[t] = OK
\* when nobody is writing, the concrete halves are the linearized array
Refines    == writer = None /\ (\A t \in Thread : ~(InCS(t) /\ ~IsRead(t))) =>
                 \A a \in Addr : half[a] = <<abs[a], abs[a]>>

\* schedule table for the gates: thread A inside its critical section, thread
\* B at its lock acquisition: may B enter?
EmitGate ==
  \A ta, tb \in Thread :
     (ta # tb /\ pc[ta] \in {"c1", "c2"} /\ pc[tb] = "lock" /\ (\A u \in Thread \ {ta, tb} : pc[u] = "idle")) =>
        PrintT(<<"H", ToJson([aop |-> call[ta].op, bop |-> call[tb].op,
                              same |-> IF call[ta].a = call[tb].a THEN 1 ELSE 0,
                              enter |-> IF CanEnter(tb) THEN 1 ELSE 0])>>)
=============================================================================
