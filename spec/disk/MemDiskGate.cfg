CONSTANTS
  Thread = {"t1", "t2"}
  NAddr = 2
  Val = {0, 1}
  MaxOps = 1
  LockReads = TRUE
  LockWrites = TRUE
  CopyUnderLock = TRUE
INIT Init
NEXT Next
INVARIANTS EmitGate
CHECK_DEADLOCK FALSE
