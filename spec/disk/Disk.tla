------------------------------ MODULE Disk ------------------------------
(* L1 (property level) specification of a disk: C09.                      *)
(* Clients own NBuf buffers; Read hands a fresh buffer to the client       *)
(* (stored in a slot), ReadTo fills a client buffer, Write copies a client *)
(* buffer, Mutate is the client scribbling on memory it owns - it must     *)
(* never change the disk.                                                  *)
EXTENDS DiskSem, FiniteSets, TLC, Json

CONSTANTS N,        \* number of blocks
          Val,      \* block patterns (Zero \in Val)
          NBuf,     \* number of client buffer slots
          Probe     \* addresses clients may pass (in and out of range)

VARIABLES blk,      \* the register array
          buf,      \* client-owned buffers: [v |-> pattern, len |-> "ok"|"short"|"long"]
          last,     \* last operation with its reply (observation)
          lastw,    \* ghost: last value successfully written per address
          hist      \* ghost: whole history (only for behaviour generation)

vars == <<blk, buf, last, lastw, hist>>
Lens == {"ok", "short", "long"}
Slot == 1..NBuf
Addr == 0..(N-1)

Ev(op, a, i, v, len, r) == [op |-> op, a |-> a, i |-> i, v |-> v, len |-> len, r |-> r]

Init == /\ blk = ZeroDisk(N)
        /\ buf = [i \in Slot |-> [v |-> Zero, len |-> "ok"]]
        /\ last = Ev("init", 0, 0, 0, "ok", OK)
        /\ lastw = ZeroDisk(N)
        /\ hist = <<>>

Log(e) == last' = e /\ hist' = Append(hist, e)

Read(a, i) ==
  /\ Log(Ev("read", a, i, 0, "ok", RdReply(blk, a)))
  /\ buf' = IF InRange(blk, a) THEN [buf EXCEPT ![i] = [v |-> blk[a], len |-> "ok"]] ELSE buf
  /\ UNCHANGED <<blk, lastw>>

ReadTo(a, i) ==
  /\ buf[i].len = "ok"                         \* documented precondition
  /\ Log(Ev("readto", a, i, 0, "ok", RdReply(blk, a)))
  /\ buf' = IF InRange(blk, a) THEN [buf EXCEPT ![i].v = blk[a]] ELSE buf
  /\ UNCHANGED <<blk, lastw>>

Write(a, i) ==
  /\ Log(Ev("write", a, i, buf[i].v, buf[i].len, WrReply(blk, a, buf[i].len)))
  /\ blk' = WrBlocks(blk, a, buf[i].v, buf[i].len)
  /\ lastw' = IF WrOk(blk, a, buf[i].len) THEN [lastw EXCEPT ![a] = buf[i].v] ELSE lastw
  /\ UNCHANGED buf

Mutate(i, v, len) ==
  /\ buf[i] # [v |-> v, len |-> len]
  /\ Log(Ev("mutate", 0, i, v, len, OK))
  /\ buf' = [buf EXCEPT ![i] = [v |-> v, len |-> len]]
  /\ UNCHANGED <<blk, lastw>>

Size    == Log(Ev("size", 0, 0, 0, "ok", SizeReply(blk))) /\ UNCHANGED <<blk, buf, lastw>>
Barrier == Log(Ev("barrier", 0, 0, 0, "ok", OK)) /\ UNCHANGED <<blk, buf, lastw>>

Next == \/ \E a \in Probe, i \in Slot : Read(a, i) \/ ReadTo(a, i) \/ Write(a, i)
        \/ \E i \in Slot, v \in Val, len \in Lens : Mutate(i, v, len)
        \/ Size \/ Barrier

Spec == Init /\ [][Next]_vars

----------------------------------------------------------------------------
TypeOK == /\ blk \in [Addr -> Val]
          /\ buf \in [Slot -> [v : Val, len : Lens]]

\* every read returns the most recent value written to that address
ReadLatest == blk = lastw
ReadReturnsLatest ==
  last.op \in {"read", "readto"} => last.r = (IF last.a \in Addr THEN lastw[last.a] ELSE PANIC)

\* a write affects no other address; only a successful write changes anything
WriteFrame == [][\A a \in Addr : blk'[a] # blk[a] =>
                    last'.op = "write" /\ last'.a = a /\ last'.r = OK /\ blk'[a] = last'.v]_vars
\* Size never changes
SizeConst  == [][DOMAIN blk' = DOMAIN blk /\ (last'.op = "size" => last'.r = N)]_vars
\* client memory is never retained: scribbling changes no register
NoAlias    == [][last'.op = "mutate" => blk' = blk]_vars
\* refusals: out-of-range addresses and wrong-sized write buffers
Refusals   == [][/\ (last'.op \in {"read", "readto", "write"} /\ last'.a \notin Addr => last'.r = PANIC /\ blk' = blk)
                 /\ (last'.op = "write" /\ last'.len # "ok" => last'.r = PANIC /\ blk' = blk)]_vars

\* behaviour generation (simulation mode): print the history as JSON at depth D
CONSTANT D
EmitHist == IF Len(hist) = D THEN PrintT(<<"H", ToJson(hist)>>) ELSE TRUE
View == <<blk, buf, last, lastw>>
=============================================================================
