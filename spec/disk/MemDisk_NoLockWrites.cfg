CONSTANTS
  Thread = {"t1", "t2", "t3"}
  NAddr = 2
  Val = {0, 1, 2}
  MaxOps = 2
  LockReads = TRUE
  LockWrites = FALSE
  CopyUnderLock = TRUE
INIT Init
NEXT Next
INVARIANTS MutualExclusion NoTornRead LinOK Refines
CHECK_DEADLOCK FALSE
