CONSTANTS
  N = 2
  Val = {0, 1, 2}
  NBuf = 2
  Probe <- MCProbe
  D = 0
INIT Init
NEXT Next
VIEW View
INVARIANTS TypeOK ReadLatest ReadReturnsLatest
PROPERTIES WriteFrame SizeConst NoAlias Refusals
