package gen

func ns1() bool {
	s := make([]uint64, 0)
	return s == nil
}

func entry() bool {
	return ns1()
}
