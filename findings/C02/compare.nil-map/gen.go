package gen

func nm1() bool {
	var m map[uint64]uint64
	return m == nil
}

func entry() bool {
	return nm1()
}
