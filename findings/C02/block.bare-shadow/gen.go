package gen

func bs1() uint64 {
	x := uint64(1)
	{
		x := uint64(2)
		_ = x
	}
	return x
}

func entry() uint64 {
	return bs1()
}
