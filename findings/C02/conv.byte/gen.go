package gen

func cb1(x uint64) uint64 {
	return uint64(byte(x))
}

func entry() uint64 {
	return cb1(300)
}
