package gen

type iq1i interface {
	area() uint64
}

type iq1s struct {
	w uint64
}

func (s iq1s) area() uint64 {
	return s.w * s.w
}

func iq1m(n uint64, x iq1i) uint64 {
	return x.area() + n
}

func iq1() uint64 {
	v := iq1m(2, iq1s{w: 3})
	return v
}

func entry() uint64 {
	return iq1()
}
