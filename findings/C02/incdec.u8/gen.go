package gen

func idb1() byte {
	var y byte = 255
	y++
	return y
}

func entry() byte {
	return idb1()
}
