package gen

func uint32(x uint64) uint64 {
	return x + 100
}

func lu1() uint64 {
	return uint32(4294967296)
}

func entry() uint64 {
	return lu1()
}
