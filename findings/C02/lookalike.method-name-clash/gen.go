package gen

type mc1s struct {
	n uint64
}

func (s *mc1s) get() uint64 {
	return s.n
}

func mc1s__get(x uint64) uint64 {
	return x + 50
}

func mc1() uint64 {
	p := &mc1s{n: 3}
	return p.get() + mc1s__get(1)
}

func entry() uint64 {
	return mc1()
}
