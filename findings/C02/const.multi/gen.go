package gen

const cma1, cmb1 uint64 = 11, 22

func cm1() uint64 {
	return cma1 + cmb1
}

func entry() uint64 {
	return cm1()
}
