package gen

type ir1i interface {
	bump() uint64
}

type ir1s struct {
	w uint64
}

func (s *ir1s) bump() uint64 {
	s.w = s.w + 1
	return s.w
}

func ir1m(x ir1i) uint64 {
	return x.bump() + x.bump()
}

func ir1() uint64 {
	p := &ir1s{w: 3}
	v := ir1m(p)
	return v + p.w
}

func entry() uint64 {
	return ir1()
}
