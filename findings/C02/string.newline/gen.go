package gen

func sn1() uint64 {
	s := "a\nb"
	return uint64(len(s))
}

func entry() uint64 {
	return sn1()
}
