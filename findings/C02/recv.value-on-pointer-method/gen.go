package gen

type rv1s struct {
	n uint64
}

func (s *rv1s) inc() {
	s.n = s.n + 1
}

func rv1() uint64 {
	var v rv1s
	v.inc()
	v.inc()
	return v.n
}

func entry() uint64 {
	return rv1()
}
