package gen

func oe1w(p *uint64, v uint64) uint64 {
	old := *p
	*p = v
	return old
}

func oe1() uint64 {
	p := new(uint64)
	return oe1w(p, 1)*10 + oe1w(p, 2)
}

func entry() uint64 {
	return oe1()
}
