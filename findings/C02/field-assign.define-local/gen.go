package gen

type fa1s struct {
	n uint64
}

func fa1() uint64 {
	v := fa1s{n: 1}
	v.n = 9
	return v.n
}

func entry() uint64 {
	return fa1()
}
