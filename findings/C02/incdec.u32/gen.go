package gen

func idu1() uint32 {
	var y uint32 = 7
	y++
	return y
}

func entry() uint32 {
	return idu1()
}
