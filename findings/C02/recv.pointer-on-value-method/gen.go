package gen

type rp1s struct {
	n uint64
}

func (s rp1s) get() uint64 {
	return s.n + 1
}

func rp1() uint64 {
	p := &rp1s{n: 4}
	return p.get()
}

func entry() uint64 {
	return rp1()
}
