package gen

func grc1[T any](x T, n uint64) T {
	if n == 0 {
		return x
	}
	return grc1(x, n-1)
}

func entry() uint64 {
	return grc1[uint64](9, 3)
}
