package gen

func cu1h(x uint32) uint32 {
	return x + 1
}

func cu1() uint32 {
	return cu1h(1 << 20)
}

func entry() uint32 {
	return cu1()
}
