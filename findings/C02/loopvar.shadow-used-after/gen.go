package gen

func ls1() uint64 {
	i := uint64(7)
	var t uint64 = 0
	for i := uint64(0); i < 3; i++ {
		t = t + i
	}
	return t*100 + i
}

func entry() uint64 {
	return ls1()
}
