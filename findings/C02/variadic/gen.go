package gen

func va1(xs ...uint64) uint64 {
	var t uint64 = 0
	for _, x := range xs {
		t = t + x
	}
	return t
}

func vb1() uint64 {
	return va1(1, 2, 3)
}

func entry() uint64 {
	return vb1()
}
