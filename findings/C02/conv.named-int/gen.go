package gen

type ni1t uint32

func ni1(x uint64) uint64 {
	return uint64(ni1t(x))
}

func entry() uint64 {
	return ni1(4294967297)
}
