package gen

type ip1i interface {
	area() uint64
}

type ip1s struct {
	w uint64
}

func (s ip1s) area() uint64 {
	return s.w * s.w
}

func ip1m(x ip1i, n uint64) uint64 {
	return x.area() + n
}

func ip1() uint64 {
	v := ip1m(ip1s{w: 3}, 2)
	return v
}

func entry() uint64 {
	return ip1()
}
