package gen

func mca1() uint64 {
	m := make(map[uint64]uint64)
	m[1] = 5
	var v uint64
	var ok bool
	v, ok = m[1]
	if ok {
		return v
	}
	return 0
}

func entry() uint64 {
	return mca1()
}
