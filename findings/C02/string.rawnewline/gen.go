package gen

func sw1() uint64 {
	s := `a
b`
	return uint64(len(s))
}

func entry() uint64 {
	return sw1()
}
