package gen

func ta1(x interface{}) uint64 {
	v, ok := x.(uint64)
	if ok {
		return v
	}
	return 0
}

func entry() uint64 {
	return ta1(uint64(7))
}
