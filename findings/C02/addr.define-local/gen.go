package gen

func ad1() uint64 {
	x := uint64(5)
	p := &x
	*p = 6
	return x
}

func entry() uint64 {
	return ad1()
}
