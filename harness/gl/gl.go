// Package gl runs emitted GooseLang text on the TLA+ machine (GooseLang.tla) with TLC.
package gl

import (
	"encoding/json"
	"fmt"
	"os"
	"path/filepath"
	"time"

	"verif/tlc"
	"verif/v2tla"
	"verif/vparse"
)

type Outcome struct {
	Name string          `json:"name"`
	St   string          `json:"st"` // done | stuck
	Why  string          `json:"why"`
	Res  json.RawMessage `json:"res"`
}

// Load parses prelude + program text into a lowerer (tests are added by the caller).
func Load(preludePath, programText string) (*v2tla.Lowerer, *vparse.File, error) {
	pb, err := os.ReadFile(preludePath)
	if err != nil {
		return nil, nil, err
	}
	pf, err := vparse.ParseFile(string(pb))
	if err != nil {
		return nil, nil, fmt.Errorf("prelude: %w", err)
	}
	prog, err := vparse.ParseFile(programText)
	if err != nil {
		return nil, nil, fmt.Errorf("program: %w", err)
	}
	l := v2tla.New()
	l.AddFile(pf)
	l.AddFile(prog)
	return l, prog, nil
}

// CallNoArgs builds the term `f #()`.
func CallNoArgs(f string) *vparse.Node {
	return &vparse.Node{Kind: "app", Kids: []*vparse.Node{{Kind: "id", Name: f}, {Kind: "lit", Name: "unit"}}}
}

type RunOpts struct {
	Mode    string // seq | conc
	Fuel    int
	Workers int
	Timeout time.Duration
	HeapMB  int
	Live    bool // check the termination property under fairness (concurrent programs)
}

// Run writes batch.json into dir (which must already contain the gooselang + common specs) and runs TLC.
func Run(dir string, l *v2tla.Lowerer, o RunOpts) ([]Outcome, tlc.Result, error) {
	if o.Mode == "" {
		o.Mode = "seq"
	}
	if o.Fuel == 0 {
		o.Fuel = 300
	}
	if o.Workers == 0 {
		o.Workers = 8
	}
	if o.Timeout == 0 {
		o.Timeout = 10 * time.Minute
	}
	if o.HeapMB == 0 {
		o.HeapMB = 8000
	}
	b, err := json.Marshal(l.P)
	if err != nil {
		return nil, tlc.Result{}, err
	}
	if err := os.WriteFile(filepath.Join(dir, "batch.json"), b, 0644); err != nil {
		return nil, tlc.Result{}, err
	}
	mc := "---- MODULE GLRunMC ----\nEXTENDS GLRun\nArbSet == {<<0,0,0,0,0,0,0,0>>, <<1,0,0,0,0,0,0,0>>, <<255,255,255,255,255,255,255,255>>}\nTidSet == {<<>>, <<1>>, <<2>>, <<3>>, <<4>>, <<1, 1>>, <<2, 1>>}\n====\n"
	_ = os.WriteFile(filepath.Join(dir, "GLRunMC.tla"), []byte(mc), 0644)
	cfg := fmt.Sprintf("CONSTANTS\n Mode = \"%s\"\n Fuel = %d\n ArbChoices <- ArbSet\n TIDs <- TidSet\nINIT Init\nNEXT Next\nINVARIANT Emit\nCHECK_DEADLOCK FALSE\n", o.Mode, o.Fuel)
	if o.Live {
		cfg = fmt.Sprintf("CONSTANTS\n Mode = \"%s\"\n Fuel = %d\n ArbChoices <- ArbSet\n TIDs <- TidSet\nSPECIFICATION LiveSpec\nINVARIANT Emit\nPROPERTY Terminates\nCHECK_DEADLOCK FALSE\n", o.Mode, o.Fuel)
	}
	_ = os.WriteFile(filepath.Join(dir, "GLRunMC.cfg"), []byte(cfg), 0644)
	r := tlc.Run{Dir: dir, Module: "GLRunMC", Workers: o.Workers, Timeout: o.Timeout, HeapMB: o.HeapMB, StackMB: 512}.Do()
	var outs []Outcome
	for _, p := range r.Prints {
		var oc Outcome
		if err := json.Unmarshal([]byte(p), &oc); err == nil {
			outs = append(outs, oc)
		}
	}
	return outs, r, nil
}
