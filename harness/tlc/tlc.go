// Package tlc runs TLC / SANY under a timeout and parses the statistics.
package tlc

import (
	"bytes"
	"context"
	"fmt"
	"os"
	"os/exec"
	"path/filepath"
	"regexp"
	"strconv"
	"strings"
	"time"
)

const (
	Jar  = "/opt/veriftools/tla/tla2tools.jar"
	Deps = "/opt/veriftools/tla/CommunityModules-deps.jar"
)

type Run struct {
	Dir      string        // working directory (scratch copy of the spec dir)
	Module   string        // e.g. "MCDisk" (file Module.tla in Dir)
	Cfg      string        // cfg file name (default Module.cfg)
	Workers  int           // default 1
	Args     []string      // extra TLC args (-simulate ..., -depth ...)
	Timeout  time.Duration // default 10 min
	DFS      bool          // StateDeque queue
	HeapMB   int           // -Xmx (default 4096)
	StackMB  int           // -Xss
	Coverage bool
}

type Result struct {
	Out        string
	Generated  int64
	Distinct   int64
	Depth      int64
	ExitCode   int
	TimedOut   bool
	NoError    bool   // "Model checking completed. No error has been found."
	Violated   string // name of violated invariant / property / postcondition, "" if none
	Deadlock   bool
	TLCError   bool // evaluation error or other tool failure
	Prints     []string // payloads of <<"H", "...">> lines, unquoted
	Wall       time.Duration
	ZeroCover  []string // coverage lines with count 0
}

var (
	reStates = regexp.MustCompile(`(\d+) states generated, (\d+) distinct states found`)
	reSimGen = regexp.MustCompile(`The number of states generated: (\d+)`)
	reDepth  = regexp.MustCompile(`The depth of the complete state graph search is (\d+)`)
	reInv    = regexp.MustCompile(`Invariant (\S+) is violated`)
	reProp   = regexp.MustCompile(`(?:Action property|Temporal properties|property) (\S+)? ?(?:is|were) violated`)
	rePost   = regexp.MustCompile(`Postcondition (\S+) is false|The postcondition (\S+) is violated|postcondition.*?(\S+) (?:is false|was violated)`)
)

func (r Run) Do() Result {
	if r.Workers == 0 {
		r.Workers = 1
	}
	if r.Timeout == 0 {
		r.Timeout = 10 * time.Minute
	}
	if r.HeapMB == 0 {
		r.HeapMB = 4096
	}
	cfg := r.Cfg
	if cfg == "" {
		cfg = r.Module + ".cfg"
	}
	meta, _ := os.MkdirTemp(r.Dir, "meta")
	defer os.RemoveAll(meta)
	args := []string{"-XX:+UseParallelGC", fmt.Sprintf("-Xmx%dm", r.HeapMB)}
	if r.StackMB > 0 {
		args = append(args, fmt.Sprintf("-Xss%dm", r.StackMB))
	}
	if r.DFS {
		args = append(args, "-Dtlc2.tool.queue.IStateQueue=StateDeque")
	}
	args = append(args, "-cp", Jar+":"+Deps, "tlc2.TLC",
		"-workers", strconv.Itoa(r.Workers), "-metadir", meta, "-config", cfg, "-noGenerateSpecTE")
	if r.Coverage {
		args = append(args, "-coverage", "1")
	}
	args = append(args, r.Args...)
	args = append(args, r.Module+".tla")
	ctx, cancel := context.WithTimeout(context.Background(), r.Timeout)
	defer cancel()
	cmd := exec.CommandContext(ctx, "java", args...)
	cmd.Dir = r.Dir
	var buf bytes.Buffer
	cmd.Stdout = &buf
	cmd.Stderr = &buf
	t0 := time.Now()
	err := cmd.Run()
	res := Result{Out: buf.String(), Wall: time.Since(t0)}
	if ctx.Err() == context.DeadlineExceeded {
		res.TimedOut = true
	}
	if err != nil {
		if ee, ok := err.(*exec.ExitError); ok {
			res.ExitCode = ee.ExitCode()
		} else {
			res.ExitCode = -1
		}
	}
	res.parse()
	return res
}

func (res *Result) parse() {
	out := res.Out
	if ms := reStates.FindAllStringSubmatch(out, -1); len(ms) > 0 {
		m := ms[len(ms)-1]
		res.Generated, _ = strconv.ParseInt(m[1], 10, 64)
		res.Distinct, _ = strconv.ParseInt(m[2], 10, 64)
	} else if m := reSimGen.FindStringSubmatch(out); m != nil {
		res.Generated, _ = strconv.ParseInt(m[1], 10, 64)
		res.Distinct = res.Generated
	}
	if m := reDepth.FindStringSubmatch(out); m != nil {
		res.Depth, _ = strconv.ParseInt(m[1], 10, 64)
	}
	res.NoError = strings.Contains(out, "Model checking completed. No error has been found.")
	if m := reInv.FindStringSubmatch(out); m != nil {
		res.Violated = m[1]
	} else if strings.Contains(out, "is violated") || strings.Contains(out, "was violated") {
		if m := reProp.FindStringSubmatch(out); m != nil {
			res.Violated = "property:" + m[1]
		} else {
			res.Violated = "property"
		}
	}
	if strings.Contains(out, "Postcondition") && strings.Contains(out, "false") ||
		strings.Contains(out, "postcondition") && strings.Contains(out, "violated") {
		res.Violated = "postcondition"
	}
	if strings.Contains(out, "Deadlock reached") {
		res.Deadlock = true
	}
	// Tool-level failures: parse errors, evaluation errors, OOM, stack overflow
	if res.Violated == "" && !res.Deadlock && !res.NoError && res.ExitCode != 0 {
		res.TLCError = true
	}
	if strings.Contains(out, "Error: Evaluating") || strings.Contains(out, "TLC threw an unexpected exception") ||
		strings.Contains(out, "StackOverflowError") || strings.Contains(out, "OutOfMemoryError") ||
		strings.Contains(out, "Parsing or semantic analysis failed") {
		res.TLCError = true
	}
	for _, ln := range strings.Split(out, "\n") {
		if strings.HasPrefix(ln, `<<"H", `) && strings.HasSuffix(ln, ">>") {
			q := strings.TrimSuffix(strings.TrimPrefix(ln, `<<"H", `), ">>")
			if s, err := strconv.Unquote(q); err == nil {
				res.Prints = append(res.Prints, s)
			}
		}
		if strings.HasSuffix(ln, ": 0") && strings.Contains(ln, "line ") {
			res.ZeroCover = append(res.ZeroCover, strings.TrimSpace(ln))
		}
	}
}

// Sany parses a module and reports whether it is syntactically/semantically fine.
func Sany(dir, module string) (bool, string) {
	ctx, cancel := context.WithTimeout(context.Background(), 2*time.Minute)
	defer cancel()
	cmd := exec.CommandContext(ctx, "java", "-cp", Jar+":"+Deps, "tla2sany.SANY", module+".tla")
	cmd.Dir = dir
	out, err := cmd.CombinedOutput()
	return err == nil && !bytes.Contains(out, []byte("*** Errors")) && !bytes.Contains(out, []byte("Fatal errors")), string(out)
}

// CopySpecs copies all *.tla / *.cfg from the given directories into dst.
func CopySpecs(dst string, dirs ...string) error {
	if err := os.MkdirAll(dst, 0755); err != nil {
		return err
	}
	for _, d := range dirs {
		ents, err := os.ReadDir(d)
		if err != nil {
			return err
		}
		for _, e := range ents {
			n := e.Name()
			if e.IsDir() || !(strings.HasSuffix(n, ".tla") || strings.HasSuffix(n, ".cfg") || strings.HasSuffix(n, ".v")) {
				continue
			}
			b, err := os.ReadFile(filepath.Join(d, n))
			if err != nil {
				return err
			}
			if err := os.WriteFile(filepath.Join(dst, n), b, 0644); err != nil {
				return err
			}
		}
	}
	return nil
}

// Tail returns the last n lines of s.
func Tail(s string, n int) string {
	ls := strings.Split(strings.TrimRight(s, "\n"), "\n")
	if len(ls) > n {
		ls = ls[len(ls)-n:]
	}
	return strings.Join(ls, "\n")
}
