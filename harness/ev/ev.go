// Package ev holds the per-check context: evidence, violations, known findings.
package ev

import (
	"encoding/json"
	"fmt"
	"os"
	"path/filepath"
	"sort"
	"strings"
	"sync"
	"time"

	"verif/tlc"
)

type Finding struct {
	Property string `json:"property"`
	Status   string `json:"status"` // known | fixed
	Key      string `json:"key"`
	Witness  string `json:"witness,omitempty"`
	What     string `json:"what"`
	Commit   string `json:"commit,omitempty"`
}

type Ctx struct {
	ID, Tier string
	Seed     int64
	Verif    string // /verif
	Repo     string // /repo
	Scratch  string // per-run scratch dir (removed by ./check)
	Bin      string // dir with goose, test_gen built from the working tree
	Level    string

	mu           sync.Mutex
	start        time.Time
	Cov          map[string]any
	Assumptions  []string
	violations   []string
	inconclusive []string
	findings     []Finding
	knownSeen    map[string]bool
	states       int64
	transitions  int64
	traces       int64
	samples      []any
}

func New(id, tier string, seed int64, verif, repo, scratch string) *Ctx {
	c := &Ctx{ID: id, Tier: tier, Seed: seed, Verif: verif, Repo: repo, Scratch: scratch,
		start: time.Now(), Cov: map[string]any{}, knownSeen: map[string]bool{}}
	b, err := os.ReadFile(filepath.Join(verif, "known_findings.json"))
	if err == nil {
		_ = json.Unmarshal(b, &c.findings)
	}
	return c
}

func (c *Ctx) Quick() bool { return c.Tier != "thorough" }

// Pick returns q in the quick tier and t in the thorough tier.
func (c *Ctx) Pick(q, t int) int {
	if c.Quick() {
		return q
	}
	return t
}

// IsKnown reports whether key is listed as a known (unrepaired) finding for this property.
func (c *Ctx) IsKnown(key string) bool {
	for _, f := range c.findings {
		if f.Property == c.ID && f.Status == "known" && f.Key == key {
			return true
		}
	}
	return false
}

// Known prints the KNOWN-FINDING line for a listed finding that reproduced (once per key).
func (c *Ctx) Known(key, what string) {
	c.mu.Lock()
	defer c.mu.Unlock()
	if c.knownSeen[key] {
		return
	}
	c.knownSeen[key] = true
	fmt.Printf("KNOWN-FINDING: property=%s %s: %s\n", c.ID, key, firstLine(what))
}

// Report is the single entry point for a reproduced disagreement with a
// finding key: listed keys print KNOWN-FINDING, unlisted ones are violations.
func (c *Ctx) Report(key, what string, files map[string]string) {
	if c.IsKnown(key) {
		c.Known(key, what)
		return
	}
	c.Violation(key, what, files)
}

// Violation records a violation reproduced on real code, writes the replay
// directory and prints the VIOLATION line.
func (c *Ctx) Violation(slug, what string, files map[string]string) string {
	c.mu.Lock()
	defer c.mu.Unlock()
	slug = strings.Map(func(r rune) rune {
		if r >= 'a' && r <= 'z' || r >= 'A' && r <= 'Z' || r >= '0' && r <= '9' || r == '-' || r == '_' || r == '.' {
			return r
		}
		return '_'
	}, slug)
	dir := filepath.Join(c.Verif, "replays", c.ID, fmt.Sprintf("%s-seed%d-%d", slug, c.Seed, len(c.violations)))
	_ = os.RemoveAll(dir)
	_ = os.MkdirAll(dir, 0755)
	_ = os.WriteFile(filepath.Join(dir, "WHAT.txt"), []byte(what+"\n"), 0644)
	for n, b := range files {
		p := filepath.Join(dir, n)
		_ = os.MkdirAll(filepath.Dir(p), 0755)
		_ = os.WriteFile(p, []byte(b), 0644)
	}
	_ = os.WriteFile(filepath.Join(dir, "replay.sh"),
		[]byte(fmt.Sprintf("#!/bin/sh\ncd /verif && VERIF_SEED=%d ./check %s %s\n", c.Seed, c.ID, c.Tier)), 0755)
	c.violations = append(c.violations, dir)
	if len(c.violations) <= 20 {
		fmt.Printf("VIOLATION property=%s replay=%s\n", c.ID, dir)
		fmt.Printf("  what: %s\n", firstLine(what))
	}
	return dir
}

func firstLine(s string) string {
	if i := strings.IndexByte(s, '\n'); i >= 0 {
		return s[:i]
	}
	return s
}

func (c *Ctx) NViolations() int { c.mu.Lock(); defer c.mu.Unlock(); return len(c.violations) }

// Inconclusive records an infrastructure problem (never a violation).
func (c *Ctx) Inconclusive(format string, a ...any) {
	c.mu.Lock()
	defer c.mu.Unlock()
	m := fmt.Sprintf(format, a...)
	c.inconclusive = append(c.inconclusive, m)
	fmt.Fprintf(os.Stderr, "INCONCLUSIVE %s: %s\n", c.ID, m)
}

func (c *Ctx) AddTLC(r tlc.Result) {
	c.mu.Lock()
	defer c.mu.Unlock()
	c.transitions += r.Generated
	c.states += r.Distinct
}
func (c *Ctx) AddTraces(n int) { c.mu.Lock(); c.traces += int64(n); c.mu.Unlock() }
func (c *Ctx) Sample(s any) {
	c.mu.Lock()
	if len(c.samples) < 6 {
		c.samples = append(c.samples, s)
	}
	c.mu.Unlock()
}
func (c *Ctx) Set(k string, v any) { c.mu.Lock(); c.Cov[k] = v; c.mu.Unlock() }
func (c *Ctx) Inc(k string, n int) {
	c.mu.Lock()
	old, _ := c.Cov[k].(int)
	c.Cov[k] = old + n
	c.mu.Unlock()
}
func (c *Ctx) Assume(s ...string) { c.Assumptions = append(c.Assumptions, s...) }

// SpecDir copies the named spec sub-directories into a fresh scratch directory.
func (c *Ctx) SpecDir(name string, subdirs ...string) (string, error) {
	dst := filepath.Join(c.Scratch, name)
	var dirs []string
	for _, s := range subdirs {
		dirs = append(dirs, filepath.Join(c.Verif, "spec", s))
	}
	return dst, tlc.CopySpecs(dst, dirs...)
}

// CheckTLC interprets a design-level (spec only) TLC run: anything other than
// a clean completion is a defect of the machinery => inconclusive.
func (c *Ctx) CheckTLC(what string, r tlc.Result) bool {
	c.AddTLC(r)
	if r.NoError && r.Violated == "" && !r.TLCError && !r.TimedOut {
		return true
	}
	c.Inconclusive("%s: TLC did not complete cleanly (violated=%q deadlock=%v timeout=%v exit=%d)\n%s",
		what, r.Violated, r.Deadlock, r.TimedOut, r.ExitCode, tlc.Tail(r.Out, 25))
	return false
}

// Finish writes the evidence file and returns the process exit code.
func (c *Ctx) Finish() int {
	c.mu.Lock()
	defer c.mu.Unlock()
	cov := c.Cov
	if c.states > 0 {
		cov["states"] = c.states
		cov["transitions"] = c.transitions
	}
	if _, ok := cov["traces_validated_against_impl"]; !ok {
		cov["traces_validated_against_impl"] = c.traces
	}
	if len(c.samples) > 0 {
		cov["samples"] = c.samples
	}
	if len(c.inconclusive) > 0 {
		cov["inconclusive"] = c.inconclusive
	}
	var ks []string
	for k := range c.knownSeen {
		ks = append(ks, k)
	}
	sort.Strings(ks)
	cov["known_findings_reproduced"] = ks
	if c.Assumptions == nil {
		c.Assumptions = []string{}
	}
	e := map[string]any{
		"property_id": c.ID, "tier": c.Tier, "seed": c.Seed, "level": c.Level,
		"coverage": cov, "assumptions": c.Assumptions,
		"wall_s": time.Since(c.start).Seconds(), "violations": len(c.violations),
	}
	b, _ := json.MarshalIndent(e, "", " ")
	_ = os.MkdirAll(filepath.Join(c.Verif, "evidence"), 0755)
	_ = os.WriteFile(filepath.Join(c.Verif, "evidence", c.ID+".json"), append(b, '\n'), 0644)
	if len(c.violations) > 0 {
		return 1
	}
	if len(c.inconclusive) > 0 {
		return 2
	}
	return 0
}
