// Package vparse reads the subset of Coq/GooseLang concrete syntax that goose
// emits, the way Coq would read it (Coq's lexical rules: nested comments,
// string literals lexed inside comments; Perennial's notation precedences),
// not the way the printer intended it.
package vparse

import (
	"fmt"
	"strings"
	"unicode"
	"unicode/utf8"
)

type TokKind int

const (
	TEOF TokKind = iota
	TIdent          // foo, slice.T, struct.mk, a'
	TString         // "..."   (Val = contents, "" unescaped)
	TLit            // # literal: Val = canonical text, see parser
	TSym            // punctuation / operator / keyword such as let: if: λ:
	TDot            // sentence-terminating '.'
)

type Token struct {
	Kind TokKind
	Val  string
	Pos  int
	Line int
}

func (t Token) String() string { return fmt.Sprintf("%d:%q", t.Line, t.Val) }

type LexError struct {
	Msg  string
	Line int
}

func (e *LexError) Error() string { return fmt.Sprintf("line %d: %s", e.Line, e.Msg) }

func isIdentStart(r rune) bool { return r == '_' || unicode.IsLetter(r) }
func isIdentPart(r rune) bool {
	return r == '_' || r == '\'' || unicode.IsLetter(r) || unicode.IsDigit(r)
}

var symbols = []string{ // longest first
	"<-[", "::=", ";;", ":=", "::", "&&", "||", "<>", "->", "![",
	"(", ")", "[", "]", ",", ";", ":", "~", "+", "-", "*", "=", "≠", "<", ">", "≤", "≥", "≪", "≫", "%", "`", "{", "}", "⊢", "|", "!", "@", "/", "\\", "^", "?", "&", "⊤", "Γ",
}

var keywords = map[string]bool{"let:": true, "if:": true, "rec:": true, "λ:": true, "for:": true, "match:": true}

// Lex tokenises src. Comments are skipped with Coq's rules.
func Lex(src string) ([]Token, error) {
	var toks []Token
	i, line := 0, 1
	n := len(src)
	for i < n {
		r, w := utf8.DecodeRuneInString(src[i:])
		switch {
		case r == '\n':
			line++
			i += w
		case unicode.IsSpace(r):
			i += w
		case r == '(' && i+1 < n && src[i+1] == '*':
			// comment: nested, strings are lexed inside comments
			depth := 1
			start := line
			i += 2
			for i < n && depth > 0 {
				switch {
				case src[i] == '(' && i+1 < n && src[i+1] == '*':
					depth++
					i += 2
				case src[i] == '*' && i+1 < n && src[i+1] == ')':
					depth--
					i += 2
				case src[i] == '"':
					i++
					for i < n {
						if src[i] == '"' {
							if i+1 < n && src[i+1] == '"' {
								i += 2
								continue
							}
							break
						}
						if src[i] == '\n' {
							line++
						}
						i++
					}
					if i >= n {
						return toks, &LexError{"unterminated string inside comment", start}
					}
					i++
				default:
					if src[i] == '\n' {
						line++
					}
					i++
				}
			}
			if depth > 0 {
				return toks, &LexError{"unterminated comment", start}
			}
		case r == '"':
			start := line
			j := i + 1
			var sb strings.Builder
			closed := false
			for j < n {
				if src[j] == '"' {
					if j+1 < n && src[j+1] == '"' {
						sb.WriteByte('"')
						j += 2
						continue
					}
					closed = true
					break
				}
				if src[j] == '\n' {
					line++
				}
				sb.WriteByte(src[j])
				j++
			}
			if !closed {
				return toks, &LexError{"unterminated string", start}
			}
			toks = append(toks, Token{TString, sb.String(), i, start})
			i = j + 1
		case r == '#':
			toks = append(toks, Token{TSym, "#", i, line})
			i += w
		case r == '.':
			// sentence terminator iff followed by blank or EOF
			if i+1 >= n || src[i+1] == ' ' || src[i+1] == '\n' || src[i+1] == '\t' || src[i+1] == '\r' {
				toks = append(toks, Token{TDot, ".", i, line})
			} else {
				toks = append(toks, Token{TSym, ".", i, line})
			}
			i++
		case r == 'λ' && strings.HasPrefix(src[i:], "λ:"):
			toks = append(toks, Token{TSym, "λ:", i, line})
			i += len("λ:")
		case isIdentStart(r):
			j := i
			for j < n {
				r2, w2 := utf8.DecodeRuneInString(src[j:])
				if isIdentPart(r2) {
					j += w2
					continue
				}
				// qualified identifier: '.' immediately followed by an identifier start
				if r2 == '.' && j+1 < n {
					r3, _ := utf8.DecodeRuneInString(src[j+1:])
					if isIdentStart(r3) {
						j += w2
						continue
					}
				}
				break
			}
			word := src[i:j]
			if j < n && src[j] == ':' && keywords[word+":"] {
				toks = append(toks, Token{TSym, word + ":", i, line})
				i = j + 1
			} else {
				toks = append(toks, Token{TIdent, word, i, line})
				i = j
			}
		case unicode.IsDigit(r):
			j := i
			for j < n && src[j] >= '0' && src[j] <= '9' {
				j++
			}
			toks = append(toks, Token{TIdent, src[i:j], i, line}) // numerals appear only inside # literals
			i = j
		default:
			matched := false
			for _, s := range symbols {
				if strings.HasPrefix(src[i:], s) {
					toks = append(toks, Token{TSym, s, i, line})
					i += len(s)
					matched = true
					break
				}
			}
			if !matched {
				toks = append(toks, Token{TSym, string(r), i, line})
				i += w
			}
		}
	}
	toks = append(toks, Token{TEOF, "", n, line})
	return toks, nil
}
