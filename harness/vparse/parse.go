package vparse

import (
	"fmt"
	"strings"
)

// Node is a GooseLang / Gallina term as Coq would parse the emitted text.
//
//	Kind      meaning                          fields
//	id        Gallina identifier               Name
//	str       quoted string ("x": a GooseLang variable or a Gallina string, by context)  Name
//	anon      <>
//	lit       # literal                        Name = u64|u32|u8|bool|unit|null|str, Val
//	app       application                      Kids[0] head, Kids[1:] arguments
//	binop     Name = operator                  Kids[0], Kids[1]
//	not       ~ e                              Kids[0]
//	deref     ![t] e                           Kids[0] = t, Kids[1] = e
//	store     e1 <-[t] e2                      Kids = dst, t, val
//	let       let: pat := e1 in e2             Binders (left-nested pair pattern flattened), Kids = e1, e2
//	seq       e1 ;; e2                         Kids
//	if        if: c then a else b              Kids
//	lam       λ: binders, e                    Binders, Kids[0]
//	rec       rec: f binders := e              Name = f, Binders, Kids[0]
//	for       for: c; p := b                   Kids = c, p, b
//	tuple     (a, b, ...)                      Kids
//	list      [ a; b; ... ]                    Kids
//	fieldval  "f" ::= e                        Name, Kids[0]
//	fielddecl "f" :: t                         Name, Kids[0]
//	arrow     t1 -> t2 (types)                 Kids
type Node struct {
	Kind    string   `json:"k"`
	Name    string   `json:"n,omitempty"`
	Val     string   `json:"v,omitempty"`
	Binders []string `json:"b,omitempty"`
	Kids    []*Node  `json:"c,omitempty"`
	Line    int      `json:"-"`
}

// Decl is one vernacular sentence goose emits.
type Decl struct {
	Kind       string   // def | structdecl | tydef | notation | theorem | other
	Name       string
	TypeParams []string // Definition f (T:ty) ...
	Sort       string   // val | expr | ty | ""
	Body       *Node
	Line       int
}

type File struct {
	Decls   []Decl
	Header  []string // Require / Section / Context / Coercion / End sentences, verbatim tokens joined
	Section bool
}

type ParseError struct {
	Msg  string
	Line int
}

func (e *ParseError) Error() string { return fmt.Sprintf("line %d: %s", e.Line, e.Msg) }

type parser struct {
	toks []Token
	p    int
}

func (ps *parser) peek() Token { return ps.toks[ps.p] }
func (ps *parser) next() Token  { t := ps.toks[ps.p]; if t.Kind != TEOF { ps.p++ }; return t }
func (ps *parser) isSym(s string) bool {
	t := ps.peek()
	return t.Kind == TSym && t.Val == s
}
func (ps *parser) isIdent(s string) bool {
	t := ps.peek()
	return t.Kind == TIdent && t.Val == s
}
func (ps *parser) fail(format string, a ...any) {
	panic(&ParseError{fmt.Sprintf(format, a...) + fmt.Sprintf(" (at %s)", ps.peek()), ps.peek().Line})
}
func (ps *parser) expectSym(s string) {
	if !ps.isSym(s) {
		ps.fail("expected %q", s)
	}
	ps.next()
}
func (ps *parser) expectIdent(s string) {
	if !ps.isIdent(s) {
		ps.fail("expected %q", s)
	}
	ps.next()
}

// DeclError is a definition that could not be parsed (ParseFileLenient).
type DeclError struct {
	Name string
	Err  error
}

// ParseFileLenient parses what it can: a sentence that does not parse is skipped (up to the next
// "Definition"/"Notation" keyword that starts a line) and reported with the name it tried to define.
func ParseFileLenient(src string) (*File, []DeclError) {
	f, err := ParseFile(src)
	if err == nil {
		return f, nil
	}
	// split into chunks at lines starting a new vernacular sentence and parse each chunk on its own
	lines := strings.Split(src, "\n")
	var chunks []string
	var cur []string
	flush := func() {
		if len(cur) > 0 {
			chunks = append(chunks, strings.Join(cur, "\n"))
			cur = nil
		}
	}
	for _, ln := range lines {
		if strings.HasPrefix(ln, "Definition ") || strings.HasPrefix(ln, "Notation ") || strings.HasPrefix(ln, "Theorem ") ||
			strings.HasPrefix(ln, "From ") || strings.HasPrefix(ln, "Section ") || strings.HasPrefix(ln, "End ") || strings.HasPrefix(ln, "(* ") {
			flush()
		}
		cur = append(cur, ln)
	}
	flush()
	out := &File{}
	var errs []DeclError
	for _, ch := range chunks {
		pf, err := ParseFile(ch)
		if err != nil {
			name := ""
			fs := strings.Fields(ch)
			if len(fs) > 1 && (fs[0] == "Definition" || fs[0] == "Notation") {
				name = strings.TrimSuffix(fs[1], ":")
			}
			errs = append(errs, DeclError{Name: name, Err: err})
			continue
		}
		out.Decls = append(out.Decls, pf.Decls...)
		out.Header = append(out.Header, pf.Header...)
		out.Section = out.Section || pf.Section
	}
	return out, errs
}

// ParseFile parses a whole emitted .v file.
func ParseFile(src string) (f *File, err error) {
	toks, lerr := Lex(src)
	if lerr != nil {
		return nil, lerr
	}
	ps := &parser{toks: toks}
	defer func() {
		if r := recover(); r != nil {
			if pe, ok := r.(*ParseError); ok {
				err = pe
				return
			}
			panic(r)
		}
	}()
	f = &File{}
	for ps.peek().Kind != TEOF {
		t := ps.peek()
		switch {
		case t.Kind == TIdent && t.Val == "Definition":
			f.Decls = append(f.Decls, ps.definition())
		case t.Kind == TIdent && t.Val == "Notation":
			f.Decls = append(f.Decls, ps.notation())
		case t.Kind == TIdent && (t.Val == "Theorem" || t.Val == "Proof" || t.Val == "Hint" || t.Val == "Qed"):
			name := ""
			if t.Val == "Theorem" && ps.toks[ps.p+1].Kind == TIdent {
				name = ps.toks[ps.p+1].Val
			}
			ps.skipSentence()
			if t.Val == "Theorem" {
				f.Decls = append(f.Decls, Decl{Kind: "theorem", Name: name, Line: t.Line})
				// the proof script: sentences up to and including Qed.
				for ps.peek().Kind != TEOF {
					q := ps.peek()
					ps.skipSentence()
					if q.Kind == TIdent && q.Val == "Qed" {
						break
					}
				}
			}
		case t.Kind == TIdent && (t.Val == "From" || t.Val == "Section" || t.Val == "Context" || t.Val == "Local" || t.Val == "End" || t.Val == "Require" || t.Val == "Import"):
			if t.Val == "Section" {
				f.Section = true
			}
			f.Header = append(f.Header, ps.skipSentence())
		default:
			ps.fail("unexpected start of sentence")
		}
	}
	return f, nil
}

func (ps *parser) skipSentence() string {
	var parts []string
	for {
		t := ps.next()
		if t.Kind == TEOF {
			ps.fail("unterminated sentence")
		}
		if t.Kind == TDot {
			break
		}
		if t.Kind == TString {
			parts = append(parts, `"`+t.Val+`"`)
		} else {
			parts = append(parts, t.Val)
		}
	}
	return strings.Join(parts, " ")
}

func (ps *parser) endSentence() {
	if ps.peek().Kind != TDot {
		ps.fail("expected end of sentence '.'")
	}
	ps.next()
}

func (ps *parser) definition() Decl {
	line := ps.peek().Line
	ps.expectIdent("Definition")
	nameTok := ps.next()
	if nameTok.Kind != TIdent {
		ps.fail("definition name")
	}
	d := Decl{Kind: "def", Name: nameTok.Val, Line: line}
	for ps.isSym("(") { // (T:ty)
		ps.next()
		tp := ps.next()
		ps.expectSym(":")
		ps.expectIdent("ty")
		ps.expectSym(")")
		d.TypeParams = append(d.TypeParams, tp.Val)
	}
	if ps.isSym(":") {
		ps.next()
		s := ps.next()
		d.Sort = s.Val
	}
	ps.expectSym(":=")
	if ps.isIdent("struct.decl") {
		ps.next()
		d.Kind = "structdecl"
		d.Body = ps.list()
	} else {
		d.Body = ps.expr(200)
		if d.Sort == "ty" {
			d.Kind = "tydef"
		}
	}
	ps.endSentence()
	return d
}

func (ps *parser) notation() Decl {
	line := ps.peek().Line
	ps.expectIdent("Notation")
	nameTok := ps.next()
	ps.expectSym(":=")
	// hide the "(" of the trailing "(only parsing)" from the term parser
	for i := ps.p; i+1 < len(ps.toks) && ps.toks[i].Kind != TDot; i++ {
		if ps.toks[i].Kind == TSym && ps.toks[i].Val == "(" && ps.toks[i+1].Kind == TIdent && ps.toks[i+1].Val == "only" {
			ps.toks[i].Val = "@only("
		}
	}
	body := ps.expr(200)
	ps.expectSym("@only(")
	ps.expectIdent("only")
	ps.expectIdent("parsing")
	ps.expectSym(")")
	ps.endSentence()
	return Decl{Kind: "notation", Name: nameTok.Val, Sort: "ty", Body: body, Line: line}
}

// binary operator table: operator -> (level, right-assoc)
type opInfo struct {
	level int
	right bool
}

var binops = map[string]opInfo{
	"->": {99, true},
	"=": {70, false}, "≠": {70, false}, "<": {70, false}, ">": {70, false}, "≤": {70, false}, "≥": {70, false},
	"+": {50, false}, "-": {50, false}, "||": {50, false}, "`or`": {50, false}, "`xor`": {50, false},
	"*": {40, false}, "&&": {40, false}, "`and`": {40, false},
	"`quot`": {35, false}, "`rem`": {35, false}, "≪": {35, false}, "≫": {35, false},
}

func (ps *parser) peekBinop() (string, opInfo, bool) {
	t := ps.peek()
	if t.Kind != TSym {
		return "", opInfo{}, false
	}
	if t.Val == "`" {
		if ps.toks[ps.p+1].Kind == TIdent && ps.toks[ps.p+2].Kind == TSym && ps.toks[ps.p+2].Val == "`" {
			op := "`" + ps.toks[ps.p+1].Val + "`"
			if oi, ok := binops[op]; ok {
				return op, oi, true
			}
		}
		return "", opInfo{}, false
	}
	oi, ok := binops[t.Val]
	return t.Val, oi, ok
}

func (ps *parser) consumeBinop(op string) {
	if strings.HasPrefix(op, "`") {
		ps.next()
		ps.next()
		ps.next()
	} else {
		ps.next()
	}
}

// expr parses an expression whose outermost construct has level <= maxLevel.
func (ps *parser) expr(maxLevel int) *Node {
	t := ps.peek()
	line := t.Line
	if maxLevel >= 200 && t.Kind == TSym {
		switch t.Val {
		case "let:":
			ps.next()
			binders := ps.pattern()
			ps.expectSym(":=")
			e1 := ps.expr(200)
			ps.expectIdent("in")
			e2 := ps.expr(200)
			return &Node{Kind: "let", Binders: binders, Kids: []*Node{e1, e2}, Line: line}
		case "if:":
			ps.next()
			c := ps.expr(200)
			ps.expectIdent("then")
			a := ps.expr(200)
			ps.expectIdent("else")
			b := ps.expr(200)
			return &Node{Kind: "if", Kids: []*Node{c, a, b}, Line: line}
		case "λ:":
			ps.next()
			var bs []string
			for !ps.isSym(",") {
				bs = append(bs, ps.binder())
			}
			ps.expectSym(",")
			body := ps.expr(200)
			return &Node{Kind: "lam", Binders: bs, Kids: []*Node{body}, Line: line}
		case "rec:":
			ps.next()
			f := ps.binder()
			var bs []string
			for !ps.isSym(":=") {
				bs = append(bs, ps.binder())
			}
			ps.expectSym(":=")
			body := ps.expr(200)
			return &Node{Kind: "rec", Name: f, Binders: bs, Kids: []*Node{body}, Line: line}
		case "for:":
			ps.next()
			c := ps.expr(99)
			ps.expectSym(";")
			p := ps.expr(99)
			ps.expectSym(":=")
			b := ps.expr(200)
			return &Node{Kind: "for", Kids: []*Node{c, p, b}, Line: line}
		}
	}
	lhs := ps.exprBin(min(maxLevel, 99))
	// e1 <-[t] e2 at level 80
	if maxLevel >= 80 && ps.isSym("<-[") {
		ps.next()
		ty := ps.expr(200)
		ps.expectSym("]")
		rhs := ps.exprBin(79)
		lhs = &Node{Kind: "store", Kids: []*Node{lhs, ty, rhs}, Line: line}
	}
	// e1 ;; e2 at level 100, e2 at level 200
	if maxLevel >= 100 && ps.isSym(";;") {
		ps.next()
		rhs := ps.expr(200)
		return &Node{Kind: "seq", Kids: []*Node{lhs, rhs}, Line: line}
	}
	return lhs
}

// exprBin: precedence climbing for infix operators below level 100.
func (ps *parser) exprBin(maxLevel int) *Node {
	line := ps.peek().Line
	var lhs *Node
	if maxLevel >= 75 && ps.isSym("~") {
		ps.next()
		x := ps.exprBin(75)
		lhs = &Node{Kind: "not", Kids: []*Node{x}, Line: line}
	} else {
		lhs = ps.app()
	}
	for {
		op, oi, ok := ps.peekBinop()
		if !ok || oi.level > maxLevel {
			return lhs
		}
		ps.consumeBinop(op)
		var rhs *Node
		if oi.right {
			rhs = ps.exprBin(oi.level)
		} else {
			rhs = ps.exprBin(oi.level - 1)
		}
		kind := "binop"
		if op == "->" {
			kind = "arrow"
		}
		lhs = &Node{Kind: kind, Name: op, Kids: []*Node{lhs, rhs}, Line: line}
	}
}

func (ps *parser) startsAtom() bool {
	t := ps.peek()
	switch t.Kind {
	case TIdent:
		switch t.Val {
		case "in", "then", "else":
			return false
		}
		return true
	case TString:
		return true
	case TSym:
		switch t.Val {
		case "(", "#", "<>", "![", "[":
			return true
		}
	}
	return false
}

// app: application at level 10 (arguments at level 9)
func (ps *parser) app() *Node {
	line := ps.peek().Line
	head := ps.arg()
	var args []*Node
	for ps.startsAtom() {
		args = append(args, ps.arg())
	}
	if len(args) == 0 {
		return head
	}
	return &Node{Kind: "app", Kids: append([]*Node{head}, args...), Line: line}
}

// arg: level 9 — ![t] e (right assoc) or an atom
func (ps *parser) arg() *Node {
	line := ps.peek().Line
	if ps.isSym("![") {
		ps.next()
		ty := ps.expr(200)
		ps.expectSym("]")
		e := ps.arg()
		return &Node{Kind: "deref", Kids: []*Node{ty, e}, Line: line}
	}
	return ps.atom()
}

func (ps *parser) atom() *Node {
	t := ps.next()
	switch t.Kind {
	case TIdent:
		return &Node{Kind: "id", Name: t.Val, Line: t.Line}
	case TString:
		return &Node{Kind: "str", Name: t.Val, Line: t.Line}
	case TSym:
		switch t.Val {
		case "<>":
			return &Node{Kind: "anon", Line: t.Line}
		case "#":
			return ps.literal(t.Line)
		case "[":
			ps.p--
			return ps.list()
		case "(":
			if ps.isSym(")") {
				ps.fail("empty parentheses")
			}
			e := ps.expr(200)
			if ps.isSym(",") {
				kids := []*Node{e}
				for ps.isSym(",") {
					ps.next()
					kids = append(kids, ps.expr(200))
				}
				ps.expectSym(")")
				ps.scope()
				return &Node{Kind: "tuple", Kids: kids, Line: t.Line}
			}
			ps.expectSym(")")
			ps.scope()
			return e
		}
	}
	ps.p--
	ps.fail("expected a term")
	return nil
}

// scope skips a %ht style scope delimiter
func (ps *parser) scope() {
	if ps.isSym("%") {
		ps.next()
		ps.next()
	}
}

func (ps *parser) literal(line int) *Node {
	t := ps.next()
	switch {
	case t.Kind == TIdent && t.Val == "true":
		return &Node{Kind: "lit", Name: "bool", Val: "true", Line: line}
	case t.Kind == TIdent && t.Val == "false":
		return &Node{Kind: "lit", Name: "bool", Val: "false", Line: line}
	case t.Kind == TIdent && t.Val == "null":
		return &Node{Kind: "lit", Name: "null", Line: line}
	case t.Kind == TIdent && len(t.Val) > 0 && t.Val[0] >= '0' && t.Val[0] <= '9':
		return &Node{Kind: "lit", Name: "u64", Val: t.Val, Line: line}
	case t.Kind == TSym && t.Val == "(":
		if ps.isSym(")") {
			ps.next()
			return &Node{Kind: "lit", Name: "unit", Line: line}
		}
		k := ps.next()
		switch k.Val {
		case "U32", "U8":
			v := ps.next()
			ps.expectSym(")")
			name := "u32"
			if k.Val == "U8" {
				name = "u8"
			}
			return &Node{Kind: "lit", Name: name, Val: v.Val, Line: line}
		case "str":
			s := ps.next()
			if s.Kind != TString {
				ps.fail("string literal")
			}
			ps.expectSym(")")
			return &Node{Kind: "lit", Name: "str", Val: s.Val, Line: line}
		}
	}
	ps.p--
	ps.fail("unknown # literal")
	return nil
}

func (ps *parser) binder() string {
	t := ps.next()
	if t.Kind == TString {
		return t.Val
	}
	if t.Kind == TSym && t.Val == "<>" {
		return ""
	}
	ps.p--
	ps.fail("expected binder")
	return ""
}

// pattern: binder | ( pattern , binder ) — returns the flattened binder list
func (ps *parser) pattern() []string {
	if ps.isSym("(") {
		ps.next()
		l := ps.pattern()
		ps.expectSym(",")
		r := ps.binder()
		ps.expectSym(")")
		return append(l, r)
	}
	return []string{ps.binder()}
}

// list: [ item ; item ; ... ]  with items "f" ::= e | "f" :: t | e
func (ps *parser) list() *Node {
	line := ps.peek().Line
	ps.expectSym("[")
	n := &Node{Kind: "list", Line: line}
	for !ps.isSym("]") {
		if ps.peek().Kind == TString && ps.toks[ps.p+1].Kind == TSym && (ps.toks[ps.p+1].Val == "::=" || ps.toks[ps.p+1].Val == "::") {
			name := ps.next().Val
			sep := ps.next().Val
			var e *Node
			if sep == "::=" {
				// Perennial declares "f ::= v" at level 60 (as far as I remember); goose prints comparison
				// operators (level 70) unparenthesised here. Whether Coq accepts that cannot be checked offline,
				// so the value is read the way the printer intended (not judged).
				e = ps.expr(99)
				n.Kids = append(n.Kids, &Node{Kind: "fieldval", Name: name, Kids: []*Node{e}, Line: line})
			} else {
				e = ps.expr(59)
				n.Kids = append(n.Kids, &Node{Kind: "fielddecl", Name: name, Kids: []*Node{e}, Line: line})
			}
		} else {
			n.Kids = append(n.Kids, ps.expr(200))
		}
		if ps.isSym(";") {
			ps.next()
			if ps.isSym("]") {
				ps.fail("list ends with a separator (a ; must be followed by an element)")
			}
		} else if !ps.isSym("]") {
			ps.fail("expected ; or ] in list")
		}
	}
	ps.expectSym("]")
	return n
}

// String renders a node fully parenthesised (round-trip form).
func (n *Node) String() string {
	if n == nil {
		return "<nil>"
	}
	bs := func(b []string) string {
		var xs []string
		for _, x := range b {
			if x == "" {
				xs = append(xs, "<>")
			} else {
				xs = append(xs, `"`+x+`"`)
			}
		}
		return strings.Join(xs, " ")
	}
	kids := func() []string {
		var xs []string
		for _, k := range n.Kids {
			xs = append(xs, k.String())
		}
		return xs
	}
	switch n.Kind {
	case "id":
		return n.Name
	case "str":
		return `"` + strings.ReplaceAll(n.Name, `"`, `""`) + `"`
	case "anon":
		return "<>"
	case "lit":
		switch n.Name {
		case "u64":
			return "#" + n.Val
		case "u32":
			return "#(U32 " + n.Val + ")"
		case "u8":
			return "#(U8 " + n.Val + ")"
		case "bool":
			return "#" + n.Val
		case "unit":
			return "#()"
		case "null":
			return "#null"
		case "str":
			return `#(str"` + n.Val + `")`
		}
	case "app":
		return "(" + strings.Join(kids(), " ") + ")"
	case "binop", "arrow":
		return "(" + n.Kids[0].String() + " " + n.Name + " " + n.Kids[1].String() + ")"
	case "not":
		return "(~ " + n.Kids[0].String() + ")"
	case "deref":
		return "(![" + n.Kids[0].String() + "] " + n.Kids[1].String() + ")"
	case "store":
		return "(" + n.Kids[0].String() + " <-[" + n.Kids[1].String() + "] " + n.Kids[2].String() + ")"
	case "let":
		pat := ""
		for i, b := range n.Binders {
			x := "<>"
			if b != "" {
				x = `"` + b + `"`
			}
			if i == 0 {
				pat = x
			} else {
				pat = "(" + pat + ", " + x + ")"
			}
		}
		return "(let: " + pat + " := " + n.Kids[0].String() + " in " + n.Kids[1].String() + ")"
	case "seq":
		return "(" + n.Kids[0].String() + ";; " + n.Kids[1].String() + ")"
	case "if":
		return "(if: " + n.Kids[0].String() + " then " + n.Kids[1].String() + " else " + n.Kids[2].String() + ")"
	case "lam":
		return "(λ: " + bs(n.Binders) + ", " + n.Kids[0].String() + ")"
	case "rec":
		f := "<>"
		if n.Name != "" {
			f = `"` + n.Name + `"`
		}
		return "(rec: " + f + " " + bs(n.Binders) + " := " + n.Kids[0].String() + ")"
	case "for":
		return "(for: " + n.Kids[0].String() + "; " + n.Kids[1].String() + " := " + n.Kids[2].String() + ")"
	case "tuple":
		return "(" + strings.Join(kids(), ", ") + ")"
	case "list":
		return "[" + strings.Join(kids(), "; ") + "]"
	case "fieldval":
		return `"` + n.Name + `" ::= ` + n.Kids[0].String()
	case "fielddecl":
		return `"` + n.Name + `" :: ` + n.Kids[0].String()
	}
	return "<?" + n.Kind + ">"
}

// Walk calls f on n and all descendants.
func (n *Node) Walk(f func(*Node)) {
	if n == nil {
		return
	}
	f(n)
	for _, k := range n.Kids {
		k.Walk(f)
	}
}
