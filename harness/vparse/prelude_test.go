package vparse

import (
	"os"
	"testing"
)

func TestPrelude(t *testing.T) {
	b, err := os.ReadFile("/verif/spec/gooselang/prelude.v")
	if err != nil {
		t.Skip(err)
	}
	f, err := ParseFile(string(b))
	if err != nil {
		t.Fatal(err)
	}
	t.Logf("%d prelude definitions", len(f.Decls))
}
