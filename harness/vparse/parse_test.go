package vparse

import (
	"os"
	"path/filepath"
	"testing"
)

func TestGold(t *testing.T) {
	files, _ := filepath.Glob("/repo/internal/examples/*/*.gold.v")
	more, _ := filepath.Glob("/repo/internal/examples/*/*/*.gold.v")
	files = append(files, more...)
	if len(files) == 0 {
		t.Fatal("no gold files")
	}
	for _, f := range files {
		b, _ := os.ReadFile(f)
		pf, err := ParseFile(string(b))
		if err != nil {
			t.Errorf("%s: %v", f, err)
			continue
		}
		// round trip: fully parenthesised form re-parses to the same tree
		for _, d := range pf.Decls {
			if d.Body == nil || d.Kind == "structdecl" {
				continue
			}
			s := d.Body.String()
			toks, err := Lex(s + " .")
			if err != nil {
				t.Errorf("%s %s: relex: %v", f, d.Name, err)
				continue
			}
			ps := &parser{toks: toks}
			var n2 *Node
			func() {
				defer func() {
					if r := recover(); r != nil {
						t.Errorf("%s %s: reparse: %v\n%s", f, d.Name, r, s)
					}
				}()
				n2 = ps.expr(200)
			}()
			if n2 != nil && n2.String() != s {
				t.Errorf("%s %s: round trip differs:\n%s\n%s", f, d.Name, s, n2.String())
			}
		}
		t.Logf("%s: %d decls", filepath.Base(f), len(pf.Decls))
	}
}
