// prims386 replays the case table of Prims.tla on the encoding primitives. It is built for GOARCH=386 by ./check C15:
// the contracts are about 64-bit VALUES, whatever the width of the machine word.
package main

import (
	"encoding/json"
	"fmt"
	"os"

	"github.com/goose-lang/goose/machine"
)

type primCase struct {
	Len     int    `json:"len"`
	Slack   int    `json:"slack"`
	Prior   string `json:"prior"`
	W       []int  `json:"w"`
	Refused int    `json:"refused"`
	After   []int  `json:"after"`
}

func fill(p string, n int) []byte {
	b := make([]byte, n)
	for i := range b {
		switch p {
		case "zero":
			b[i] = 0
		case "ff":
			b[i] = 255
		default:
			b[i] = byte(((i+1)*37 + 11) % 256)
		}
	}
	return b
}

func catch(f func()) (p bool) {
	defer func() {
		if recover() != nil {
			p = true
		}
	}()
	f()
	return false
}

func main() {
	b, err := os.ReadFile(os.Args[1])
	if err != nil {
		fmt.Println("ERR", err)
		os.Exit(3)
	}
	var cases []primCase
	if err := json.Unmarshal(b, &cases); err != nil {
		fmt.Println("ERR", err)
		os.Exit(3)
	}
	const pre = 3
	n := 0
	for _, pc := range cases {
		mem := fill(pc.Prior, pre+pc.Len+pc.Slack)
		buf := mem[pre : pre+pc.Len : pre+pc.Len+pc.Slack]
		var x uint64
		for i := len(pc.W) - 1; i >= 0; i-- {
			x = x<<8 | uint64(pc.W[i])
		}
		var panicked bool
		if len(pc.W) == 8 {
			panicked = catch(func() { machine.UInt64Put(buf, x) })
		} else {
			panicked = catch(func() { machine.UInt32Put(buf, uint32(x)) })
		}
		bad := ""
		if (pc.Refused == 1) != panicked {
			bad = fmt.Sprintf("refused=%d but panicked=%v", pc.Refused, panicked)
		}
		for i := range mem {
			if bad == "" && int(mem[i]) != pc.After[i] {
				bad = fmt.Sprintf("byte %d of the backing array is %d, specification %d", i, mem[i], pc.After[i])
			}
		}
		if bad == "" && pc.Refused == 0 {
			var y uint64
			if len(pc.W) == 8 {
				y = machine.UInt64Get(buf)
			} else {
				y = uint64(machine.UInt32Get(buf))
			}
			if y != x {
				bad = fmt.Sprintf("Get returned %d, want %d", y, x)
			}
		}
		if bad != "" {
			fmt.Printf("MISMATCH value %d (limbs %v) buffer length %d: %s\n", x, pc.W, pc.Len, bad)
			os.Exit(1)
		}
		n++
	}
	fmt.Printf("PRIMS386-DONE %d cases\n", n)
}
