// prims386 replays the case table of Prims.tla on the encoding primitives. It is built for GOARCH=386 by ./check C15:
// the contracts are about 64-bit VALUES, whatever the width of the machine word.
package main

import (
	"encoding/json"
	"fmt"
	"os"

	"github.com/goose-lang/goose/machine"
)

type primCase struct {
	Len     int    `json:"len"`
	Slack   int    `json:"slack"`
	Prior   string `json:"prior"`
	W       []int  `json:"w"`
	Refused int    `json:"refused"`
	After   []int  `json:"after"`
}

func fill(p string, n int) []byte {
	b := make([]byte, n)
	for i := range b {
		switch p {
		case "zero":
			b[i] = 0
		case "ff":
			b[i] = 255
		default:
			b[i] = byte(((i+1)*37 + 11) % 256)
		}
	}
	return b
}

func catch(f func()) (p bool) {
	defer func() {
		if recover() != nil {
			p = true
		}
	}()
	f()
	return false
}

//go:noinline
func deep(d int, x uint64) string {
	if d > 0 {
		var pad [64]byte
		pad[d%64] = byte(d)
		r := deep(d-1, x)
		if pad[d%64] != byte(d) {
			return "padding changed"
		}
		return r
	}
	var b [16]byte
	for i := range b {
		b[i] = 0xA5
	}
	machine.UInt64Put(b[:8], x)
	for k := 0; k < 8; k++ {
		if b[k] != byte(x>>(8*uint(k))) {
			return fmt.Sprintf("UInt64Put(%d) left byte %d = %d", x, k, b[k])
		}
	}
	for k := 8; k < 16; k++ {
		if b[k] != 0xA5 {
			return fmt.Sprintf("UInt64Put(%d) changed byte %d behind the frame", x, k)
		}
	}
	var c [8]byte
	machine.UInt32Put(c[:4], uint32(x))
	if machine.UInt32Get(c[:4]) != uint32(x) || machine.UInt64Get(b[:8]) != x {
		return "Get does not invert Put"
	}
	return ""
}

func main() {
	b, err := os.ReadFile(os.Args[1])
	if err != nil {
		fmt.Println("ERR", err)
		os.Exit(3)
	}
	var cases []primCase
	if err := json.Unmarshal(b, &cases); err != nil {
		fmt.Println("ERR", err)
		os.Exit(3)
	}
	const pre = 3
	n := 0
	for _, pc := range cases {
		mem := fill(pc.Prior, pre+pc.Len+pc.Slack)
		buf := mem[pre : pre+pc.Len : pre+pc.Len+pc.Slack]
		var x uint64
		for i := len(pc.W) - 1; i >= 0; i-- {
			x = x<<8 | uint64(pc.W[i])
		}
		var panicked bool
		if len(pc.W) == 8 {
			panicked = catch(func() { machine.UInt64Put(buf, x) })
		} else {
			panicked = catch(func() { machine.UInt32Put(buf, uint32(x)) })
		}
		bad := ""
		if (pc.Refused == 1) != panicked {
			bad = fmt.Sprintf("refused=%d but panicked=%v", pc.Refused, panicked)
		}
		for i := range mem {
			if bad == "" && int(mem[i]) != pc.After[i] {
				bad = fmt.Sprintf("byte %d of the backing array is %d, specification %d", i, mem[i], pc.After[i])
			}
		}
		if bad == "" && pc.Refused == 0 {
			var y uint64
			if len(pc.W) == 8 {
				y = machine.UInt64Get(buf)
			} else {
				y = uint64(machine.UInt32Get(buf))
			}
			if y != x {
				bad = fmt.Sprintf("Get returned %d, want %d", y, x)
			}
		}
		if bad != "" {
			fmt.Printf("MISMATCH value %d (limbs %v) buffer length %d: %s\n", x, pc.W, pc.Len, bad)
			os.Exit(1)
		}
		n++
	}
	// a refused call must leave the primitives usable (no lock or state left behind)
	short := make([]byte, 3)
	catch(func() { machine.UInt64Put(short, 1) })
	catch(func() { machine.UInt64Get(short) })
	catch(func() { machine.UInt32Put(short, 1) })
	catch(func() { machine.UInt32Get(short) })
	ok8 := make([]byte, 8)
	machine.UInt64Put(ok8, 0x0102030405060708)
	if machine.UInt64Get(ok8) != 0x0102030405060708 || machine.UInt32Get(ok8) != 0x05060708 {
		fmt.Println("MISMATCH after refused calls: Put/Get of a good buffer no longer round-trips")
		os.Exit(1)
	}
	// buffers that live on the caller's stack, at many stack depths (the runtime moves stacks when they grow)
	for d := 0; d < 3000; d += 7 {
		res := make(chan string, 1)
		go func(d int) { res <- deep(d, uint64(d)*0x9E3779B97F4A7C15+1) }(d)
		if msg := <-res; msg != "" {
			fmt.Printf("MISMATCH with the buffer on the caller's stack at call depth %d: %s\n", d, msg)
			os.Exit(1)
		}
	}
	fmt.Printf("PRIMS386-DONE %d cases\n", n)
}
