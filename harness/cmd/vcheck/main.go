package main

import (
	"flag"
	"fmt"
	"os"

	"verif/checks"
	"verif/ev"
)

func main() {
	id := flag.String("id", "", "property id")
	tier := flag.String("tier", "quick", "quick|thorough")
	seed := flag.Int64("seed", 1, "seed")
	verif := flag.String("verif", "/verif", "")
	repo := flag.String("repo", "/repo", "")
	scratch := flag.String("scratch", "", "")
	bin := flag.String("bin", "", "dir with goose / test_gen binaries")
	child := flag.String("child", "", "internal: run as a child driver")
	flag.Parse()
	if *child != "" {
		os.Exit(checks.Child(*child, flag.Args()))
	}
	f, ok := checks.Registry[*id]
	if !ok {
		fmt.Fprintf(os.Stderr, "unknown property %q\n", *id)
		os.Exit(2)
	}
	c := ev.New(*id, *tier, *seed, *verif, *repo, *scratch)
	c.Bin = *bin
	f(c)
	os.Exit(c.Finish())
}
