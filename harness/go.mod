module verif

go 1.22

require (
	github.com/goose-lang/goose v0.0.0
	github.com/pkg/errors v0.9.1
)

require (
	github.com/goose-lang/primitive v0.1.0 // indirect
	golang.org/x/mod v0.19.0 // indirect
	golang.org/x/sync v0.7.0 // indirect
	golang.org/x/sys v0.22.0 // indirect
	golang.org/x/tools v0.23.0 // indirect
)

replace github.com/goose-lang/goose => /repo
