package checks

import (
	"encoding/json"
	"fmt"
	"math/big"
	"math/rand/v2"
	"os"
	"os/exec"
	"path/filepath"
	"runtime"
	"sort"
	"strings"
	"sync"
	"sync/atomic"
	"time"

	"github.com/goose-lang/goose/machine"

	"verif/ev"
	"verif/tlc"
)

func init() {
	Registry["C15"] = C15
	Registry["C16"] = C16
	children["race-prims"] = racePrimsChild
	children["wt-scenario"] = wtScenarioChild
}

// wtScenarioChild runs one WaitTimeout scenario in a process of its own: a lock left behind by a dead goroutine or a
// call that never returns cannot take the check down.
func wtScenarioChild(args []string) int {
	var s wtScenario
	if json.Unmarshal([]byte(args[0]), &s) != nil {
		return 3
	}
	evs, hung := runWT(s)
	b, _ := json.Marshal(map[string]any{"evs": evs, "hung": hung})
	fmt.Println("WTRES " + string(b))
	return 0
}

func runWTChild(s wtScenario) ([]map[string]any, bool) {
	self, _ := os.Executable()
	sb, _ := json.Marshal(s)
	out, _, timedOut := runWithDeadline(exec.Command(self, "-child", "wt-scenario", string(sb)), time.Duration(s.TimeoutMs)*time.Millisecond+15*time.Second)
	for _, ln := range strings.Split(out, "\n") {
		if strings.HasPrefix(ln, "WTRES ") {
			var r struct {
				Evs  []map[string]any `json:"evs"`
				Hung bool             `json:"hung"`
			}
			if json.Unmarshal([]byte(strings.TrimPrefix(ln, "WTRES ")), &r) == nil {
				for _, e := range r.Evs { // numbers come back as float64
					for k, v := range e {
						if f, ok := v.(float64); ok {
							e[k] = int(f)
						}
					}
				}
				return r.Evs, r.Hung
			}
		}
	}
	_ = timedOut
	// no result: the scenario process hung (or died): the call never returned as far as an observer can tell
	return []map[string]any{{"ev": "reset", "scenario": s.Name}, {"ev": "call", "t": 0, "timeout": int(s.TimeoutMs)},
		{"ev": "return", "t": int(s.TimeoutMs) + 15000, "held": 0, "hung": 1}}, true
}

// primsConcurrent: the per-call contracts hold for calls made at the same time from several goroutines on private
// buffers (the primitives are functions of their arguments; expected values are computed by arithmetic).
// what: "enc" (Put/Get) or "str" (UInt64ToString). Returns a description of the first call that broke its contract.
func primsConcurrent(what string, seed uint64, workers, iters int) string {
	var mu sync.Mutex
	bad := ""
	var wg sync.WaitGroup
	for g := 0; g < workers; g++ {
		wg.Add(1)
		go func(g int) {
			defer wg.Done()
			r := rand.New(rand.NewPCG(seed, uint64(g)+99))
			buf := make([]byte, 12)
			for i := 0; i < iters; i++ {
				x := r.Uint64()
				if i%3 == 0 {
					x = uint64(g+1) * 1007007007007007 // distinguishable per goroutine
				}
				msg := ""
				switch what {
				case "enc":
					for k := range buf {
						buf[k] = 0xA5
					}
					if i%2 == 0 {
						machine.UInt64Put(buf, x)
						for k := 0; k < 12 && msg == ""; k++ {
							want := byte(0xA5)
							if k < 8 {
								want = byte(x >> (8 * uint(k)))
							}
							if buf[k] != want {
								msg = fmt.Sprintf("UInt64Put(buf, %d) in goroutine %d left byte %d = %d, want %d (buffer %v)", x, g, k, buf[k], want, buf)
							}
						}
						if msg == "" && machine.UInt64Get(buf) != x {
							msg = fmt.Sprintf("UInt64Get after UInt64Put(%d) in goroutine %d returned %d", x, g, machine.UInt64Get(buf))
						}
					} else {
						y := uint32(x)
						machine.UInt32Put(buf, y)
						for k := 0; k < 12 && msg == ""; k++ {
							want := byte(0xA5)
							if k < 4 {
								want = byte(y >> (8 * uint(k)))
							}
							if buf[k] != want {
								msg = fmt.Sprintf("UInt32Put(buf, %d) in goroutine %d left byte %d = %d, want %d (buffer %v)", y, g, k, buf[k], want, buf)
							}
						}
						if msg == "" && machine.UInt32Get(buf) != y {
							msg = fmt.Sprintf("UInt32Get after UInt32Put(%d) in goroutine %d returned %d", y, g, machine.UInt32Get(buf))
						}
					}
				case "str":
					got := machine.UInt64ToString(x)
					if want := new(big.Int).SetUint64(x).String(); got != want {
						msg = fmt.Sprintf("UInt64ToString(%d) in goroutine %d returned %q", x, g, got)
					}
				}
				if msg != "" {
					mu.Lock()
					if bad == "" {
						bad = msg
					}
					mu.Unlock()
					return
				}
			}
		}(g)
	}
	wg.Wait()
	return bad
}

func racePrimsChild(args []string) int {
	seed := uint64(1)
	fmt.Sscan(args[0], &seed)
	a := primsConcurrent("enc", seed, 4, 3000)
	b := primsConcurrent("str", seed, 4, 3000)
	// neighbours: one goroutine encodes into the first 4 / 8 bytes of a buffer while another owns the bytes right
	// behind the frame ("leaves every other byte untouched" includes not rewriting them with what they held)
	{
		buf32 := make([]byte, 16)
		buf64 := make([]byte, 24)
		var wg sync.WaitGroup
		wg.Add(2)
		go func() {
			defer wg.Done()
			for i := 0; i < 20000; i++ {
				machine.UInt32Put(buf32, uint32(i))
				machine.UInt64Put(buf64, uint64(i))
				_ = machine.UInt32Get(buf32)
				_ = machine.UInt64Get(buf64)
			}
		}()
		go func() {
			defer wg.Done()
			for i := 0; i < 20000; i++ {
				for k := 4; k < 16; k++ {
					buf32[k] = byte(i)
				}
				for k := 8; k < 24; k++ {
					buf64[k] = byte(i)
				}
			}
		}()
		wg.Wait()
	}
	if a != "" || b != "" {
		fmt.Println("CONTRACT:", a, b)
	}
	fmt.Println("RACE-DRIVER-DONE encoders and UInt64ToString from 4 goroutines under -race")
	return 0
}

type primCase struct {
	Len     int    `json:"len"`
	Slack   int    `json:"slack"`
	Prior   string `json:"prior"`
	W       []int  `json:"w"`
	Refused int    `json:"refused"`
	After   []int  `json:"after"`
	Dec     []int  `json:"dec"`
}

func fillPrior(p string, n int) []byte {
	b := make([]byte, n)
	for i := range b {
		switch p {
		case "zero":
			b[i] = 0
		case "ff":
			b[i] = 255
		default:
			b[i] = byte(((i+1)*37 + 11) % 256)
		}
	}
	return b
}

// limbsToUint rebuilds the number from its limbs by arithmetic only (math/big).
func limbsToUint(w []int) uint64 {
	x := new(big.Int)
	for i := len(w) - 1; i >= 0; i-- {
		x.Mul(x, big.NewInt(256))
		x.Add(x, big.NewInt(int64(w[i])))
	}
	return x.Uint64()
}

func tlaLimbSet(ws [][]int) string {
	var parts []string
	for _, w := range ws {
		var xs []string
		for _, b := range w {
			xs = append(xs, fmt.Sprint(b))
		}
		parts = append(parts, "<<"+strings.Join(xs, ", ")+">>")
	}
	return "{" + strings.Join(parts, ", ") + "}"
}

// runPrimCases evaluates Prims.tla on the case space and returns TLC's expected results.
func runPrimCases(c *ev.Ctx, lens string, nRand int) ([]primCase, bool) {
	dir, err := c.SpecDir("spec-prims", "prims")
	if err != nil {
		c.Inconclusive("copy specs: %v", err)
		return nil, false
	}
	rr := rng(c, 15)
	var r64, r32 [][]int
	for i := 0; i < nRand; i++ {
		w := make([]int, 8)
		for k := range w {
			w[k] = rr.IntN(256)
		}
		r64 = append(r64, w)
		v := make([]int, 4)
		for k := range v {
			v[k] = rr.IntN(256)
		}
		r32 = append(r32, v)
	}
	// decimal boundaries (a change of the number of digits) and the edges of float64's exact range
	{
		var specials []uint64
		p10 := uint64(1)
		for k := 0; k < 20; k++ {
			specials = append(specials, p10-1, p10, p10+1)
			if k < 19 {
				p10 *= 10
			}
		}
		specials = append(specials, 1<<53-1, 1<<53, 1<<53+1, 1<<63-1, 1<<63, 10005, 10000, 4000000000, 1000000007)
		for _, v := range specials {
			w := make([]int, 8)
			for k := range w {
				w[k] = int(v >> (8 * uint(k)) & 0xff)
			}
			r64 = append(r64, w)
		}
	}
	gen := fmt.Sprintf("---- MODULE MCPrimsRun ----\nEXTENDS MCPrims\nGenLens == %s\nGenRand64 == %s\nGenRand32 == %s\n====\n", lens, tlaLimbSet(r64), tlaLimbSet(r32))
	_ = os.WriteFile(filepath.Join(dir, "MCPrimsRun.tla"), []byte(gen), 0644)
	cfg := "CONSTANTS\n Slacks = {0, 9}\n Lens <- GenLens\n Priors = {\"zero\", \"ff\", \"pat\"}\n Words64 <- MCWords64\n Words32 <- MCWords32\n Rand64 <- GenRand64\n Rand32 <- GenRand32\nINIT Init\nNEXT Next\nINVARIANTS RoundTrip Framed RefusedUntouched WindowFramed DecCanonical Emit\n"
	_ = os.WriteFile(filepath.Join(dir, "MCPrimsRun.cfg"), []byte(cfg), 0644)
	r := tlc.Run{Dir: dir, Module: "MCPrimsRun", Workers: 1, Timeout: 10 * time.Minute}.Do()
	if !c.CheckTLC("MCPrims", r) {
		return nil, false
	}
	var cases []primCase
	for _, p := range r.Prints {
		var pc primCase
		if err := json.Unmarshal([]byte(p), &pc); err != nil {
			c.Inconclusive("bad case json: %v", err)
			return nil, false
		}
		cases = append(cases, pc)
	}
	return cases, true
}

func bytesToInts(b []byte) []int {
	out := make([]int, len(b))
	for i, x := range b {
		out[i] = int(x)
	}
	return out
}

func C15(c *ev.Ctx) {
	c.Level = "model_checking"
	c.Assume("values are rebuilt from limbs with math/big arithmetic (no encoder)", "2^64 values are sampled (boundary limbs + seeded random); buffer lengths 0..12 and the framing dimension are exhausted")
	cases, ok := runPrimCases(c, "0..12", c.Pick(24, 1500))
	if !ok {
		return
	}
	// first in a process of its own (native build of the small driver): a deadlock or a crash inside the primitives
	// must not take the check down
	if bin := filepath.Join(c.Bin, "prims64"); fileExists(bin) {
		cf := filepath.Join(c.Scratch, "prims-cases.json")
		cb, _ := json.Marshal(cases)
		_ = os.WriteFile(cf, cb, 0644)
		out, err, timedOut := runWithDeadline(exec.Command(bin, cf), 4*time.Minute)
		switch {
		case strings.Contains(out, "MISMATCH"):
			c.Violation("put-get.driver", "case table replayed in a child process: "+strings.TrimSpace(firstLines(out[strings.Index(out, "MISMATCH"):], 2)), nil)
			return
		case timedOut:
			c.Violation("put-get.hang", "the case table replayed in a child process did not finish within 4 minutes: a call of the primitives never returned (after a refused call?)\n"+tlc.Tail(out, 25), map[string]string{"goroutines.txt": out})
			return
		case err != nil || !strings.Contains(out, "PRIMS386-DONE"):
			c.Violation("put-get.crash", "the child process replaying the case table died: "+firstLines(out, 12), map[string]string{"output.txt": out})
			return
		}
	}
	distinct := map[string]bool{}
	for i, pc := range cases {
		// the buffer is a window of a larger array: 3 bytes before it, pc.Slack bytes of spare capacity behind it
		const pre = 3
		mem := fillPrior(pc.Prior, pre+pc.Len+pc.Slack)
		buf := mem[pre : pre+pc.Len : pre+pc.Len+pc.Slack]
		before := append([]byte{}, mem...)
		x := limbsToUint(pc.W)
		var panicked bool
		if len(pc.W) == 8 {
			panicked = catchPanic(func() { machine.UInt64Put(buf, x) })
		} else {
			panicked = catchPanic(func() { machine.UInt32Put(buf, uint32(x)) })
		}
		got := bytesToInts(mem)
		key := fmt.Sprintf("put%d", len(pc.W)*8)
		bad := ""
		switch {
		case pc.Refused == 1 && !panicked:
			bad = "a too-short buffer was not refused"
		case pc.Refused == 1 && !sameInts(got, bytesToInts(before)):
			bad = "a refused Put wrote part of the buffer or of its neighbours"
		case pc.Refused == 0 && panicked:
			bad = "Put panicked on a long-enough buffer"
		case pc.Refused == 0 && !sameInts(got, pc.After):
			bad = "memory after Put (buffer and its neighbours in the backing array) differs from the specification"
		}
		if bad == "" && pc.Refused == 0 {
			// Get inverts Put and reads only the frame: scribble outside the frame first
			for k := len(pc.W); k < len(buf); k++ {
				buf[k] ^= 0x5A
			}
			var y uint64
			var gp bool
			if len(pc.W) == 8 {
				gp = catchPanic(func() { y = machine.UInt64Get(buf) })
			} else {
				gp = catchPanic(func() { y = uint64(machine.UInt32Get(buf)) })
			}
			if gp || y != x {
				bad = fmt.Sprintf("Get returned %d (panic=%v), want %d", y, gp, x)
				key = fmt.Sprintf("get%d", len(pc.W)*8)
			}
		}
		if bad == "" && pc.Refused == 1 {
			// Get on a too-short buffer must be refused as well
			var gp bool
			if len(pc.W) == 8 {
				gp = catchPanic(func() { machine.UInt64Get(buf) })
			} else {
				gp = catchPanic(func() { machine.UInt32Get(buf) })
			}
			if !gp {
				bad, key = "Get on a too-short buffer was not refused", fmt.Sprintf("get%d", len(pc.W)*8)
			}
		}
		if bad == "" && pc.Len == 0 && pc.Refused == 1 {
			// the other Go representations of a buffer of length 0: the nil slice (literal, unassigned variable,
			// zero-value struct field, re-slice of one)
			var unassigned []byte
			var holder struct{ b []byte }
			for name, nb := range map[string][]byte{"nil literal": nil, "unassigned variable": unassigned, "zero-value struct field": holder.b, "re-slice of nil": unassigned[:0]} {
				var pp, gp bool
				if len(pc.W) == 8 {
					pp = catchPanic(func() { machine.UInt64Put(nb, x) })
					gp = catchPanic(func() { machine.UInt64Get(nb) })
				} else {
					pp = catchPanic(func() { machine.UInt32Put(nb, uint32(x)) })
					gp = catchPanic(func() { machine.UInt32Get(nb) })
				}
				if !pp || !gp {
					bad = fmt.Sprintf("a buffer of length 0 given as the nil slice (%s) was not refused (Put refused: %v, Get refused: %v)", name, pp, gp)
					break
				}
			}
		}
		distinct[fmt.Sprintf("%d/%d/%s/%v", pc.Len, pc.Slack, pc.Prior, pc.W)] = true
		if i < 2 {
			c.Sample(pc)
		}
		if bad != "" {
			c.Violation(key, fmt.Sprintf("%s: value %d (limbs %v), buffer length %d (+%d spare capacity) prior %q: backing array before %v after %v, specification %v", bad, x, pc.W, pc.Len, pc.Slack, pc.Prior, bytesToInts(before), got, pc.After),
				map[string]string{"case.json": jsonStr(pc)})
			if c.NViolations() > 5 {
				break
			}
		}
	}
	// the same case table on a 32-bit build of the primitives
	if bin := filepath.Join(c.Bin, "prims386"); fileExists(bin) {
		cf := filepath.Join(c.Scratch, "prims-cases.json")
		cb, _ := json.Marshal(cases)
		_ = os.WriteFile(cf, cb, 0644)
		out, err, _ := runWithDeadline(exec.Command(bin, cf), 5*time.Minute)
		switch {
		case strings.Contains(out, "MISMATCH"):
			c.Violation("put-get.32bit-build", "on a 32-bit build (GOARCH=386) of the same source: "+strings.TrimSpace(firstLines(out[strings.Index(out, "MISMATCH"):], 2)), nil)
		case err != nil || !strings.Contains(out, "PRIMS386-DONE"):
			c.Set("build_386", "driver did not run: "+firstLines(out, 2))
		default:
			c.Set("build_386", strings.TrimSpace(out))
		}
	} else {
		c.Set("build_386", "not built")
	}
	if msg := primsConcurrent("enc", uint64(c.Seed), 8, c.Pick(40000, 400000)); msg != "" {
		c.Violation("put-get.concurrent-callers", "with several goroutines encoding into private buffers at the same time: "+msg, nil)
	}
	c.Set("concurrent_calls", 8*c.Pick(40000, 400000))
	raceChild(c, "race-prims", "goose/machine")
	c.AddTraces(len(cases))
	c.Set("exhaustive", true)
	c.Set("evaluations", len(cases))
	c.Set("distinct_nontrivial", len(distinct))
	c.Set("rule", "cases = buffer length 0..12 x prior content {00, FF, pattern} x value (each limb position with a boundary byte over a 00 / FF background, plus seeded random limbs), for 64 and 32 bit; all are distinct; each is non-trivial (a Put with its expected bytes or its refusal, followed by Get)")
}

// ---------------------------------------------------------------- C16

type wtScenario struct {
	Name      string
	TimeoutMs uint64
	SigAtMs   int    // -1: none; -2: signaller pre-blocked on the mutex before the call
	Kind      string // signal | broadcast
	Prelude   string // "" | "leak" (an earlier timed-out call) | "waiter" (a plain cond.Wait queued earlier)
}

// runWT executes one scenario on the real machine.WaitTimeout and returns its event log.
func runWT(s wtScenario) (evs []map[string]any, hung bool) {
	mu := new(sync.Mutex)
	cond := sync.NewCond(mu)
	if strings.HasPrefix(s.Prelude, "farleak") {
		// many earlier calls that timed out on OTHER condition variables (each leaves a parked helper behind)
		for i := 0; i < 300; i++ {
			m2 := new(sync.Mutex)
			c2 := sync.NewCond(m2)
			m2.Lock()
			machine.WaitTimeout(c2, 0)
			m2.Unlock()
		}
	}
	if s.Prelude == "stress" {
		// 1.5 s of heavy traffic on 32 OTHER condition variables (a waiter with 1 ms timeouts and a signaller each), then
		// quiet: whatever the calls share across condition variables has been hammered; the observed call follows
		stop := make(chan struct{})
		var sw sync.WaitGroup
		for g := 0; g < 32; g++ {
			m2 := new(sync.Mutex)
			c2 := sync.NewCond(m2)
			sw.Add(2)
			go func() {
				defer sw.Done()
				for {
					select {
					case <-stop:
						return
					default:
					}
					m2.Lock()
					machine.WaitTimeout(c2, 1)
					m2.Unlock()
				}
			}()
			go func() {
				defer sw.Done()
				for {
					select {
					case <-stop:
						return
					default:
					}
					m2.Lock()
					c2.Signal()
					m2.Unlock()
					runtime.Gosched()
				}
			}()
		}
		time.Sleep(1500 * time.Millisecond)
		close(stop)
		done := make(chan struct{})
		go func() { sw.Wait(); close(done) }()
		select {
		case <-done:
		case <-time.After(5 * time.Second):
			// a crowd member never came back: the observed call is still made, the hang shows as a late return at worst
		}
		time.Sleep(50 * time.Millisecond)
	}
	if strings.HasPrefix(s.Prelude, "crowd") {
		// 16 other goroutines, each with a condition variable and mutex of its own, keep calling WaitTimeout (short
		// timeouts; every second one is also signalled now and then) while the observed call is in flight
		stop := make(chan struct{})
		var cw sync.WaitGroup
		defer func() {
			close(stop)
			done := make(chan struct{})
			go func() { cw.Wait(); close(done) }()
			select {
			case <-done:
			case <-time.After(2 * time.Second):
			}
		}()
		for g := 0; g < 16; g++ {
			m2 := new(sync.Mutex)
			c2 := sync.NewCond(m2)
			cw.Add(1)
			go func(g int) {
				defer cw.Done()
				for {
					select {
					case <-stop:
						return
					default:
					}
					m2.Lock()
					machine.WaitTimeout(c2, uint64(5+3*g))
					m2.Unlock()
				}
			}(g)
			if g%2 == 0 {
				cw.Add(1)
				go func(g int) {
					defer cw.Done()
					for {
						select {
						case <-stop:
							return
						case <-time.After(time.Duration(3+g) * time.Millisecond):
						}
						m2.Lock()
						c2.Signal()
						m2.Unlock()
					}
				}(g)
			}
		}
		time.Sleep(30 * time.Millisecond)
	}
	t00 := time.Now()
	ms := func() int { return int(time.Since(t00) / time.Millisecond) }
	evs = append(evs, map[string]any{"ev": "reset", "scenario": s.Name})
	var mlog sync.Mutex
	add := func(e map[string]any) { mlog.Lock(); evs = append(evs, e); mlog.Unlock() }
	mu.Lock()
	waiterDone := make(chan struct{})
	if s.Prelude == "waiter" {
		started := make(chan struct{})
		go func() {
			mu.Lock()
			close(started)
			cond.Wait()
			mu.Unlock()
			close(waiterDone)
		}()
		mu.Unlock()
		<-started
		time.Sleep(5 * time.Millisecond)
		mu.Lock() // the waiter is parked on the condition variable now
	}
	if s.Prelude == "leak" {
		machine.WaitTimeout(cond, 1) // times out, leaves its helper behind
	}
	sigDone := make(chan struct{})
	if s.SigAtMs != -1 {
		var aboutToLock atomic.Bool
		go func() {
			defer close(sigDone)
			if s.SigAtMs >= 0 {
				time.Sleep(time.Duration(s.SigAtMs) * time.Millisecond)
			}
			aboutToLock.Store(true)
			mu.Lock()
			if s.Kind == "broadcast" {
				cond.Broadcast()
			} else {
				cond.Signal()
			}
			t := ms()
			mu.Unlock()
			add(map[string]any{"ev": "signal", "t": t, "kind": s.Kind})
		}()
		if s.SigAtMs == -2 {
			for !aboutToLock.Load() {
				time.Sleep(time.Millisecond)
			}
			time.Sleep(40 * time.Millisecond) // signaller is blocked on mu.Lock() now (also on a loaded machine)
		}
	} else {
		close(sigDone)
	}
	add(map[string]any{"ev": "call", "t": ms(), "timeout": int(s.TimeoutMs)})
	ret := make(chan int, 1)
	go func() {
		machine.WaitTimeout(cond, s.TimeoutMs)
		ret <- ms()
	}()
	var tRet int
	select {
	case tRet = <-ret:
	case <-time.After(time.Duration(s.TimeoutMs)*time.Millisecond + 3*time.Second):
		add(map[string]any{"ev": "return", "t": ms(), "held": 0, "hung": 1})
		return evs, true
	}
	// held by the caller: still locked after everybody else had time to finish
	time.Sleep(20 * time.Millisecond)
	held := 0
	if !mu.TryLock() {
		held = 1
	}
	add(map[string]any{"ev": "return", "t": tRet, "held": held})
	mu.Unlock()
	<-sigDone
	if s.Prelude == "waiter" {
		mu.Lock()
		cond.Broadcast()
		mu.Unlock()
		<-waiterDone
	}
	// order: call, signal (if inside), return - by time
	sort.SliceStable(evs[1:], func(i, j int) bool {
		a, b := evs[1+i], evs[1+j]
		ta, _ := a["t"].(int)
		tb, _ := b["t"].(int)
		if ta != tb {
			return ta < tb
		}
		return a["ev"] == "call" || b["ev"] == "return"
	})
	return evs, false
}

func C16(c *ev.Ctx) {
	c.Level = "model_checking"
	c.Assume("timing: Delta = 150 ms tolerance; a timing excess is reported only if it reproduces in 3 of 3 runs (otherwise counted as an outlier)",
		"lock held by caller = the mutex is still locked 20 ms after WaitTimeout returned",
		"WaitTimeout.tla models primitive.WaitTimeout v0.1.0, to which machine.WaitTimeout delegates")
	// (a) formatting: Dec from Prims.tla vs UInt64ToString; injectivity follows from equality with the canonical digits
	cases, ok := runPrimCases(c, "{8}", c.Pick(60, 1500))
	if !ok {
		return
	}
	seen := map[string]uint64{}
	nfmt := 0
	for _, pc := range cases {
		if pc.Prior != "zero" {
			continue
		}
		x := limbsToUint(pc.W)
		var sb strings.Builder
		for _, d := range pc.Dec {
			sb.WriteByte(byte('0' + d))
		}
		got := machine.UInt64ToString(x)
		nfmt++
		if got != sb.String() {
			c.Violation("uint64tostring", fmt.Sprintf("UInt64ToString(%d) = %q, canonical decimal (Prims!Dec of limbs %v) is %q", x, got, pc.W, sb.String()), map[string]string{"case.json": jsonStr(pc)})
			break
		}
		if y, dup := seen[got]; dup && y != x {
			c.Violation("uint64tostring-injective", fmt.Sprintf("UInt64ToString maps %d and %d to %q", x, y, got), nil)
			break
		}
		seen[got] = x
	}
	c.Set("format_cases", nfmt)
	if msg := primsConcurrent("str", uint64(c.Seed), 8, c.Pick(40000, 400000)); msg != "" {
		c.Violation("uint64tostring.concurrent-callers", "with several goroutines formatting at the same time: "+msg+" (not the canonical rendering of its argument)", nil)
	}
	raceChild(c, "race-prims", "goose/machine")
	// (b) MapClear / Assume / Assert
	mcCases := 0
	mcSizes := []int{0, 1, 2, 7, 8, 9, 63, 64, 65, 127, 128, 129, 1000, 5000}
	for n := 0; n < c.Pick(40, 400); n++ {
		mcSizes = append(mcSizes, n)
	}
	for _, n := range mcSizes {
		m1 := map[uint64]string{}
		m2 := map[string][]byte{}
		type k3 struct{ a, b uint32 }
		m3 := map[k3]bool{}
		for i := 0; i < n; i++ {
			m1[uint64(i)*0x9E3779B97F4A7C15] = fmt.Sprint(i)
			m2[fmt.Sprint("k", i)] = []byte{byte(i)}
			m3[k3{uint32(i), uint32(n)}] = i%2 == 0
		}
		cleared := make(chan bool, 1)
		go func() {
			machine.MapClear(m1)
			machine.MapClear(m2)
			machine.MapClear(m3)
			cleared <- true
		}()
		select {
		case <-cleared:
		case <-time.After(20 * time.Second):
			c.Violation("mapclear-hang", fmt.Sprintf("MapClear on maps with %d entries did not return within 20 s", n), nil)
			n = -1
		}
		if n < 0 {
			break
		}
		m1[7], m2["x"], m3[k3{1, 2}] = "seven", []byte{1}, true
		if len(m1) != 1 || len(m2) != 1 || len(m3) != 1 || m1[7] != "seven" {
			c.Violation("mapclear", fmt.Sprintf("MapClear on maps with %d entries: sizes after clear+1 insert are %d %d %d (want 1 1 1)", n, len(m1), len(m2), len(m3)), nil)
			break
		}
		mcCases += 3
	}
	var nilMap map[uint64]uint64
	if catchPanic(func() { machine.MapClear(nilMap) }) {
		c.Violation("mapclear-nil", "MapClear of an empty (nil) map panicked", nil)
	}
	for _, b := range []bool{true, false} {
		if catchPanic(func() { machine.Assume(b) }) != !b {
			c.Violation("assume", fmt.Sprintf("Assume(%v): panic behaviour wrong", b), nil)
		}
		if catchPanic(func() { machine.Assert(b) }) != !b {
			c.Violation("assert", fmt.Sprintf("Assert(%v): panic behaviour wrong", b), nil)
		}
	}
	c.Set("mapclear_cases", mcCases)

	// (c) WaitTimeout: design check of the L2 specification
	dir, err := c.SpecDir("spec-wt", "prims")
	if err != nil {
		c.Inconclusive("copy specs: %v", err)
		return
	}
	for _, cfg := range []string{"WaitTimeout_single", "WaitTimeout", "WaitTimeout_bcast"} {
		r := tlc.Run{Dir: dir, Module: "WaitTimeout", Cfg: cfg + ".cfg", Workers: 4, Timeout: 5 * time.Minute}.Do()
		if !c.CheckTLC(cfg, r) {
			return
		}
	}
	lead := map[string]bool{}
	for _, cfg := range []string{"WaitTimeout_leak", "WaitTimeout_unlockfirst"} {
		r := tlc.Run{Dir: dir, Module: "WaitTimeout", Cfg: cfg + ".cfg", Workers: 4, Timeout: 5 * time.Minute}.Do()
		c.AddTLC(r)
		if r.Violated != "PromptAfterSignal" {
			c.Inconclusive("%s: expected PromptAfterSignal violated, got %q", cfg, r.Violated)
			return
		}
		lead[cfg] = true
	}
	c.Set("design_model", "WaitTimeout.tla: HeldAtReturn, NoBadUnlock, CallerOwns, PromptAfterSignal (single call; two calls with Broadcast), liveness AllReturn; PromptAfterSignal is violated for two calls + Signal (leaked helper, lead for the known finding) and for the unlock-before-enqueue variant (spec sensitivity)")

	// (d) real runs, validated by WaitTimeoutTrace.tla
	var scen []wtScenario
	for _, to := range []uint64{0, 1, 5, 20, 50} {
		scen = append(scen, wtScenario{Name: fmt.Sprintf("timeout-%dms", to), TimeoutMs: to, SigAtMs: -1})
	}
	for _, kind := range []string{"signal", "broadcast"} {
		for _, at := range []int{-2, 5, 30} {
			scen = append(scen, wtScenario{Name: fmt.Sprintf("%s-at-%d", kind, at), TimeoutMs: 1500, SigAtMs: at, Kind: kind})
		}
		scen = append(scen, wtScenario{Name: kind + "-after-timeout", TimeoutMs: 10, SigAtMs: 60, Kind: kind})
	}
	scen = append(scen,
		wtScenario{Name: "earlier-waiter-timeout", TimeoutMs: 20, SigAtMs: -1, Prelude: "waiter"},
		wtScenario{Name: "leak-then-broadcast", TimeoutMs: 1500, SigAtMs: 30, Kind: "broadcast", Prelude: "leak"},
		wtScenario{Name: "leak-then-signal", TimeoutMs: 1500, SigAtMs: 30, Kind: "signal", Prelude: "leak"},
		wtScenario{Name: "leak-then-timeout", TimeoutMs: 20, SigAtMs: -1, Prelude: "leak"},
		wtScenario{Name: "300-leaks-elsewhere-then-signal", TimeoutMs: 1500, SigAtMs: 30, Kind: "signal", Prelude: "farleak"},
		wtScenario{Name: "300-leaks-elsewhere-then-broadcast", TimeoutMs: 1500, SigAtMs: 5, Kind: "broadcast", Prelude: "farleak"},
		wtScenario{Name: "300-leaks-elsewhere-then-timeout", TimeoutMs: 20, SigAtMs: -1, Prelude: "farleak"},
		wtScenario{Name: "heavy-traffic-elsewhere-then-timeout", TimeoutMs: 20, SigAtMs: -1, Prelude: "stress"},
		wtScenario{Name: "heavy-traffic-elsewhere-then-signal", TimeoutMs: 1500, SigAtMs: 30, Kind: "signal", Prelude: "stress"},
		wtScenario{Name: "16-callers-elsewhere-then-timeout", TimeoutMs: 50, SigAtMs: -1, Prelude: "crowd"},
		wtScenario{Name: "16-callers-elsewhere-then-signal", TimeoutMs: 1500, SigAtMs: 30, Kind: "signal", Prelude: "crowd"},
		wtScenario{Name: "16-callers-elsewhere-then-broadcast", TimeoutMs: 1500, SigAtMs: 5, Kind: "broadcast", Prelude: "crowd"})
	reps := c.Pick(1, 8)
	validate := func(evs []map[string]any) (bool, int, bool) {
		tv := validateTrace(dir, "WaitTimeoutTrace", evs, false, 3*time.Minute)
		c.AddTLC(tv.Res)
		return tv.Accepted, tv.HighWater, tv.Broken
	}
	runs, outliers := 0, 0
	for rep := 0; rep < reps; rep++ {
		// scenarios are independent: run them concurrently to keep wall time low
		results := make([][]map[string]any, len(scen))
		hung := make([]bool, len(scen))
		// two waves: the CPU-heavy stress scenarios run after the timing-sensitive ones
		for _, heavy := range []bool{false, true} {
			var wg sync.WaitGroup
			for i := range scen {
				if (scen[i].Prelude == "stress") != heavy {
					continue
				}
				wg.Add(1)
				go func(i int) { defer wg.Done(); results[i], hung[i] = runWTChild(scen[i]) }(i)
			}
			wg.Wait()
		}
		var all []map[string]any
		idx := map[int]int{}
		for i, r := range results {
			idx[len(all)] = i
			all = append(all, r...)
		}
		runs += len(scen)
		if rep == 0 {
			c.Sample(map[string]any{"kind": "WaitTimeout run", "events": results[5]})
		}
		rest, base := all, 0
		for len(rest) > 0 {
			okk, hw, broken := validate(rest)
			if broken {
				c.Inconclusive("WaitTimeoutTrace did not run")
				return
			}
			if okk {
				break
			}
			at := hw - 1
			s0 := segmentStart(rest, at)
			si := idx[base+s0]
			sc := scen[si]
			// reproduce alone, twice more
			repro := 1
			var last []map[string]any = results[si]
			for k := 0; k < 2; k++ {
				e2, _ := runWTChild(sc)
				if a, _, br := validate(e2); !a && !br {
					repro++
					last = e2
				}
			}
			if repro == 3 {
				// the key names the scenario AND the way it fails (a late return is the plain key)
				key := "waittimeout." + sc.Name
				for _, e := range last {
					if e["ev"] == "return" {
						asInt := func(v any) int {
							switch x := v.(type) {
							case int:
								return x
							case float64:
								return int(x)
							}
							return -1
						}
						if asInt(e["hung"]) == 1 {
							key += ".never-returned"
						} else if asInt(e["held"]) == 0 {
							key += ".lock-not-held"
						}
					}
				}
				c.Report(key, fmt.Sprintf("machine.WaitTimeout scenario %s (timeout %d ms, %s at %d ms, prelude %q): the run is rejected by WaitTimeoutTrace (lock not held at return, or return later than the deadline) in 3 of 3 runs\n%s",
					sc.Name, sc.TimeoutMs, sc.Kind, sc.SigAtMs, sc.Prelude, ndjsonString(last)), map[string]string{"trace.ndjson": ndjsonString(last)})
			} else {
				outliers++
			}
			nx := at + 1
			for nx < len(rest) && rest[nx]["ev"] != "reset" {
				nx++
			}
			base += nx
			rest = rest[nx:]
		}
	}
	c.AddTraces(runs)
	c.Set("waittimeout_runs", runs)
	c.Set("timing_outliers_not_reproduced", outliers)
	c.Set("evaluations", nfmt+mcCases+runs+4)
	c.Set("distinct_nontrivial", len(seen)+len(scen))
	c.Set("rule", "distinct values formatted (boundary limbs + seeded random, compared with Prims!Dec) + distinct WaitTimeout scenarios (timeout x signal kind/offset x prelude: earlier waiter, leaked helper, signaller pre-blocked on the mutex)")
}
