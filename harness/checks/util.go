package checks

import (
	"bytes"
	"encoding/json"
	"fmt"
	"math/rand/v2"
	"os"
	"os/exec"
	"path/filepath"
	"sort"
	"strconv"
	"strings"
	"syscall"
	"time"

	"verif/ev"
	"verif/tlc"
)

func rng(c *ev.Ctx, salt uint64) *rand.Rand {
	return rand.New(rand.NewPCG(uint64(c.Seed), salt))
}

// writeNDJSON writes one JSON object per line.
func writeNDJSON(path string, evs []map[string]any) error {
	var b bytes.Buffer
	enc := json.NewEncoder(&b)
	for _, e := range evs {
		if err := enc.Encode(e); err != nil {
			return err
		}
	}
	return os.WriteFile(path, b.Bytes(), 0644)
}

type traceVerdict struct {
	Accepted  bool
	HighWater int // 1-based index of the first event that could not be matched (Len+1 if accepted)
	Res       tlc.Result
	Broken    bool // tool failure
}

// validateTrace runs a *Trace.tla module over trace.ndjson in dir.
func validateTrace(dir, module string, evs []map[string]any, dfs bool, timeout time.Duration) traceVerdict {
	if err := writeNDJSON(filepath.Join(dir, "trace.ndjson"), evs); err != nil {
		return traceVerdict{Broken: true}
	}
	r := tlc.Run{Dir: dir, Module: module, Workers: 1, DFS: dfs, Timeout: timeout, StackMB: 64}.Do()
	v := traceVerdict{Res: r}
	for _, p := range r.Prints {
		if n, err := strconv.Atoi(strings.Trim(p, `"`)); err == nil {
			v.HighWater = n
		}
	}
	switch {
	case r.NoError && r.Violated == "":
		v.Accepted = true
	case r.Violated == "postcondition" && !strings.Contains(r.Out, "Error: Evaluating") && !r.TimedOut:
		v.Accepted = false
	default:
		v.Broken = true
	}
	return v
}

func jsonStr(v any) string {
	b, _ := json.Marshal(v)
	return string(b)
}

func window(evs []map[string]any, at, before, after int) string {
	var sb strings.Builder
	lo, hi := at-before, at+after
	if lo < 0 {
		lo = 0
	}
	if hi > len(evs) {
		hi = len(evs)
	}
	for i := lo; i < hi; i++ {
		mark := "  "
		if i == at {
			mark = "=>"
		}
		fmt.Fprintf(&sb, "%s %d %s\n", mark, i+1, jsonStr(evs[i]))
	}
	return sb.String()
}

// segmentStart returns the index of the last "reset" event at or before i.
func segmentStart(evs []map[string]any, i int) int {
	for ; i > 0; i-- {
		if evs[i]["ev"] == "reset" {
			return i
		}
	}
	return 0
}

func ndjsonString(evs []map[string]any) string {
	var sb strings.Builder
	for _, e := range evs {
		sb.WriteString(jsonStr(e))
		sb.WriteByte('\n')
	}
	return sb.String()
}

func mustMkdir(p string) string {
	_ = os.MkdirAll(p, 0755)
	return p
}

func sortStrings(s []string) { sort.Strings(s) }

func execOutput(name string, args ...string) (string, error) {
	out, err, timedOut := runWithDeadline(exec.Command(name, args...), 30*time.Minute)
	if timedOut {
		return out, fmt.Errorf("no result after 30 minutes (terminated with SIGQUIT): %v", err)
	}
	return out, err
}

func execCommand(name string, args ...string) *exec.Cmd { return exec.Command(name, args...) }

// runWithDeadline runs cmd; if it has not finished after d it is sent SIGQUIT (a Go program then prints all goroutine
// stacks and exits), and killed 10 s later if still alive. Returns the combined output.
func runWithDeadline(cmd *exec.Cmd, d time.Duration) (out string, err error, timedOut bool) {
	var buf bytes.Buffer
	cmd.Stdout, cmd.Stderr = &buf, &buf
	if err := cmd.Start(); err != nil {
		return "", err, false
	}
	done := make(chan error, 1)
	go func() { done <- cmd.Wait() }()
	select {
	case err = <-done:
		return buf.String(), err, false
	case <-time.After(d):
		_ = cmd.Process.Signal(syscall.SIGQUIT)
		select {
		case err = <-done:
		case <-time.After(10 * time.Second):
			_ = cmd.Process.Kill()
			err = <-done
		}
		return buf.String(), err, true
	}
}

// hangInside: a goroutine dump (after SIGQUIT) that shows a goroutine blocked inside the given package
func hangInside(dump, pkgFilter string) bool {
	for _, g := range strings.Split(dump, "\n\ngoroutine ") {
		if strings.Contains(g, pkgFilter) && (strings.Contains(g, "sync.(*Mutex).Lock") || strings.Contains(g, "sync.(*RWMutex)") || strings.Contains(g, "[sync.Mutex.Lock") || strings.Contains(g, "[semacquire") || strings.Contains(g, "[sync.Cond.Wait") || strings.Contains(g, "[chan receive") || strings.Contains(g, "[select")) {
			return true
		}
	}
	return false
}

func fileExists(p string) bool {
	st, err := os.Stat(p)
	return err == nil && !st.IsDir()
}

// lastLines returns the last n lines of s.
func lastLines(s string, n int) string {
	ls := strings.Split(strings.TrimRight(s, "\n"), "\n")
	if len(ls) > n {
		ls = ls[len(ls)-n:]
	}
	return strings.Join(ls, "\n")
}
