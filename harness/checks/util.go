package checks

import (
	"bytes"
	"encoding/json"
	"fmt"
	"math/rand/v2"
	"os"
	"os/exec"
	"path/filepath"
	"sort"
	"strconv"
	"strings"
	"time"

	"verif/ev"
	"verif/tlc"
)

func rng(c *ev.Ctx, salt uint64) *rand.Rand {
	return rand.New(rand.NewPCG(uint64(c.Seed), salt))
}

// writeNDJSON writes one JSON object per line.
func writeNDJSON(path string, evs []map[string]any) error {
	var b bytes.Buffer
	enc := json.NewEncoder(&b)
	for _, e := range evs {
		if err := enc.Encode(e); err != nil {
			return err
		}
	}
	return os.WriteFile(path, b.Bytes(), 0644)
}

type traceVerdict struct {
	Accepted  bool
	HighWater int // 1-based index of the first event that could not be matched (Len+1 if accepted)
	Res       tlc.Result
	Broken    bool // tool failure
}

// validateTrace runs a *Trace.tla module over trace.ndjson in dir.
func validateTrace(dir, module string, evs []map[string]any, dfs bool, timeout time.Duration) traceVerdict {
	if err := writeNDJSON(filepath.Join(dir, "trace.ndjson"), evs); err != nil {
		return traceVerdict{Broken: true}
	}
	r := tlc.Run{Dir: dir, Module: module, Workers: 1, DFS: dfs, Timeout: timeout, StackMB: 64}.Do()
	v := traceVerdict{Res: r}
	for _, p := range r.Prints {
		if n, err := strconv.Atoi(strings.Trim(p, `"`)); err == nil {
			v.HighWater = n
		}
	}
	switch {
	case r.NoError && r.Violated == "":
		v.Accepted = true
	case r.Violated == "postcondition" && !strings.Contains(r.Out, "Error: Evaluating") && !r.TimedOut:
		v.Accepted = false
	default:
		v.Broken = true
	}
	return v
}

func jsonStr(v any) string {
	b, _ := json.Marshal(v)
	return string(b)
}

func window(evs []map[string]any, at, before, after int) string {
	var sb strings.Builder
	lo, hi := at-before, at+after
	if lo < 0 {
		lo = 0
	}
	if hi > len(evs) {
		hi = len(evs)
	}
	for i := lo; i < hi; i++ {
		mark := "  "
		if i == at {
			mark = "=>"
		}
		fmt.Fprintf(&sb, "%s %d %s\n", mark, i+1, jsonStr(evs[i]))
	}
	return sb.String()
}

// segmentStart returns the index of the last "reset" event at or before i.
func segmentStart(evs []map[string]any, i int) int {
	for ; i > 0; i-- {
		if evs[i]["ev"] == "reset" {
			return i
		}
	}
	return 0
}

func ndjsonString(evs []map[string]any) string {
	var sb strings.Builder
	for _, e := range evs {
		sb.WriteString(jsonStr(e))
		sb.WriteByte('\n')
	}
	return sb.String()
}

func mustMkdir(p string) string {
	_ = os.MkdirAll(p, 0755)
	return p
}

func sortStrings(s []string) { sort.Strings(s) }

func execOutput(name string, args ...string) (string, error) {
	out, err := exec.Command(name, args...).CombinedOutput()
	return string(out), err
}

func execCommand(name string, args ...string) *exec.Cmd { return exec.Command(name, args...) }
