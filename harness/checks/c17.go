package checks

import (
	"bytes"
	"encoding/json"
	"fmt"
	"os"
	"os/exec"
	"path/filepath"
	"regexp"
	"sort"
	"strings"
	"syscall"
	"time"

	"verif/ev"
	"verif/tlc"
)

func init() { Registry["C17"] = C17 }

const c17Mod = "example.com/c17-mod.z"

// package name -> directory below the module root
var c17Dirs = map[string]string{"good": "good", "goodffi": "goodffi", "partial": "partial", "allbad": "allbad", "tagged": "tagged", "nested": "sub.d/p-q", "latebad": "latebad", "earlybad": "earlybad", "cgotag": "cgotag", "nofiles": "nofiles", "missing": "no-such-dir",
	// two packages with the same Go package NAME (util) in different directories
	"twin1": "twins/x/util", "twin2": "twins/y/util"}

func c17Sources(pkg string, ver int) map[string]string {
	switch pkg {
	case "good":
		return map[string]string{"a.go": "package good\n\nfunc One() uint64 {\n\treturn 1\n}\n", "b.go": "package good\n\n// Two doc\nfunc Two() uint64 {\n\treturn One() + 1\n}\n"}
	case "goodffi":
		s := "package goodffi\n\nimport \"github.com/goose-lang/goose/machine/disk\"\n\nfunc Size() uint64 {\n\treturn disk.BlockSize\n}\n"
		if ver == 1 {
			s += "\nfunc Extra() uint64 {\n\treturn 5\n}\n"
		}
		return map[string]string{"f.go": s}
	case "partial":
		return map[string]string{"p.go": "package partial\n\nfunc Ok1() uint64 {\n\treturn 1\n}\n\nfunc Bad(x uint64) uint64 {\n\tswitch x {\n\tcase 1:\n\t\treturn 2\n\t}\n\treturn 3\n}\n\nfunc Ok2() uint64 {\n\treturn Ok1() + 2\n}\n"}
	case "allbad":
		return map[string]string{"x.go": "package allbad\n\nfunc Only(x uint64) uint64 {\n\tdefer func() {}()\n\treturn x\n}\n"}
	case "tagged":
		return map[string]string{
			"t.go":         "package tagged\n\nfunc Use() uint64 {\n\treturn Variant()\n}\n",
			"t_goose.go":   "//go:build goose\n\npackage tagged\n\nfunc Variant() uint64 {\n\treturn 4242\n}\n",
			"t_nogoose.go": "//go:build !goose\n\npackage tagged\n\nfunc Variant() uint64 {\n\treturn 1717\n}\n"}
	case "cgotag":
		return map[string]string{
			"u.go":     "package cgotag\n\nfunc Use() uint64 {\n\treturn Variant()\n}\n",
			"c_on.go":  "//go:build cgo\n\npackage cgotag\n\nfunc Variant() uint64 {\n\treturn 1111\n}\n",
			"c_off.go": "//go:build !cgo\n\npackage cgotag\n\nfunc Variant() uint64 {\n\treturn 2222\n}\n"}
	case "earlybad":
		// the declaration that does not translate lives in the file that sorts first; the last file is clean
		return map[string]string{
			"a_first.go": "package earlybad\n\nfunc Ok1() uint64 {\n\treturn 1\n}\n\nfunc Bad(x uint64) uint64 {\n\tdefer func() {}()\n\treturn x\n}\n",
			"m_mid.go":   "package earlybad\n\nfunc Ok2() uint64 {\n\treturn Ok1() + 2\n}\n",
			"z_last.go":  "package earlybad\n\nfunc Ok3() uint64 {\n\treturn Ok2() + 3\n}\n"}
	case "twin1":
		return map[string]string{"u.go": "package util\n\nfunc Which() uint64 {\n\treturn 1\n}\n"}
	case "twin2":
		return map[string]string{"u.go": "package util\n\nfunc Which() uint64 {\n\treturn 2\n}\n\nfunc Other() uint64 {\n\treturn Which() + 1\n}\n"}
	case "nofiles":
		// every file is excluded by the goose build tag: the Go toolchain reports "build constraints exclude all Go files"
		return map[string]string{"x.go": "//go:build !goose\n\npackage nofiles\n\nfunc F() uint64 {\n\treturn 1\n}\n"}
	case "nested":
		return map[string]string{"n.go": "package p_q\n\nfunc N() uint64 {\n\treturn 9\n}\n"}
	case "latebad":
		s := "package latebad\n\nimport \"github.com/goose-lang/goose/machine/disk\"\n\nfunc First() uint64 {\n\treturn disk.BlockSize\n}\n\n"
		if ver == 1 {
			s += "func Last() uint64 {\n\treturn 8\n}\n"
		} else {
			s += "func Last(x uint64) uint64 {\n\tdefer func() {}()\n\treturn x\n}\n"
		}
		return map[string]string{"l.go": s}
	}
	return nil
}

func c17Write(root, pkg string, ver int) {
	d := filepath.Join(root, c17Dirs[pkg])
	_ = os.RemoveAll(d)
	if pkg == "missing" {
		return // a pattern naming a directory that does not exist
	}
	_ = os.MkdirAll(d, 0755)
	for n, s := range c17Sources(pkg, ver) {
		_ = os.WriteFile(filepath.Join(d, n), []byte(s), 0644)
	}
}

func c17CoqPath(pkg string) string {
	p := c17Mod + "/" + c17Dirs[pkg]
	p = strings.NewReplacer(".", "_", "-", "_").Replace(p)
	return p + ".v"
}

type c17Inv struct {
	Op        string   `json:"op"`
	P         string   `json:"p"`
	Pats      []string `json:"pats"`
	Ign       bool     `json:"ign"`
	RelOut    bool     `json:"relOut"`
	SubDir    bool     `json:"subDir"`
	EmptyWild bool     `json:"emptyWild"`
	Exit      int      `json:"exit"`
	Tree      map[string]struct {
		V    int    `json:"v"`
		Kind string `json:"kind"`
	} `json:"tree"`
	Written []string `json:"written"`
}

func C17(c *ev.Ctx) {
	c.Level = "model_checking"
	c.Assume("file contents are compared with reference translations of the same package version obtained from an invocation of its own (full, or partial with -ignore-errors)",
		"'not rewritten' is observed through the modification time, which the harness sets back before every invocation",
		"packages with TYPE errors are outside the claim; patterns whose package cannot be loaded at all (directory missing, every file excluded by build constraints) are inside it: class unloadable of GooseCmd.tla",
		"exit statuses are compared as zero / non-zero, which is all the property fixes")
	dir, err := c.SpecDir("spec-cmd", "translator")
	if err != nil {
		c.Inconclusive("copy specs: %v", err)
		return
	}
	r := tlc.Run{Dir: dir, Module: "MCGooseCmd", Workers: 8, Timeout: 10 * time.Minute}.Do()
	if !c.CheckTLC("MCGooseCmd exhaustive", r) {
		return
	}
	depth := c.Pick(5, 8)
	nb := c.Pick(14, 400)
	cfg := fmt.Sprintf("CONSTANTS\n Pkgs <- MCPkgs\n Class <- MCClass\n PatternLists <- MCPatterns\n D = %d\nINIT Init\nNEXT Next\nINVARIANT EmitHist\n", depth)
	_ = os.WriteFile(filepath.Join(dir, "SimGooseCmd.cfg"), []byte(cfg), 0644)
	sr := tlc.Run{Dir: dir, Module: "MCGooseCmd", Cfg: "SimGooseCmd.cfg", Workers: 1, Timeout: 10 * time.Minute,
		Args: []string{"-simulate", fmt.Sprintf("num=%d", nb*40), "-depth", fmt.Sprint(depth + 1), "-seed", fmt.Sprint(c.Seed)}}.Do()
	c.AddTLC(sr)
	if sr.TLCError || len(sr.Prints) == 0 {
		c.Inconclusive("simulation produced no behaviours:\n%s", tlc.Tail(sr.Out, 20))
		return
	}
	rr := rng(c, 17)
	rr.Shuffle(len(sr.Prints), func(i, j int) { sr.Prints[i], sr.Prints[j] = sr.Prints[j], sr.Prints[i] })
	// prefer sequences that re-translate a package after its source was edited (translate p; edit p; translate p)
	score := func(p string) int {
		var h []c17Inv
		if json.Unmarshal([]byte(p), &h) != nil {
			return 0
		}
		sc := 0
		translated, edited := map[string]bool{}, map[string]bool{}
		for _, e := range h {
			switch e.Op {
			case "invoke":
				for _, pk := range e.Pats {
					// only goodffi and latebad have two different source versions: re-translating one of them after an
					// edit (its new output is shorter and a prefix of the old one) is what exercises "rewritten iff changed"
					if translated[pk] && edited[pk] && ((pk == "goodffi") || (pk == "latebad" && e.Ign)) {
						sc += 5
						edited[pk] = false
					}
					translated[pk] = true
				}
				if e.RelOut {
					sc++
				}
			case "edit":
				if translated[e.P] {
					edited[e.P] = true
				}
			}
		}
		return sc
	}
	sort.SliceStable(sr.Prints, func(i, j int) bool { return score(sr.Prints[i]) > score(sr.Prints[j]) })
	if len(sr.Prints) > nb {
		// two thirds by score, the rest as they come
		keep := append([]string{}, sr.Prints[:nb*2/3]...)
		rest := sr.Prints[nb*2/3:]
		rr.Shuffle(len(rest), func(i, j int) { rest[i], rest[j] = rest[j], rest[i] })
		sr.Prints = append(keep, rest[:nb-len(keep)]...)
	}
	goose := filepath.Join(c.Bin, "goose")
	root := filepath.Join(c.Scratch, "c17mod")
	newModule := func() {
		_ = os.RemoveAll(root)
		_ = os.MkdirAll(root, 0755)
		gomod := fmt.Sprintf("module %s\n\ngo 1.22\n\nrequire github.com/goose-lang/goose v0.0.0\n\nreplace github.com/goose-lang/goose => %s\n", c17Mod, c.Repo)
		_ = os.WriteFile(filepath.Join(root, "go.mod"), []byte(gomod), 0644)
		sum, _ := os.ReadFile(filepath.Join(c.Repo, "go.sum"))
		_ = os.WriteFile(filepath.Join(root, "go.sum"), sum, 0644)
		for p := range c17Dirs {
			c17Write(root, p, 1)
		}
		// a directory tree without any Go package (target of the empty wildcard)
		_ = os.MkdirAll(filepath.Join(root, "docs", "sub"), 0755)
		_ = os.WriteFile(filepath.Join(root, "docs", "sub", "readme.md"), []byte("no go files here\n"), 0644)
	}
	invN := 0
	run := func(cwd string, args ...string) (string, int) {
		cmd := exec.Command(goose, args...)
		cmd.Dir = cwd
		cmd.Env = goEnv()
		// the number of processors the runtime may use must not matter (fewer workers than packages, one, many)
		invN++
		if gp := []string{"", "1", "2", "3", "5"}[invN%5]; gp != "" {
			cmd.Env = append(cmd.Env, "GOMAXPROCS="+gp)
		}
		b, err := cmd.CombinedOutput()
		code := 0
		if ee, ok := err.(*exec.ExitError); ok {
			code = ee.ExitCode()
		} else if err != nil {
			code = -1
		}
		return string(b), code
	}
	// reference translations: (package, version, kind) -> bytes
	newModule()
	ref := map[string][]byte{}
	for p := range c17Dirs {
		for v := 1; v <= 2; v++ {
			c17Write(root, p, v)
			for _, ign := range []bool{false, true} {
				out := filepath.Join(c.Scratch, "c17ref")
				_ = os.RemoveAll(out)
				args := []string{"-out", out, "-dir", root}
				if ign {
					args = append(args, "-ignore-errors")
				}
				_, code := run(root, append(args, "./"+c17Dirs[p])...)
				b, err := os.ReadFile(filepath.Join(out, c17CoqPath(p)))
				kind := "full"
				if code != 0 {
					kind = "partial"
				}
				if err == nil {
					ref[fmt.Sprintf("%s/%d/%s", p, v, kind)] = b
				}
			}
		}
		c17Write(root, p, 1)
	}
	// clauses on the references themselves
	if b := ref["tagged/1/full"]; !bytes.Contains(b, []byte("#4242")) || bytes.Contains(b, []byte("#1717")) {
		c.Violation("c17.build-tag", "package tagged: the translation does not use the file selected by the goose build tag (expected the body returning 4242, not 1717)", map[string]string{"emitted.v": string(b)})
	}
	{
		// the standard cgo constraint: goose must see the file `go list -tags goose` selects in the same environment
		cmd := exec.Command("go", "list", "-tags", "goose", "-f", "{{.GoFiles}}", "./cgotag")
		cmd.Dir, cmd.Env = root, goEnv()
		lo, lerr := cmd.CombinedOutput()
		b := ref["cgotag/1/full"]
		switch {
		case lerr != nil || b == nil:
			c.Inconclusive("cgotag: go list / reference translation unavailable: %v %s", lerr, firstLines(string(lo), 3))
		case strings.Contains(string(lo), "c_on.go") && (!bytes.Contains(b, []byte("#1111")) || bytes.Contains(b, []byte("#2222"))):
			c.Violation("c17.build-constraint", "package cgotag: the Go toolchain selects c_on.go (//go:build cgo) in this environment but the translation does not use it (expected the body returning 1111)", map[string]string{"emitted.v": string(b), "go-list.txt": string(lo)})
		case strings.Contains(string(lo), "c_off.go") && (!bytes.Contains(b, []byte("#2222")) || bytes.Contains(b, []byte("#1111"))):
			c.Violation("c17.build-constraint", "package cgotag: the Go toolchain selects c_off.go (//go:build !cgo) in this environment but the translation does not use it (expected the body returning 2222)", map[string]string{"emitted.v": string(b), "go-list.txt": string(lo)})
		}
	}
	if b := ref["partial/1/partial"]; b != nil {
		defs := regexp.MustCompile(`(?m)^Definition (\w+)`).FindAllStringSubmatch(string(b), -1)
		var names []string
		for _, d := range defs {
			names = append(names, d[1])
		}
		sort.Strings(names)
		if strings.Join(names, ",") != "Ok1,Ok2" {
			c.Violation("c17.partial-content", fmt.Sprintf("-ignore-errors on package partial: the file defines %v, expected exactly the declarations that translated [Ok1 Ok2]", names), map[string]string{"emitted.v": string(b)})
		}
	} else {
		c.Violation("c17.partial-missing", "-ignore-errors on package partial wrote no file", nil)
	}
	if b := ref["earlybad/1/partial"]; b != nil {
		defs := regexp.MustCompile(`(?m)^Definition (\w+)`).FindAllStringSubmatch(string(b), -1)
		var names []string
		for _, d := range defs {
			names = append(names, d[1])
		}
		sort.Strings(names)
		if strings.Join(names, ",") != "Ok1,Ok2,Ok3" {
			c.Violation("c17.partial-content", fmt.Sprintf("-ignore-errors on package earlybad (failing declaration in the first of three files): the file defines %v, expected [Ok1 Ok2 Ok3]", names), map[string]string{"emitted.v": string(b)})
		}
	} else {
		c.Violation("c17.partial-missing", "package earlybad (failing declaration in the first of three files): no partial reference; the command reported no error for it or wrote nothing with -ignore-errors", nil)
	}
	// an output tree in which a directory that is needed exists as a regular file: whatever the command does about it,
	// it must not claim success (exit 0) while a translated package has no file
	{
		newModule()
		out := filepath.Join(c.Scratch, "c17obst")
		_ = os.RemoveAll(out)
		obst := filepath.Join(out, filepath.Dir(c17CoqPath("nested")))
		_ = os.MkdirAll(filepath.Dir(obst), 0755)
		_ = os.WriteFile(obst, []byte("in the way\n"), 0644)
		msg, code := run(root, "-out", out, "-dir", root, "./"+c17Dirs["good"], "./"+c17Dirs["nested"])
		_, errN := os.Stat(filepath.Join(out, c17CoqPath("nested")))
		if code == 0 && errN != nil {
			c.Violation("c17.exit-0-without-file", fmt.Sprintf("a regular file occupies the place of the output directory of package nested: goose exits 0 although no file was written for that package\n%s", firstLines(msg, 6)), map[string]string{"tree.txt": listTree(out)})
		}
		_ = os.RemoveAll(out)
	}
	// re-translation after an edit that makes the new output a proper PREFIX of the file already there (packages with an
	// FFI prelude have no footer): goodffi loses its last function; latebad's last function becomes untranslatable and
	// -ignore-errors leaves it out
	for _, sc := range []struct {
		pkg, kind string
		ign       bool
	}{{"goodffi", "full", false}, {"latebad", "partial", true}} {
		newModule()
		out := filepath.Join(c.Scratch, "c17prefix")
		_ = os.RemoveAll(out)
		args := []string{"-out", out, "-dir", root}
		if sc.ign {
			args = append(args, "-ignore-errors")
		}
		args = append(args, "./"+c17Dirs[sc.pkg])
		_, _ = run(root, args...)
		first, _ := os.ReadFile(filepath.Join(out, c17CoqPath(sc.pkg)))
		c17Write(root, sc.pkg, 2)
		msg, _ := run(root, args...)
		got, _ := os.ReadFile(filepath.Join(out, c17CoqPath(sc.pkg)))
		want := ref[fmt.Sprintf("%s/2/%s", sc.pkg, sc.kind)]
		c17Write(root, sc.pkg, 1)
		if want == nil || first == nil {
			c.Inconclusive("no reference for %s/2/%s", sc.pkg, sc.kind)
		} else if !bytes.Equal(got, want) {
			c.Violation("c17.stale-after-edit", fmt.Sprintf("package %s translated, edited (its last function removed / made untranslatable) and translated again into the same directory: the file (%d bytes) is not the translation of the current sources (%d bytes; the earlier file had %d and starts with it)\n%s", sc.pkg, len(got), len(want), len(first), firstLines(msg, 4)),
				map[string]string{"got.v": string(got), "want.v": string(want)})
		}
		_ = os.RemoveAll(out)
	}
	// very many failing packages in one invocation (exit statuses are 8 bits wide: a status derived from a count
	// must not wrap to 0): 256 packages with a conversion error each, then 257 with one good package more
	{
		many := filepath.Join(c.Scratch, "c17many")
		_ = os.RemoveAll(many)
		_ = os.MkdirAll(many, 0755)
		_ = os.WriteFile(filepath.Join(many, "go.mod"), []byte("module example.com/many17\n\ngo 1.22\n"), 0644)
		for k := 0; k < 256; k++ {
			d := filepath.Join(many, fmt.Sprintf("bad/p%03d", k))
			_ = os.MkdirAll(d, 0755)
			_ = os.WriteFile(filepath.Join(d, "p.go"), []byte(fmt.Sprintf("package p%03d\n\nfunc F(x uint64) uint64 {\n\tdefer func() {}()\n\treturn x\n}\n", k)), 0644)
		}
		_ = os.MkdirAll(filepath.Join(many, "ok"), 0755)
		_ = os.WriteFile(filepath.Join(many, "ok", "o.go"), []byte("package ok\n\nfunc G() uint64 {\n\treturn 1\n}\n"), 0644)
		out := filepath.Join(c.Scratch, "c17manyout")
		for _, pats := range [][]string{{"./bad/..."}, {"./..."}} {
			for _, ign := range []bool{false, true} {
				_ = os.RemoveAll(out)
				args := []string{"-out", out, "-dir", many}
				if ign {
					args = append(args, "-ignore-errors")
				}
				msg, code := run(many, append(args, pats...)...)
				if code == 0 {
					c.Violation("c17.exit-0-with-failures", fmt.Sprintf("goose %v (-ignore-errors=%v) over 256 packages that each have a conversion error: exit status 0\n%s", pats, ign, lastLines(msg, 4)), nil)
					break
				}
			}
		}
		_ = os.RemoveAll(out)
		_ = os.RemoveAll(many)
	}
	// a module with vendored dependencies: the Go toolchain reads them from vendor/ (they are nowhere else), and so must
	// the translator, with the environment's GOFLAGS left alone
	{
		vend := filepath.Join(c.Scratch, "c17vend")
		_ = os.RemoveAll(vend)
		_ = os.MkdirAll(filepath.Join(vend, "app"), 0755)
		_ = os.MkdirAll(filepath.Join(vend, "vendor", "vendored.example", "dep"), 0755)
		_ = os.WriteFile(filepath.Join(vend, "go.mod"), []byte("module example.com/vend17\n\ngo 1.22\n\nrequire vendored.example/dep v1.0.0\n"), 0644)
		_ = os.WriteFile(filepath.Join(vend, "vendor", "modules.txt"), []byte("# vendored.example/dep v1.0.0\n## explicit; go 1.22\nvendored.example/dep\n"), 0644)
		_ = os.WriteFile(filepath.Join(vend, "vendor", "vendored.example", "dep", "d.go"), []byte("package dep\n\nfunc Seven() uint64 {\n\treturn 7\n}\n"), 0644)
		_ = os.WriteFile(filepath.Join(vend, "app", "a.go"), []byte("package app\n\nimport \"vendored.example/dep\"\n\nfunc Use() uint64 {\n\treturn dep.Seven() + 1\n}\n"), 0644)
		var env []string
		for _, kv := range goEnv() {
			if !strings.HasPrefix(kv, "GOFLAGS=") {
				env = append(env, kv)
			}
		}
		env = append(env, "GOFLAGS=")
		lst := exec.Command("go", "list", "-tags", "goose", "./app")
		lst.Dir, lst.Env = vend, env
		if lo, lerr := lst.CombinedOutput(); lerr != nil {
			c.Set("vendored_module", "go list does not accept the module here: "+firstLines(string(lo), 2))
		} else {
			out := filepath.Join(c.Scratch, "c17vendout")
			_ = os.RemoveAll(out)
			cmd := exec.Command(goose, "-out", out, "-dir", vend, "./app")
			cmd.Dir, cmd.Env = vend, env
			b, err := cmd.CombinedOutput()
			got := listTree(out)
			mod1, _ := os.ReadFile(filepath.Join(vend, "go.mod"))
			if err != nil || got != "example_com/vend17/app.v" {
				c.Violation("c17.vendored-module", fmt.Sprintf("module with a vendor directory (go list -tags goose ./app succeeds): goose ./app fails or writes something else (err %v, files %q): the patterns do not select the sources the Go toolchain selects\n%s", err, got, firstLines(string(b), 6)), nil)
			} else if !strings.Contains(string(mod1), "vendored.example/dep v1.0.0") {
				c.Violation("c17.vendored-module", "goose rewrote the go.mod of the module it translates", nil)
			} else {
				c.Set("vendored_module", "translated from vendor/")
			}
			_ = os.RemoveAll(out)
		}
		_ = os.RemoveAll(vend)
	}
	// import paths of one element: the root package of a module whose path has no slash, and its sub-package
	{
		solo := filepath.Join(c.Scratch, "c17solo")
		_ = os.RemoveAll(solo)
		_ = os.MkdirAll(filepath.Join(solo, "sub"), 0755)
		_ = os.WriteFile(filepath.Join(solo, "go.mod"), []byte("module solo17\n\ngo 1.22\n"), 0644)
		_ = os.WriteFile(filepath.Join(solo, "r.go"), []byte("package solo17\n\nfunc R() uint64 {\n\treturn 3\n}\n"), 0644)
		_ = os.WriteFile(filepath.Join(solo, "sub", "s.go"), []byte("package sub\n\nfunc S() uint64 {\n\treturn 4\n}\n"), 0644)
		out := filepath.Join(c.Scratch, "c17soloout")
		for _, pats := range [][]string{{"."}, {"./..."}, {"./sub", "."}} {
			_ = os.RemoveAll(out)
			msg, code := run(solo, append([]string{"-out", out, "-dir", solo}, pats...)...)
			want := "solo17.v"
			if len(pats) > 1 || pats[0] == "./..." {
				want = "solo17.v\nsolo17/sub.v"
			}
			if got := listTree(out); code != 0 || got != want {
				c.Violation("c17.one-element-import-path", fmt.Sprintf("module solo17 (module path of one element), goose %v: exit %d, files under -out %q, expected %q (the import path with '.' and '-' mapped to '_', plus .v)\n%s", pats, code, got, want, firstLines(msg, 5)), map[string]string{"tree.txt": got})
				break
			}
		}
		_ = os.RemoveAll(out)
		_ = os.RemoveAll(solo)
	}
	// a directory on another file system (tmpfs) if there is one
	otherFs := ""
	if st1, st2 := new(syscall.Stat_t), new(syscall.Stat_t); syscall.Stat("/dev/shm", st1) == nil && syscall.Stat(c.Scratch, st2) == nil && st1.Dev != st2.Dev {
		if d, err := os.MkdirTemp("/dev/shm", "verif-c17-"); err == nil {
			otherFs = d
			defer os.RemoveAll(d)
		}
	}
	c.Set("output_on_other_filesystem", otherFs != "")
	// ---- replay of the simulated invocation sequences ----
	replayed, invs := 0, 0
	old := time.Now().Add(-48 * time.Hour)
	for bi, p := range sr.Prints {
		var h []c17Inv
		if err := json.Unmarshal([]byte(p), &h); err != nil {
			c.Inconclusive("bad behaviour: %v", err)
			return
		}
		newModule()
		cwd := filepath.Join(c.Scratch, "c17cwd")
		_ = os.RemoveAll(cwd)
		_ = os.MkdirAll(cwd, 0755)
		if otherFs != "" && bi%3 == 1 {
			// working directory and output directory on another file system than the scratch / temporary directory
			cwd = filepath.Join(otherFs, "cwd")
			_ = os.RemoveAll(cwd)
			_ = os.MkdirAll(cwd, 0755)
		}
		absOut := filepath.Join(cwd, "outdir")
		ver := map[string]int{}
		for pk := range c17Dirs {
			ver[pk] = 1
		}
		if bi == 0 {
			c.Sample(map[string]any{"kind": "invocation sequence", "history": h})
		}
		failed := false
		for si, e := range h {
			if e.Op == "edit" {
				ver[e.P] = 3 - ver[e.P]
				c17Write(root, e.P, ver[e.P])
				continue
			}
			// age every existing output file
			_ = filepath.Walk(absOut, func(pp string, info os.FileInfo, err error) error {
				if err == nil && !info.IsDir() {
					_ = os.Chtimes(pp, old, old)
				}
				return nil
			})
			args := []string{"-dir", root}
			patPrefix := "./"
			if e.SubDir {
				// a directory inside the module: go.mod is two levels up, patterns are written relative to -dir
				args = []string{"-dir", filepath.Join(root, "sub.d", "p-q")}
				patPrefix = "../../"
			}
			if e.RelOut {
				args = append(args, "-out", "outdir") // relative to the invocation's working directory
			} else {
				args = append(args, "-out", absOut)
			}
			if e.Ign {
				args = append(args, "-ignore-errors")
			}
			if e.Op == "nomatch" {
				args = append(args, "./nomatch/...")
			}
			for _, pk := range e.Pats {
				args = append(args, patPrefix+c17Dirs[pk])
			}
			if e.EmptyWild {
				args = append(args, patPrefix+"docs/...")
			}
			msg, code := run(cwd, args...)
			invs++
			bad := ""
			// the property fixes only zero / non-zero (the specification's 1 stands for any failure status)
			if (code == 0) != (e.Exit == 0) || code < 0 {
				bad = fmt.Sprintf("exit status %d, specification (GooseCmd.tla) says %s", code, map[bool]string{true: "0", false: "non-zero"}[e.Exit == 0])
			}
			written := map[string]bool{}
			for _, w := range e.Written {
				written[w] = true
			}
			for pk, tv := range e.Tree {
				if bad != "" {
					break
				}
				f := filepath.Join(absOut, c17CoqPath(pk))
				b, err := os.ReadFile(f)
				switch {
				case tv.Kind == "absent" && err == nil:
					bad = fmt.Sprintf("file for package %s exists but the specification says it must not", pk)
				case tv.Kind != "absent" && err != nil:
					bad = fmt.Sprintf("file %s for package %s is missing", c17CoqPath(pk), pk)
				case tv.Kind != "absent":
					want := ref[fmt.Sprintf("%s/%d/%s", pk, tv.V, tv.Kind)]
					if want == nil {
						c.Inconclusive("no reference for %s/%d/%s", pk, tv.V, tv.Kind)
					} else if !bytes.Equal(b, want) {
						bad = fmt.Sprintf("file for package %s is not the %s translation of its source version %d", pk, tv.Kind, tv.V)
					}
					st, _ := os.Stat(f)
					rewritten := st != nil && st.ModTime().After(old.Add(time.Hour))
					if bad == "" && rewritten && !written[pk] {
						bad = fmt.Sprintf("file for package %s was rewritten although its content did not change", pk)
					}
				}
			}
			// nothing else may appear under -out
			if bad == "" {
				known := map[string]bool{}
				for pk := range c17Dirs {
					known[c17CoqPath(pk)] = true
				}
				for _, f := range strings.Split(listTree(absOut), "\n") {
					if f != "" && !known[f] {
						bad = "unexpected file under -out: " + f
					}
				}
				if entries, _ := os.ReadDir(filepath.Join(root, "outdir")); len(entries) > 0 {
					bad = "output was written below the -dir module instead of the directory goose was invoked from"
				}
			}
			if bad != "" {
				hb, _ := json.MarshalIndent(h[:si+1], "", " ")
				c.Violation("c17.invocation", fmt.Sprintf("invocation %d (patterns %v, -ignore-errors=%v, relative -out=%v, -dir inside the module=%v, extra empty wildcard=%v): %s\n%s", si+1, e.Pats, e.Ign, e.RelOut, e.SubDir, e.EmptyWild, bad, firstLines(msg, 6)),
					map[string]string{"history.json": string(hb), "stderr.txt": msg, "tree.txt": listTree(absOut)})
				failed = true
				break
			}
		}
		if !failed {
			replayed++
		}
		if c.NViolations() > 4 {
			break
		}
	}
	c.AddTraces(replayed)
	c.Set("replayed_sequences", replayed)
	c.Set("invocations", invs)
	c.Set("evaluations", invs)
	c.Set("distinct_nontrivial", replayed)
	c.Set("rule", "TLC-simulated sequences of invocations (pattern lists over 11 packages incl. failing / partially failing / late failing / build-tagged / nested-path / FFI / unloadable ones, -ignore-errors, absolute or relative -out, -dir inside the module, an empty wildcard, a non-matching pattern) interleaved with source edits; each replayed on the real binary with exit status, file set, bytes and rewrite status compared")
}
