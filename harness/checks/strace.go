package checks

import (
	"bytes"
	"fmt"
	"os"
	"os/exec"
	"regexp"
	"strconv"
	"strings"
	"time"
)

// sysLine is one parsed line of an strace log.
type sysLine struct {
	Pid    int
	Name   string
	Args   string
	Ret    int
	Errno  string
	Marker string // non-empty for write(999, "...") markers
	Stdout string // non-empty for write(1, "...")
	Killed bool
}

var reSys = regexp.MustCompile(`^(\d+)\s+(\w+)\((.*)\)\s+=\s+(-?\d+|\?)(?:\s+(\w+))?`)
var reUnfinished = regexp.MustCompile(`^(\d+)\s+(\w+)\((.*) <unfinished \.\.\.>`)

func unquoteStrace(s string) string {
	// first argument string of write(fd, "....", n)
	i := strings.Index(s, `"`)
	j := strings.LastIndex(s, `"`)
	if i < 0 || j <= i {
		return ""
	}
	q := s[i : j+1]
	if u, err := strconv.Unquote(q); err == nil {
		return u
	}
	return q
}

var reResumed = regexp.MustCompile(`^(\d+)\s+<\.\.\. (\w+) resumed>(.*)\)\s+=\s+(-?\d+|\?)(?:\s+(\w+))?`)

func parseStrace(log string) []sysLine {
	var out []sysLine
	// a call during which another thread makes a call is logged in two pieces: "name(args <unfinished ...>" and
	// "<... name resumed>rest) = ret"; the call is recorded where it completes
	pending := map[string]string{}
	for _, ln := range strings.Split(log, "\n") {
		if m := reUnfinished.FindStringSubmatch(ln); m != nil {
			pending[m[1]+"/"+m[2]] = m[3]
			continue
		}
		if m := reResumed.FindStringSubmatch(ln); m != nil {
			args, ok := pending[m[1]+"/"+m[2]]
			if ok {
				delete(pending, m[1]+"/"+m[2])
				ln = fmt.Sprintf("%s %s(%s%s) = %s", m[1], m[2], args, m[3], m[4])
				if m[5] != "" {
					ln += " " + m[5]
				}
			}
		}
		if m := reSys.FindStringSubmatch(ln); m != nil {
			pid, _ := strconv.Atoi(m[1])
			ret := -999
			if m[4] != "?" {
				ret, _ = strconv.Atoi(m[4])
			}
			sl := sysLine{Pid: pid, Name: m[2], Args: m[3], Ret: ret, Errno: m[5]}
			if sl.Name == "write" {
				if strings.HasPrefix(sl.Args, "999,") {
					sl.Marker = unquoteStrace(sl.Args)
				} else if strings.HasPrefix(sl.Args, "1,") {
					sl.Stdout = unquoteStrace(sl.Args)
				}
			}
			out = append(out, sl)
		} else if strings.Contains(ln, "+++ killed by SIGKILL") {
			out = append(out, sysLine{Name: "KILLED", Killed: true})
		}
	}
	return out
}

type straceRun struct {
	Lines    []sysLine
	Stdout   string
	ExitCode int
	Killed   bool
	Log      string
	Err      error
}

const straceSet = "openat,open,fstat,newfstatat,ftruncate,pread64,pwrite64,fsync,fdatasync,close,write,renameat,renameat2,rename,linkat,unlinkat,mkdirat,getdents64"

// runStraced runs `self -child name args...` under strace with optional injections.
func runStraced(scratch string, inject []string, child string, args ...string) straceRun {
	self, _ := os.Executable()
	logf, _ := os.CreateTemp(scratch, "strace-*.log")
	logf.Close()
	defer os.Remove(logf.Name())
	a := []string{"-f", "-qq", "-s", "200", "-o", logf.Name(), "-e", "trace=" + straceSet}
	for _, in := range inject {
		a = append(a, "-e", "inject="+in)
	}
	a = append(a, self, "-child", child)
	a = append(a, args...)
	cmd := exec.Command("strace", a...)
	var so, se bytes.Buffer
	cmd.Stdout, cmd.Stderr = &so, &se
	done := make(chan error, 1)
	if err := cmd.Start(); err != nil {
		return straceRun{Err: err}
	}
	go func() { done <- cmd.Wait() }()
	var err error
	select {
	case err = <-done:
	case <-time.After(60 * time.Second):
		_ = cmd.Process.Kill()
		return straceRun{Err: fmt.Errorf("strace child timed out")}
	}
	r := straceRun{Stdout: so.String()}
	if ee, ok := err.(*exec.ExitError); ok {
		r.ExitCode = ee.ExitCode()
	} else if err != nil {
		r.Err = err
		return r
	}
	b, _ := os.ReadFile(logf.Name())
	r.Log = string(b)
	r.Lines = parseStrace(r.Log)
	for _, l := range r.Lines {
		if l.Killed {
			r.Killed = true
		}
	}
	if strings.Contains(se.String(), "strace:") && len(r.Lines) == 0 {
		r.Err = fmt.Errorf("strace failed: %s", se.String())
	}
	return r
}

// occurrenceAfterMarker finds, in a calibration run, the per-thread occurrence
// index (1-based) of the first call of one of the named syscalls after the
// marker of an operation - the `when=` value that makes exactly that call fail.
func occurrenceAfterMarker(lines []sysLine, marker string, names ...string) (int, string) {
	isName := func(n string) bool {
		for _, x := range names {
			if x == n {
				return true
			}
		}
		return false
	}
	mi := -1
	for i, l := range lines {
		if l.Marker != "" && strings.HasPrefix(l.Marker, marker) {
			mi = i
			break
		}
	}
	if mi < 0 {
		return 0, ""
	}
	pid := lines[mi].Pid
	for j := mi + 1; j < len(lines); j++ {
		if lines[j].Marker != "" {
			break
		}
		if lines[j].Pid == pid && isName(lines[j].Name) {
			cnt := 0
			for i := 0; i <= j; i++ {
				if lines[i].Pid == pid && lines[i].Name == lines[j].Name {
					cnt++
				}
			}
			return cnt, lines[j].Name
		}
	}
	return 0, ""
}
