package checks

import (
	"bytes"
	"encoding/binary"
	"encoding/json"
	"fmt"
	"math/rand/v2"
	"os"
	"os/exec"
	"path/filepath"
	"runtime"
	"sort"
	"strings"
	"sync"
	"sync/atomic"
	"syscall"
	"time"

	"github.com/goose-lang/goose/machine/disk"

	"verif/ev"
	"verif/tlc"
)

func init() {
	Registry["C10"] = C10
	children["race-disk"] = raceDiskChild
	children["disk-delay"] = diskDelayChild
}

const patMul = 0x9E3779B97F4A7C15

var patInv = func() uint64 { // inverse of patMul modulo 2^64 (Newton iteration)
	x := uint64(patMul)
	for i := 0; i < 6; i++ {
		x *= 2 - patMul*x
	}
	return x
}()

// classifyFast maps bytes to the written value (any int >= 0) or rTORN.
func classifyFast(b []byte) int {
	if len(b) != 4096 {
		return rTORN
	}
	w0 := binary.LittleEndian.Uint64(b)
	v := w0 * patInv
	if v > 1<<40 {
		return rTORN
	}
	if v == 0 {
		for _, x := range b {
			if x != 0 {
				return rTORN
			}
		}
		return 0
	}
	for w := 0; w < 512; w++ {
		if binary.LittleEndian.Uint64(b[w*8:]) != v*patMul+uint64(w)*0x100000001B3 {
			return rTORN
		}
	}
	return int(v)
}

type seqEv struct {
	seq int64
	e   map[string]any
}

// stressDisk runs k client goroutines with m operations each and returns the
// merged inv/res history. singleWriter: goroutine g writes only addresses a with a%k == g.
func stressDisk(d disk.Disk, n, k, m int, hot int, singleWriter bool, r *rand.Rand, nextVal *int64) []map[string]any {
	var seq atomic.Int64
	logs := make([][]seqEv, k)
	seeds := make([]uint64, k)
	for g := range seeds {
		seeds[g] = r.Uint64()
	}
	var wg sync.WaitGroup
	start := make(chan struct{})
	for g := 0; g < k; g++ {
		wg.Add(1)
		go func(g int) {
			defer wg.Done()
			rr := rand.New(rand.NewPCG(seeds[g], 77))
			buf := make([]byte, 4096)
			lastW := map[int]int{}
			<-start
			for i := 0; i < m; i++ {
				a := rr.IntN(hot)
				x := rr.IntN(100)
				var op string
				v := 0
				switch {
				case x < 45:
					op = "read"
				case x < 90:
					op = "write"
					if singleWriter {
						// pick an address owned by this goroutine, if any
						own := []int{}
						for aa := 0; aa < n; aa++ {
							if aa%k == g {
								own = append(own, aa)
							}
						}
						if len(own) == 0 {
							op = "read"
						} else {
							a = own[rr.IntN(len(own))]
						}
					}
					if op == "write" {
						if lv, ok := lastW[a]; ok && rr.IntN(5) == 0 {
							v = lv // the very block this client wrote there last (often what the address still holds)
						} else if !ok && rr.IntN(4) == 0 {
							v = 0 // the zero block, over an address this client has not written yet
						} else {
							v = int(atomic.AddInt64(nextVal, 1))
						}
						lastW[a] = v
					}
				case x < 95:
					op = "size"
				default:
					op = "read"
					a = n + rr.IntN(2) // out of range
				}
				var wbuf []byte
				if op == "write" {
					wbuf = pattern(v)
				}
				inv := seqEv{e: map[string]any{"ev": "inv", "c": g, "op": op, "a": a, "v": v}}
				inv.seq = seq.Add(1)
				rep := 0
				switch op {
				case "read":
					if i%2 == 0 {
						var out []byte
						if catchPanic(func() { out = d.Read(uint64(a)) }) {
							rep = rPANIC
						} else {
							rep = classifyFast(out)
						}
					} else {
						if catchPanic(func() { d.ReadTo(uint64(a), buf) }) {
							rep = rPANIC
						} else {
							rep = classifyFast(buf)
						}
					}
				case "write":
					if catchPanic(func() { d.Write(uint64(a), wbuf) }) {
						rep = rPANIC
					} else {
						rep = rOK
					}
				case "size":
					rep = int(d.Size())
				}
				res := seqEv{e: map[string]any{"ev": "res", "c": g, "r": rep}}
				res.seq = seq.Add(1)
				logs[g] = append(logs[g], inv, res)
			}
		}(g)
	}
	close(start)
	wg.Wait()
	var all []seqEv
	for _, l := range logs {
		all = append(all, l...)
	}
	sort.Slice(all, func(i, j int) bool { return all[i].seq < all[j].seq })
	out := make([]map[string]any, len(all))
	for i, s := range all {
		out[i] = s.e
	}
	return out
}

// overlapScore counts res events that arrive while another client is pending (real concurrency).
func overlapScore(evs []map[string]any) int {
	pend := map[any]bool{}
	n := 0
	for _, e := range evs {
		switch e["ev"] {
		case "inv":
			pend[e["c"]] = true
		case "res":
			delete(pend, e["c"])
			if len(pend) > 0 {
				n++
			}
		}
	}
	return n
}

type gateRow struct {
	Aop   string `json:"aop"`
	Bop   string `json:"bop"`
	Same  int    `json:"same"`
	Enter int    `json:"enter"`
}

// forcedSchedule parks A inside its critical section and observes whether B enters.
// returns (bEntered, ok); ok=false means the driver did not get as far as the observation.
func forcedDiskSchedule(row gateRow, delta time.Duration) (bEntered bool, ok bool) {
	d := disk.NewMemDisk(2)
	d.Write(0, pattern(1))
	d.Write(1, pattern(2))
	var cnt atomic.Int32
	first := make(chan struct{})
	second := make(chan struct{}, 1)
	release := make(chan struct{})
	disk.VerifHook = func(point string, a uint64) {
		if !strings.HasSuffix(point, ".enter") {
			return
		}
		switch cnt.Add(1) {
		case 1:
			close(first)
			<-release
		case 2:
			second <- struct{}{}
		}
	}
	defer func() { disk.VerifHook = nil }()
	run := func(op string, a uint64, done chan struct{}) {
		defer close(done)
		if op == "read" {
			buf := make([]byte, 4096)
			d.ReadTo(a, buf)
		} else {
			d.Write(a, pattern(7))
		}
	}
	doneA, doneB := make(chan struct{}), make(chan struct{})
	go run(row.Aop, 0, doneA)
	select {
	case <-first:
	case <-time.After(5 * time.Second):
		close(release)
		return false, false
	}
	bAddr := uint64(0)
	if row.Same == 0 {
		bAddr = 1
	}
	go run(row.Bop, bAddr, doneB)
	select {
	case <-second:
		bEntered = true
	case <-time.After(delta):
	}
	close(release)
	for _, ch := range []chan struct{}{doneA, doneB} {
		select {
		case <-ch:
		case <-time.After(5 * time.Second):
			return bEntered, false
		}
	}
	return bEntered, true
}

func C10(c *ev.Ctx) {
	c.Level = "model_checking"
	c.Assume("client goroutines take a global atomic sequence number before each call and after each return",
		"every write carries a unique 4096-byte pattern; any mixture is classified TORN",
		"FileDisk driver: one writer goroutine per address (the property only orders real-time-ordered operations on one address)",
		"data-race freedom is decided by Go's race detector on the same drivers, not by TLC",
		"gate time-outs only suppress violations: a critical section is 'blocked' if its hook does not fire within delta")
	dir, err := c.SpecDir("spec-disk", "disk")
	if err != nil {
		c.Inconclusive("copy specs: %v", err)
		return
	}
	// (1) design: L2 model of mem.go as written refines the register array
	r := tlc.Run{Dir: dir, Module: "MemDisk", Workers: 12, Timeout: 10 * time.Minute, HeapMB: 8000}.Do()
	if !c.CheckTLC("MemDisk exhaustive (as written)", r) {
		return
	}
	// sensitivity of the specification: each modelled breaking change must violate LinOK
	sens := []string{}
	for _, n := range []string{"NoLockReads", "NoLockWrites", "CopyOutside"} {
		b, _ := os.ReadFile(filepath.Join(dir, "MemDisk_"+n+".cfg"))
		_ = os.WriteFile(filepath.Join(dir, "MemDisk_"+n+".cfg"), []byte(strings.Replace(string(b), "INVARIANTS MutualExclusion NoTornRead LinOK Refines", "INVARIANTS LinOK", 1)), 0644)
		mr := tlc.Run{Dir: dir, Module: "MemDisk", Cfg: "MemDisk_" + n + ".cfg", Workers: 8, Timeout: 5 * time.Minute}.Do()
		c.AddTLC(mr)
		if mr.Violated != "LinOK" {
			c.Inconclusive("MemDisk_%s: expected LinOK to be violated by the modelled breaking change, got %q\n%s", n, mr.Violated, tlc.Tail(mr.Out, 10))
			return
		}
		sens = append(sens, n+": LinOK violated (as expected)")
	}
	c.Set("spec_sensitivity", sens)
	c.Set("design_model", "MemDisk.tla: 3 threads x 2 ops, 2 addresses, |Val|=3; invariants MutualExclusion NoTornRead LinOK Refines")

	// (2) gate table from the specification, forced on the real MemDisk through the verif hooks
	gr := tlc.Run{Dir: dir, Module: "MemDisk", Cfg: "MemDiskGate.cfg", Workers: 1, Timeout: 2 * time.Minute}.Do()
	c.AddTLC(gr)
	rows := map[gateRow]bool{}
	for _, p := range gr.Prints {
		var g gateRow
		if json.Unmarshal([]byte(p), &g) == nil {
			rows[g] = true
		}
	}
	if len(rows) != 8 {
		c.Inconclusive("expected 8 gate scenarios from MemDisk.tla, got %d\n%s", len(rows), tlc.Tail(gr.Out, 10))
		return
	}
	delta := time.Duration(c.Pick(40, 150)) * time.Millisecond
	reps := c.Pick(3, 12)
	forced, blockedOK, enteredOK := 0, 0, 0
	var keys []gateRow
	for g := range rows {
		keys = append(keys, g)
	}
	sort.Slice(keys, func(i, j int) bool { return jsonStr(keys[i]) < jsonStr(keys[j]) })
	for _, g := range keys {
		for i := 0; i < reps; i++ {
			entered, ok := forcedDiskSchedule(g, delta)
			if !ok {
				c.Inconclusive("forced schedule %+v: driver did not complete", g)
				continue
			}
			forced++
			if entered && g.Enter == 0 {
				c.Violation("gate-"+g.Aop+"-"+g.Bop, fmt.Sprintf("MemDisk: with a %s parked inside its critical section, a %s (same address: %d) entered its critical section; MemDisk.tla (CanEnter) forbids it", g.Aop, g.Bop, g.Same),
					map[string]string{"scenario.json": jsonStr(g)})
				break
			}
			if entered {
				enteredOK++
			} else {
				blockedOK++
			}
		}
	}
	c.Set("forced_schedules", map[string]int{"run": forced, "second_entered_allowed": enteredOK, "second_blocked": blockedOK})
	c.Sample(map[string]any{"kind": "gate scenario", "row": keys[0]})

	// (3) stress histories: mem -> linearizability, file -> per-address real-time order
	rr := rng(c, 10)
	var nextVal int64
	nShort := c.Pick(120, 1500)
	nLong := c.Pick(2, 12)
	imgDir := mustMkdir(filepath.Join(c.Scratch, "img10"))
	hung := false
	build := func(file bool) ([]map[string]any, map[int]string, int, int) {
		var evs []map[string]any
		seg := map[int]string{}
		overl := 0
		count := 0
		add := func(k, m, n, hot int) {
			if hung {
				return
			}
			var d disk.Disk
			name := "mem"
			if file {
				p := filepath.Join(imgDir, "lin.img")
				_ = os.Remove(p)
				fd, err := disk.NewFileDisk(p, uint64(n))
				if err != nil {
					c.Inconclusive("NewFileDisk: %v", err)
					return
				}
				d = fd
				name = "file"
			} else {
				d = disk.NewMemDisk(uint64(n))
			}
			var h []map[string]any
			finished := make(chan bool, 1)
			go func() { h = stressDisk(d, n, k, m, hot, file, rr, &nextVal); finished <- true }()
			select {
			case <-finished:
			case <-time.After(90 * time.Second):
				buf := make([]byte, 1<<20)
				buf = buf[:runtime.Stack(buf, true)]
				hung = true
				if hangInside(string(buf), "machine/disk") {
					c.Violation("hang-"+name, fmt.Sprintf("the concurrent driver on %s (k=%d clients, n=%d blocks) never finished: a goroutine is blocked for good inside the library (deadlock)\n%s", name, k, n, tlc.Tail(string(buf), 60)), map[string]string{"goroutines.txt": string(buf)})
				} else {
					c.Inconclusive("the concurrent driver did not finish in 90 s")
				}
				return
			}
			if catchPanic(func() { d.Close() }) {
				c.Violation("close-panics-"+name, fmt.Sprintf("Close of a %s disk that is open and was only used through Read/ReadTo/Write/Size panics (k=%d clients, n=%d)", name, k, n), nil)
				hung = true
				return
			}
			seg[len(evs)] = fmt.Sprintf("%s k=%d m=%d n=%d", name, k, m, n)
			evs = append(evs, map[string]any{"ev": "reset", "n": n})
			evs = append(evs, h...)
			overl += overlapScore(h)
			count++
		}
		for i := 0; i < nShort; i++ {
			k := 2 + rr.IntN(3)
			n := 1 + rr.IntN(3)
			if file {
				n = k + rr.IntN(2)
			}
			hot := 1 + rr.IntN(2)
			if hot > n || file {
				hot = n
			}
			add(k, 6+rr.IntN(20), n, hot)
		}
		if file {
			// many distinct addresses (write-behind buffers, batching thresholds): 96 and 200 blocks
			add(4, c.Pick(2500, 8000), 96, 96)
			add(3, c.Pick(2500, 8000), 200, 200)
		}
		for i := 0; i < nLong; i++ {
			if file {
				add(4, c.Pick(1500, 4000), 4, 4)
			} else {
				add(4, c.Pick(1500, 4000), 2, 1+i%2)
			}
		}
		return evs, seg, overl, count
	}
	memEvs, memSeg, memOv, memN := build(false)
	if hung {
		return
	}
	fileEvs, fileSeg, fileOv, fileN := build(true)
	if hung {
		return
	}
	// two disks alive at once, each with its own clients: a disk is a function of the calls made on IT
	for _, file := range []bool{false, true} {
		pevs, pseg, pn, ok := pairRounds(c, file, imgDir, c.Pick(40, 400), rr, &nextVal)
		if !ok {
			return
		}
		if file {
			for at, d := range pseg {
				fileSeg[len(fileEvs)+at] = d
			}
			fileEvs = append(fileEvs, pevs...)
			fileOv += overlapScore(pevs)
			fileN += pn
		} else {
			for at, d := range pseg {
				memSeg[len(memEvs)+at] = d
			}
			memEvs = append(memEvs, pevs...)
			memOv += overlapScore(pevs)
			memN += pn
		}
	}
	c.Set("two_disk_rounds", c.Pick(40, 400)*2)
	{
		bevs, bseg, bn := fileBursts(c, imgDir, &nextVal)
		for at, d := range bseg {
			fileSeg[len(fileEvs)+at] = d
		}
		fileEvs = append(fileEvs, bevs...)
		fileOv += overlapScore(bevs)
		fileN += bn
		c.Set("file_burst_rounds", bn)
		// the same bursts with the system calls of the writers slowed down selectively (strace delay injection)
		devs, derr := runDiskDelay(c, c.Pick(150, 1200))
		if derr != nil {
			c.Inconclusive("%v", derr)
		} else {
			for i, e := range devs {
				if e["ev"] == "reset" {
					fileSeg[len(fileEvs)+i] = "file bursts under strace delay injection (every second fstat/ftruncate/pwrite64/pread64 of a thread is delayed 1.2 ms; parity chosen at random per operation)"
					fileN++
				}
			}
			fileEvs = append(fileEvs, devs...)
			c.Set("file_delayed_rounds", c.Pick(150, 1200)*2)
		}
	}
	c.Sample(map[string]any{"kind": "mem history prefix", "events": memEvs[:min(16, len(memEvs))]})
	lin := func(module string, evs []map[string]any, seg map[int]string, dfs bool, nh int) {
		rest := evs
		base := 0
		bad := 0
		for len(rest) > 0 {
			if err := writeNDJSON(filepath.Join(dir, "trace.ndjson"), rest); err != nil {
				c.Inconclusive("write trace: %v", err)
				return
			}
			tr := tlc.Run{Dir: dir, Module: module, Workers: 1, DFS: dfs, Timeout: 20 * time.Minute, HeapMB: 8000, StackMB: 64}.Do()
			c.AddTLC(tr)
			hw := 0
			for _, p := range tr.Prints {
				fmt.Sscanf(strings.Trim(p, `"`), "%d", &hw)
			}
			if tr.NoError && tr.Violated == "" {
				break
			}
			if tr.Violated != "postcondition" || strings.Contains(tr.Out, "Error: Evaluating") || tr.TimedOut || hw < 1 || hw > len(rest) {
				c.Inconclusive("%s did not run cleanly:\n%s", module, tlc.Tail(tr.Out, 25))
				return
			}
			at := hw - 1
			s := segmentStart(rest, at)
			c.Violation("lin-"+strings.Fields(seg[base+s])[0], fmt.Sprintf("concurrent history of %s cannot be explained by %s: no placement of linearization points / real-time order yields event %d %s\n%s",
				seg[base+s], module, at-s+1, jsonStr(rest[at]), window(rest, at, 12, 1)),
				map[string]string{"trace.ndjson": ndjsonString(rest[s:min(len(rest), at+40)]), "history.txt": seg[base+s]})
			bad++
			nx := at + 1
			for nx < len(rest) && rest[nx]["ev"] != "reset" {
				nx++
			}
			base += nx
			rest = rest[nx:]
			if bad >= 3 {
				break
			}
		}
		c.AddTraces(nh - bad)
	}
	lin("DiskLinTrace", memEvs, memSeg, true, memN)
	lin("DiskRegTrace", fileEvs, fileSeg, false, fileN)
	c.Set("histories", map[string]int{"mem": memN, "file": fileN, "mem_events": len(memEvs), "file_events": len(fileEvs)})
	c.Set("evaluations", memN+fileN+forced)
	c.Set("distinct_nontrivial", memOv+fileOv)
	c.Set("rule", "evaluations = concurrent histories validated + forced schedules; distinct_nontrivial = number of operation responses that arrived while another client's operation was pending (real overlap), counted over all histories (histories are distinct by construction: every write value is globally unique)")

	// (4) data races: the same stress driver under the race detector
	raceChild(c, "race-disk", "machine/disk")
}

// pairRounds: in every round two disks of the same size exist at once and are used at the same time by disjoint
// sets of clients; each disk's history is validated on its own, so anything one disk shows of the other's writes is
// rejected. In-memory disks are created after another disk was closed (twice: Close of a MemDisk is a no-op) and
// file-backed ones with garbage collections in between (descriptor lifetime, recycled descriptor numbers).
func pairRounds(c *ev.Ctx, file bool, imgDir string, rounds int, rr *rand.Rand, nextVal *int64) ([]map[string]any, map[int]string, int, bool) {
	var evs []map[string]any
	seg := map[int]string{}
	count := 0
	name := "mem"
	if file {
		name = "file"
	}
	gc := func() {
		runtime.GC()
		time.Sleep(2 * time.Millisecond)
		runtime.GC()
	}
	for round := 0; round < rounds; round++ {
		n := 2 + rr.IntN(3)
		m := 8 + rr.IntN(16)
		var ds [2]disk.Disk
		if !file {
			old := disk.NewMemDisk(uint64(n))
			_ = catchPanic(func() { old.Write(0, pattern(int(atomic.AddInt64(nextVal, 1)))) })
			_ = catchPanic(func() { old.Close() })
			_ = catchPanic(func() { old.Close() })
		}
		for i := range ds {
			if file {
				p := filepath.Join(imgDir, fmt.Sprintf("pair%d.img", i))
				_ = os.Remove(p)
				fd, err := disk.NewFileDisk(p, uint64(n))
				if err != nil {
					c.Inconclusive("NewFileDisk: %v", err)
					return nil, nil, 0, false
				}
				ds[i] = fd
				gc()
			} else {
				ds[i] = disk.NewMemDisk(uint64(n))
			}
		}
		var hs [2][]map[string]any
		rs := [2]*rand.Rand{rand.New(rand.NewPCG(rr.Uint64(), 1)), rand.New(rand.NewPCG(rr.Uint64(), 2))}
		finished := make(chan bool, 2)
		for i := range ds {
			go func(i int) { hs[i] = stressDisk(ds[i], n, 2, m, n, file, rs[i], nextVal); finished <- true }(i)
		}
		for i := 0; i < 2; i++ {
			select {
			case <-finished:
			case <-time.After(90 * time.Second):
				buf := make([]byte, 1<<20)
				buf = buf[:runtime.Stack(buf, true)]
				if hangInside(string(buf), "machine/disk") {
					c.Violation("hang-"+name, fmt.Sprintf("two %s disks used at once (2 clients each, n=%d blocks): a goroutine is blocked for good inside the library (deadlock)\n%s", name, n, tlc.Tail(string(buf), 60)), map[string]string{"goroutines.txt": string(buf)})
				} else {
					c.Inconclusive("the two-disk driver did not finish in 90 s")
				}
				return nil, nil, 0, false
			}
		}
		for i := range ds {
			if catchPanic(func() { ds[i].Close() }) {
				c.Violation("close-panics-"+name, fmt.Sprintf("Close of a %s disk that is open and was only used through Read/ReadTo/Write/Size panics (two disks alive at once, n=%d): something other than its owner closed or replaced its resources", name, n), nil)
				return nil, nil, 0, false
			}
			seg[len(evs)] = fmt.Sprintf("%s two-disks-at-once disk=%d k=2 m=%d n=%d", name, i, m, n)
			evs = append(evs, map[string]any{"ev": "reset", "n": n})
			evs = append(evs, hs[i]...)
			count++
		}
	}
	return evs, seg, count, true
}

// raceChild runs a child driver of the -race build of the harness and judges its report.
func raceChild(c *ev.Ctx, child, pkgFilter string) {
	bin := filepath.Join(c.Bin, "vcheck-race")
	if _, err := os.Stat(bin); err != nil {
		c.Inconclusive("race build of the harness is missing: %v", err)
		return
	}
	cmd := exec.Command(bin, "-child", child, fmt.Sprint(c.Seed), c.Tier, c.Scratch)
	cmd.Env = append(os.Environ(), "GORACE=halt_on_error=0 history_size=3")
	s, err, timedOut := runWithDeadline(cmd, time.Duration(c.Pick(8, 30))*time.Minute)
	if timedOut && !strings.Contains(s, "WARNING: DATA RACE") {
		if hangInside(s, pkgFilter) {
			c.Violation("hang", "the concurrent driver never finished: a goroutine is blocked for good inside "+pkgFilter+" (deadlock)\n"+tlc.Tail(s, 50), map[string]string{"goroutines.txt": s})
		} else {
			c.Inconclusive("race child %s did not finish in time:\n%s", child, tlc.Tail(s, 30))
		}
		return
	}
	if strings.Contains(s, "WARNING: DATA RACE") {
		if strings.Contains(s, pkgFilter) {
			c.Violation("data-race", "Go race detector reports a data race inside "+pkgFilter+" under the concurrent driver\n"+tlc.Tail(s, 60),
				map[string]string{"race-report.txt": s})
		} else {
			c.Inconclusive("race report that does not involve %s (harness problem):\n%s", pkgFilter, tlc.Tail(s, 40))
		}
		return
	}
	if strings.Contains(s, "GLOBAL-FIRST-USE-LOST") {
		c.Violation("global-first-use", "the package-level disk wrappers were used by 8 goroutines before any Init: the writes all returned normally but some cannot be read back (several default disks were installed)\n"+tlc.Tail(s, 5), nil)
		return
	}
	if strings.Contains(s, "fatal error: concurrent map") {
		c.Violation("data-race", "Go runtime aborted with a concurrent map access inside the library under the concurrent driver\n"+tlc.Tail(s, 40),
			map[string]string{"race-report.txt": s})
		return
	}
	if err != nil || !strings.Contains(s, "RACE-DRIVER-DONE") {
		c.Inconclusive("race child %s failed: %v\n%s", child, err, tlc.Tail(s, 30))
		return
	}
	c.Set("race_detector", "no report: "+strings.TrimSpace(tlc.Tail(s, 1)))
}

func raceDiskChild(args []string) int {
	seed := uint64(1)
	fmt.Sscan(args[0], &seed)
	tier, scratch := args[1], args[2]
	r := rand.New(rand.NewPCG(seed, 1010))
	rounds := 30
	if tier == "thorough" {
		rounds = 200
	}
	// the package-level wrappers before any Init (first use from several goroutines at once): whatever they do
	// (refuse by panicking, or install a default disk) they must not race, and completed writes must be readable
	{
		var wg sync.WaitGroup
		var refused, lost atomic.Int64
		for g := 0; g < 8; g++ {
			wg.Add(1)
			go func(g int) {
				defer wg.Done()
				if catchPanic(func() { disk.Write(uint64(g), pattern(g+1)) }) {
					refused.Add(1)
				}
			}(g)
		}
		wg.Wait()
		if refused.Load() == 0 {
			for g := 0; g < 8; g++ {
				var b []byte
				if catchPanic(func() { b = disk.Read(uint64(g)) }) || classify(b, 16) != g+1 {
					lost.Add(1)
				}
			}
		}
		if lost.Load() > 0 {
			fmt.Printf("GLOBAL-FIRST-USE-LOST %d\n", lost.Load())
		}
	}
	var nv int64
	ops := 0
	for i := 0; i < rounds; i++ {
		d := disk.NewMemDisk(2)
		h := stressDisk(d, 2, 4, 300, 2, false, r, &nv)
		ops += len(h) / 2
		p := filepath.Join(scratch, "race.img")
		_ = os.Remove(p)
		fd, err := disk.NewFileDisk(p, 4)
		if err != nil {
			fmt.Println("open:", err)
			return 3
		}
		h = stressDisk(fd, 4, 4, 100, 4, true, r, &nv)
		ops += len(h) / 2
		fd.Close()
	}
	fmt.Printf("RACE-DRIVER-DONE %d operations under -race\n", ops)
	return 0
}

// ---- barrier-released bursts on the file-backed disk ----

const (
	htQ0   = 900000001 // fixed first half
	htP0   = 900000002 // fixed second half
	htBase = 900000003 // the block (Q0 first half, P0 second half)
)

// htBlock: kind 0 = pattern(v); kind 1 = first half of pattern(v) + fixed second half; kind 2 = fixed first half +
// second half of pattern(v). Two writes of kinds 1 and 2 over the base block differ from it in disjoint byte ranges.
func htBlock(v, kind int) []byte {
	b := make([]byte, 4096)
	switch kind {
	case 1:
		copy(b[:2048], pattern(v)[:2048])
		copy(b[2048:], pattern(htP0)[2048:])
	case 2:
		copy(b[:2048], pattern(htQ0)[:2048])
		copy(b[2048:], pattern(v)[2048:])
	case 3:
		copy(b[:2048], pattern(htQ0)[:2048])
		copy(b[2048:], pattern(htP0)[2048:])
	default:
		copy(b, pattern(v))
	}
	return b
}

// classifyHT maps a block back to the value that was written, or rTORN for any mixture.
func classifyHT(b []byte) int {
	if len(b) != 4096 {
		return rTORN
	}
	half := func(lo int) int {
		w0 := binary.LittleEndian.Uint64(b[lo*8:]) - uint64(lo)*0x100000001B3
		v := w0 * patInv
		if v > 1<<40 {
			return -1
		}
		if v == 0 {
			for _, x := range b[lo*8 : lo*8+2048] {
				if x != 0 {
					return -1
				}
			}
			return 0
		}
		p := pattern(int(v))
		if !bytes.Equal(p[lo*8:lo*8+2048], b[lo*8:lo*8+2048]) {
			return -1
		}
		return int(v)
	}
	a, z := half(0), half(256)
	switch {
	case a < 0 || z < 0:
		return rTORN
	case a == z:
		return a
	case a == htQ0 && z == htP0:
		return htBase
	case z == htP0 && a != htQ0 && a%3 == 1:
		return a
	case a == htQ0 && z != htP0 && z%3 == 2:
		return z
	}
	return rTORN
}

// fileBursts: (1) on one address, a base block is written, then two clients released by a spin barrier write blocks
// that differ from the base in disjoint halves, then the address is read; (2) on a freshly created image two clients
// write two distinct addresses at once (the first writes the image ever gets), then both are read.
func fileBursts(c *ev.Ctx, imgDir string, nextVal *int64) ([]map[string]any, map[int]string, int) {
	evs, seg, rounds, err := fileBurstRounds(imgDir, nextVal, c.Pick(8, 80), 250, c.Pick(2500, 25000), nil)
	if err != nil {
		c.Inconclusive("%v", err)
	}
	return evs, seg, rounds
}

// fileBurstRounds is the driver proper. perturb, if not nil, is called by a writer on its own (locked) OS thread
// right before its Write: under strace with parity-selected delays it decides which of the writer's system calls
// are slowed down, so that the windows between the system calls of one operation are explored.
func fileBurstRounds(imgDir string, nextVal *int64, blocks1, per1, rounds2 int, perturb func(g int)) ([]map[string]any, map[int]string, int, error) {
	var evs []map[string]any
	seg := map[int]string{}
	var seq atomic.Int64
	type logT struct {
		mu sync.Mutex
		l  []seqEv
	}
	var lg logT
	call := func(g int, op string, a, v int, f func() int) {
		inv := seqEv{e: map[string]any{"ev": "inv", "c": g, "op": op, "a": a, "v": v}}
		inv.seq = seq.Add(1)
		r := f()
		res := seqEv{e: map[string]any{"ev": "res", "c": g, "r": r}}
		res.seq = seq.Add(1)
		lg.mu.Lock()
		lg.l = append(lg.l, inv, res)
		lg.mu.Unlock()
	}
	write := func(d disk.Disk, g, a, v int, blk []byte) {
		call(g, "write", a, v, func() int {
			if catchPanic(func() { d.Write(uint64(a), blk) }) {
				return rPANIC
			}
			return rOK
		})
	}
	read := func(d disk.Disk, g, a int) {
		call(g, "read", a, 0, func() int {
			var out []byte
			if catchPanic(func() { out = d.Read(uint64(a)) }) {
				return rPANIC
			}
			return classifyHT(out)
		})
	}
	flush := func(desc string, n int) {
		sort.Slice(lg.l, func(i, j int) bool { return lg.l[i].seq < lg.l[j].seq })
		seg[len(evs)] = desc
		evs = append(evs, map[string]any{"ev": "reset", "n": n})
		for _, e := range lg.l {
			evs = append(evs, e.e)
		}
		lg.l = nil
	}
	fresh := func(k int) int { // globally unique value with v%3 == k
		for {
			v := int(atomic.AddInt64(nextVal, 1))
			if v%3 == k {
				return v
			}
		}
	}
	pair := func(f1, f2 func()) {
		bar := &spinBarrier{n: 2}
		var wg sync.WaitGroup
		wg.Add(2)
		run := func(g int, f func()) {
			defer wg.Done()
			if perturb != nil {
				runtime.LockOSThread()
				defer runtime.UnlockOSThread()
			}
			bar.wait()
			if perturb != nil {
				perturb(g)
			}
			f()
		}
		go run(1, f1)
		go run(2, f2)
		wg.Wait()
	}
	rounds := 0
	// (1) same address, disjoint halves
	{
		p := filepath.Join(imgDir, "burst.img")
		_ = os.Remove(p)
		d, err := disk.NewFileDisk(p, 2)
		if err != nil {
			return nil, nil, 0, fmt.Errorf("NewFileDisk: %v", err)
		}
		per := per1
		for blk := 0; blk < blocks1; blk++ {
			for r := 0; r < per; r++ {
				a := r % 2
				write(d, 0, a, htBase, htBlock(0, 3))
				v1, v2 := fresh(1), fresh(2)
				pair(func() { write(d, 1, a, v1, htBlock(v1, 1)) }, func() { write(d, 2, a, v2, htBlock(v2, 2)) })
				read(d, 0, a)
				rounds++
			}
			flush(fmt.Sprintf("file bursts: %d rounds of base write, two concurrent half-different writes to one address, read", per), 2)
		}
		d.Close()
	}
	// (2) fresh image, two distinct addresses written at once
	for r := 0; r < rounds2; r++ {
		p := filepath.Join(imgDir, "fresh.img")
		_ = os.Remove(p)
		n := 4 + r%5
		d, err := disk.NewFileDisk(p, uint64(n))
		if err != nil {
			return evs, seg, rounds, fmt.Errorf("NewFileDisk: %v", err)
		}
		lo := r % (n - 1)
		hi := lo + 1 + (r/7)%(n-1-lo)
		v1, v2 := fresh(0), fresh(0)
		pair(func() { write(d, 1, lo, v1, htBlock(v1, 0)) }, func() { write(d, 2, hi, v2, htBlock(v2, 0)) })
		read(d, 0, lo)
		read(d, 0, hi)
		d.Close()
		flush(fmt.Sprintf("file fresh image n=%d: concurrent first writes to addresses %d and %d, then reads", n, lo, hi), n)
		rounds++
	}
	return evs, seg, rounds, nil
}

// diskDelayChild runs the burst driver while strace delays every second invocation (per thread, per system call) of
// the I/O system calls. Before each Write the writer makes, at random, dummy calls of the same kinds on a scratch
// descriptor, which flips the parity and so selects which system calls of the real operation are slowed down.
func diskDelayChild(args []string) int {
	var seed uint64
	var rounds int
	fmt.Sscan(args[0], &seed)
	fmt.Sscan(args[1], &rounds)
	scratch, out := args[2], args[3]
	imgDir := mustMkdir(filepath.Join(scratch, "img10d"))
	dummy, err := os.OpenFile(filepath.Join(imgDir, "dummy"), os.O_CREATE|os.O_RDWR, 0644)
	if err != nil {
		fmt.Println(err)
		return 3
	}
	defer dummy.Close()
	fd := int(dummy.Fd())
	var rmu sync.Mutex
	r := rand.New(rand.NewPCG(seed, 1099))
	perturb := func(g int) {
		rmu.Lock()
		x := r.IntN(16)
		rmu.Unlock()
		one := []byte{1}
		var st syscall.Stat_t
		if x&1 != 0 {
			_ = syscall.Fstat(fd, &st)
		}
		if x&2 != 0 {
			_ = syscall.Ftruncate(fd, 1)
		}
		if x&4 != 0 {
			_, _ = syscall.Pwrite(fd, one, 0)
		}
		if x&8 != 0 {
			_, _ = syscall.Pread(fd, one, 0)
		}
	}
	var nextVal int64 = 1 << 20
	evs, _, n, err := fileBurstRounds(imgDir, &nextVal, 1, rounds, rounds, perturb)
	if err != nil {
		fmt.Println(err)
		return 3
	}
	if err := writeNDJSON(out, evs); err != nil {
		fmt.Println(err)
		return 3
	}
	fmt.Printf("DELAY-DRIVER-DONE %d rounds\n", n)
	return 0
}

// runDiskDelay starts the child under strace with the delay injections; returns its history.
func runDiskDelay(c *ev.Ctx, rounds int) ([]map[string]any, error) {
	self, _ := os.Executable()
	out := filepath.Join(c.Scratch, "delay-hist.ndjson")
	_ = os.Remove(out)
	a := []string{"-f", "-qq", "-o", "/dev/null", "-e", "trace=fstat,newfstatat,ftruncate,pwrite64,pread64"}
	for _, sc := range []string{"fstat", "newfstatat", "ftruncate", "pwrite64", "pread64"} {
		a = append(a, "-e", fmt.Sprintf("inject=%s:delay_enter=%d:when=2+2", sc, 1200))
	}
	a = append(a, self, "-child", "disk-delay", fmt.Sprint(c.Seed), fmt.Sprint(rounds), c.Scratch, out)
	o, err, timedOut := runWithDeadline(exec.Command("strace", a...), 10*time.Minute)
	if timedOut || err != nil || !strings.Contains(o, "DELAY-DRIVER-DONE") {
		return nil, fmt.Errorf("strace-delayed driver failed (%v, timed out %v): %s", err, timedOut, tlc.Tail(o, 10))
	}
	b, err := os.ReadFile(out)
	if err != nil {
		return nil, err
	}
	var evs []map[string]any
	for _, ln := range strings.Split(strings.TrimSpace(string(b)), "\n") {
		var e map[string]any
		if json.Unmarshal([]byte(ln), &e) != nil {
			return nil, fmt.Errorf("bad history line")
		}
		evs = append(evs, e)
	}
	return evs, nil
}
