package checks

import "testing"

func TestParseStraceUnfinishedResumed(t *testing.T) {
	log := `101 write(999, "op 4 barrier 0", 14) = -1 EBADF (Bad file descriptor)
101 fsync(3 <unfinished ...>
102 futex(0xc000, FUTEX_WAKE_PRIVATE, 1) = 1
101 <... fsync resumed>)                = 0
101 pwrite64(3, "abc", 4096, 8192 <unfinished ...>
103 futex(0xc000, FUTEX_WAIT_PRIVATE, 0, NULL) = 0
101 <... pwrite64 resumed>)             = -1 EIO (Input/output error)
`
	ls := parseStrace(log)
	var names []string
	for _, l := range ls {
		names = append(names, l.Name)
	}
	if len(ls) != 5 || ls[2].Name != "fsync" || ls[2].Ret != 0 || ls[2].Args != "3" || ls[4].Name != "pwrite64" || ls[4].Ret != -1 || ls[4].Errno != "EIO" {
		t.Fatalf("parsed %v: %+v", names, ls)
	}
}
