package checks

import (
	"encoding/json"
	"fmt"
	"hash/fnv"
	"math/rand/v2"
	"os"
	"path/filepath"
	"sort"
	"strings"
	"time"

	"github.com/goose-lang/goose/machine/filesys"

	"verif/ev"
	"verif/tlc"
)

func init() { Registry["C12"] = C12 }

// ---- unit <-> bytes ----

func unitBytes(u, size int) []byte {
	b := make([]byte, size)
	for j := range b {
		b[j] = byte((u*37+j*11)%250 + 1)
	}
	return b
}

func encodeUnits(us []int, size int) []byte {
	var b []byte
	for _, u := range us {
		b = append(b, unitBytes(u, size)...)
	}
	if b == nil {
		b = []byte{}
	}
	return b
}

func decodeUnits(b []byte, size, maxU int) []int {
	out := []int{}
	for len(b) > 0 {
		if len(b) < size {
			return append(out, -9)
		}
		found := -9
		for u := 1; u <= maxU; u++ {
			if string(b[:size]) == string(unitBytes(u, size)) {
				found = u
				break
			}
		}
		out = append(out, found)
		b = b[size:]
	}
	return out
}

// ---- targets ----

type fsTarget struct {
	name   string
	fs     filesys.Filesys
	global bool
	root   string
}

var fsTargetNames = []string{"mem/method", "dir/method", "mem/global", "dir/global"}

func openFsTarget(name, scratch string, id int) *fsTarget {
	t := &fsTarget{name: name}
	switch name {
	case "mem/method", "mem/global":
		t.fs = filesys.NewMemFs()
	default:
		t.root = filepath.Join(scratch, fmt.Sprintf("fsroot-%d", id))
		_ = os.RemoveAll(t.root)
		_ = os.MkdirAll(t.root, 0755)
		t.fs = filesys.NewDirFs(t.root)
	}
	if name == "mem/global" || name == "dir/global" {
		t.global = true
		filesys.Fs = t.fs
	}
	return t
}

func (t *fsTarget) close() {
	if d, ok := t.fs.(filesys.DirFs); ok {
		func() { defer func() { _ = recover() }(); d.CloseFs() }()
	}
	if t.root != "" {
		_ = os.RemoveAll(t.root)
	}
}

type fsOp struct {
	Op   string `json:"op"`
	D    string `json:"d"`
	N    string `json:"n"`
	D2   string `json:"d2"`
	N2   string `json:"n2"`
	H    int    `json:"h"`
	Off  int    `json:"off"`
	Len  int    `json:"len"`
	Data []int  `json:"data"`
}

type fsRep struct {
	H     int      `json:"h"`
	Ok    int      `json:"ok"`
	Data  []int    `json:"data"`
	Names []string `json:"names"`
	P     int      `json:"p"`  // panicked
	Fd    int      `json:"fd"` // concrete descriptor number
}

type fsClient struct {
	t       *fsTarget
	unit    int
	maxU    int
	handles map[int]filesys.File
	nh      int
	openFds []int // concrete numbers the harness must close at the end (DirFs)
}

func newFsClient(t *fsTarget, unit, maxU int) *fsClient {
	return &fsClient{t: t, unit: unit, maxU: maxU, handles: map[int]filesys.File{}}
}

func scribble(b []byte) {
	for i := range b {
		b[i] ^= 0xA5
	}
}

// do executes op on the real implementation and returns the observed reply.
func (c *fsClient) do(op fsOp) (rep fsRep) {
	rep = fsRep{Ok: 1, Data: []int{}, Names: []string{}}
	defer func() {
		if e := recover(); e != nil {
			rep.P = 1
		}
	}()
	fs := c.t.fs
	g := c.t.global
	switch op.Op {
	case "mkdir":
		fs.Mkdir(op.D)
	case "create":
		var f filesys.File
		var ok bool
		if g {
			f, ok = filesys.Create(op.D, op.N)
		} else {
			f, ok = fs.Create(op.D, op.N)
		}
		if ok {
			c.nh++
			c.handles[c.nh] = f
			rep.H, rep.Fd = c.nh, int(f)
		} else {
			rep.H, rep.Ok = -1, 0
		}
	case "append":
		b := encodeUnits(op.Data, c.unit)
		if g {
			filesys.Append(c.handles[op.H], b)
		} else {
			fs.Append(c.handles[op.H], b)
		}
		scribble(b) // the caller re-uses its buffer: must not change the file
	case "close":
		if g {
			filesys.Close(c.handles[op.H])
		} else {
			fs.Close(c.handles[op.H])
		}
		delete(c.handles, op.H)
	case "open":
		var f filesys.File
		if g {
			f = filesys.Open(op.D, op.N)
		} else {
			f = fs.Open(op.D, op.N)
		}
		c.nh++
		c.handles[c.nh] = f
		rep.H, rep.Fd = c.nh, int(f)
	case "readat":
		var b []byte
		off, ln := uint64(op.Off*c.unit), uint64(op.Len*c.unit)
		if g {
			b = filesys.ReadAt(c.handles[op.H], off, ln)
		} else {
			b = fs.ReadAt(c.handles[op.H], off, ln)
		}
		rep.Data = decodeUnits(b, c.unit, c.maxU)
		scribble(b) // the caller owns the returned slice
	case "delete":
		if g {
			filesys.Delete(op.D, op.N)
		} else {
			fs.Delete(op.D, op.N)
		}
	case "link":
		var ok bool
		if g {
			ok = filesys.Link(op.D, op.N, op.D2, op.N2)
		} else {
			ok = fs.Link(op.D, op.N, op.D2, op.N2)
		}
		if !ok {
			rep.Ok = 0
		}
	case "atomiccreate":
		b := encodeUnits(op.Data, c.unit)
		if g {
			filesys.AtomicCreate(op.D, op.N, b)
		} else {
			fs.AtomicCreate(op.D, op.N, b)
		}
		scribble(b)
	case "list":
		var ns []string
		if g {
			ns = filesys.List(op.D)
		} else {
			ns = fs.List(op.D)
		}
		rep.Names = append([]string{}, ns...)
		sort.Strings(rep.Names)
	default:
		panic("bad op")
	}
	return rep
}

func (c *fsClient) closeAll() {
	for h, f := range c.handles {
		func() { defer func() { _ = recover() }(); c.t.fs.Close(f) }()
		delete(c.handles, h)
	}
}

func sameInts(a, b []int) bool {
	if len(a) != len(b) {
		return false
	}
	for i := range a {
		if a[i] != b[i] {
			return false
		}
	}
	return true
}
func sameStrs(a, b []string) bool {
	a = append([]string{}, a...)
	b = append([]string{}, b...)
	sort.Strings(a)
	sort.Strings(b)
	if len(a) != len(b) {
		return false
	}
	for i := range a {
		if a[i] != b[i] {
			return false
		}
	}
	return true
}

// repMatches compares the specified reply with the observed one for op.
func repMatches(op fsOp, want, got fsRep) bool {
	if got.P != 0 {
		return false
	}
	switch op.Op {
	case "create":
		return want.Ok == got.Ok && (want.Ok == 0 || want.H == got.H)
	case "open":
		return want.H == got.H
	case "readat":
		return sameInts(want.Data, got.Data)
	case "link":
		return want.Ok == got.Ok
	case "list":
		return sameStrs(want.Names, got.Names)
	}
	return true
}

func fsEvent(op fsOp, rep fsRep) map[string]any {
	e := map[string]any{"ev": op.Op, "p": rep.P}
	switch op.Op {
	case "mkdir", "list":
		e["d"] = op.D
	case "create":
		e["d"], e["n"], e["h"], e["ok"], e["fd"] = op.D, op.N, rep.H, rep.Ok, rep.Fd
	case "open":
		e["d"], e["n"], e["h"], e["fd"] = op.D, op.N, rep.H, rep.Fd
	case "append":
		e["h"], e["data"] = op.H, op.Data
	case "close":
		e["h"] = op.H
	case "readat":
		e["h"], e["off"], e["len"], e["data"] = op.H, op.Off, op.Len, rep.Data
	case "delete":
		e["d"], e["n"] = op.D, op.N
	case "link":
		e["d"], e["n"], e["d2"], e["n2"], e["ok"] = op.D, op.N, op.D2, op.N2, rep.Ok
	case "atomiccreate":
		e["d"], e["n"], e["data"] = op.D, op.N, op.Data
	}
	if op.Op == "list" {
		e["names"] = rep.Names
	}
	if op.Op == "append" || op.Op == "atomiccreate" {
		if op.Data == nil {
			e["data"] = []int{}
		}
	}
	return e
}

// fsShadow tracks just enough to generate operations inside the preconditions.
type fsShadow struct {
	dirs   []string
	exists map[[2]string]bool
	live   map[int]string // handle -> mode
	// contents, as far as the generator needs them (to ask for an AtomicCreate with exactly the bytes a name holds)
	ino  map[[2]string]int
	hino map[int]int
	data map[int][]int
	next int
}

func newFsShadow() *fsShadow {
	return &fsShadow{exists: map[[2]string]bool{}, live: map[int]string{}, ino: map[[2]string]int{}, hino: map[int]int{}, data: map[int][]int{}}
}

func (s *fsShadow) hasDir(d string) bool {
	for _, x := range s.dirs {
		if x == d {
			return true
		}
	}
	return false
}

func (s *fsShadow) liveWith(mode string) []int {
	var hs []int
	for h, m := range s.live {
		if m == mode {
			hs = append(hs, h)
		}
	}
	sort.Ints(hs)
	return hs
}

func (s *fsShadow) existing() [][2]string {
	var ps [][2]string
	for p, ok := range s.exists {
		if ok {
			ps = append(ps, p)
		}
	}
	sort.Slice(ps, func(i, j int) bool { return ps[i][0]+"/"+ps[i][1] < ps[j][0]+"/"+ps[j][1] })
	return ps
}

func (s *fsShadow) update(op fsOp, rep fsRep) {
	switch op.Op {
	case "mkdir":
		s.dirs = append(s.dirs, op.D)
	case "create":
		if rep.Ok == 1 {
			s.exists[[2]string{op.D, op.N}] = true
			s.live[rep.H] = "a"
			s.next++
			s.ino[[2]string{op.D, op.N}] = s.next
			s.hino[rep.H] = s.next
		}
	case "open":
		s.live[rep.H] = "r"
		s.hino[rep.H] = s.ino[[2]string{op.D, op.N}]
	case "append":
		if i, ok := s.hino[op.H]; ok {
			s.data[i] = append(append([]int{}, s.data[i]...), op.Data...)
		}
	case "close":
		delete(s.live, op.H)
		delete(s.hino, op.H)
	case "delete":
		delete(s.exists, [2]string{op.D, op.N})
		delete(s.ino, [2]string{op.D, op.N})
	case "link":
		if rep.Ok == 1 {
			s.exists[[2]string{op.D2, op.N2}] = true
			s.ino[[2]string{op.D2, op.N2}] = s.ino[[2]string{op.D, op.N}]
		}
	case "atomiccreate":
		s.exists[[2]string{op.D, op.N}] = true
		s.next++
		s.ino[[2]string{op.D, op.N}] = s.next
		s.data[s.next] = append([]int{}, op.Data...)
	}
}

var fsDirs = []string{"d1", "d2", "dir.3", "d", "d11", "dir"} // some are proper prefixes of others
var fsNames = []string{"a", "b", "a.tmp", "c", "x.y", "long-name_0123456789", "b.tmp", "ab", "a.tmp.tmp", ".lock", "..b", "-x", "~"}

func randUnits(r *rand.Rand, maxU, maxLen int) []int {
	n := r.IntN(maxLen + 1)
	us := make([]int, n)
	for i := range us {
		us[i] = 1 + r.IntN(maxU)
	}
	return us
}

// genFsOp draws one valid operation (nil if none of the drawn kind is enabled).
func genFsOp(r *rand.Rand, s *fsShadow, maxU int) *fsOp {
	for tries := 0; tries < 20; tries++ {
		x := r.IntN(100)
		d := fsDirs[r.IntN(len(fsDirs))]
		n := fsNames[r.IntN(3+r.IntN(len(fsNames)-2))]
		switch {
		case x < 6:
			if !s.hasDir(d) {
				return &fsOp{Op: "mkdir", D: d}
			}
		case len(s.dirs) == 0:
			continue
		case x < 20:
			if s.hasDir(d) && len(s.live) < 12 {
				return &fsOp{Op: "create", D: d, N: n}
			}
		case x < 36:
			if hs := s.liveWith("a"); len(hs) > 0 {
				return &fsOp{Op: "append", H: hs[r.IntN(len(hs))], Data: randUnits(r, maxU, 3)}
			}
		case x < 44:
			if len(s.live) > 0 {
				hs := append(s.liveWith("a"), s.liveWith("r")...)
				return &fsOp{Op: "close", H: hs[r.IntN(len(hs))]}
			}
		case x < 56:
			if ps := s.existing(); len(ps) > 0 && len(s.live) < 12 {
				p := ps[r.IntN(len(ps))]
				return &fsOp{Op: "open", D: p[0], N: p[1]}
			}
		case x < 74:
			if hs := s.liveWith("r"); len(hs) > 0 {
				return &fsOp{Op: "readat", H: hs[r.IntN(len(hs))], Off: r.IntN(6), Len: r.IntN(7)}
			}
		case x < 80:
			if ps := s.existing(); len(ps) > 0 {
				p := ps[r.IntN(len(ps))]
				return &fsOp{Op: "delete", D: p[0], N: p[1]}
			}
		case x < 88:
			if ps := s.existing(); len(ps) > 0 {
				p := ps[r.IntN(len(ps))]
				d2 := s.dirs[r.IntN(len(s.dirs))]
				return &fsOp{Op: "link", D: p[0], N: p[1], D2: d2, N2: n}
			}
		case x < 94:
			if ps := s.existing(); len(ps) > 0 && r.IntN(3) == 0 {
				// over an existing name, with exactly the bytes the name holds now (still a NEW file: descriptors of
				// the old one must not show through it, nor it through them)
				p := ps[r.IntN(len(ps))]
				return &fsOp{Op: "atomiccreate", D: p[0], N: p[1], Data: append([]int{}, s.data[s.ino[p]]...)}
			}
			if s.hasDir(d) {
				return &fsOp{Op: "atomiccreate", D: d, N: n, Data: randUnits(r, maxU, 4)}
			}
		default:
			if s.hasDir(d) {
				return &fsOp{Op: "list", D: d}
			}
		}
	}
	return nil
}

type fsStep struct {
	Op fsOp  `json:"op"`
	R  fsRep `json:"r"`
}

func hashJSON(v any) uint64 {
	f := fnv.New64a()
	b, _ := json.Marshal(v)
	f.Write(b)
	return f.Sum64()
}

func nontrivialFsHist(h []fsStep) bool {
	// a read that returns data, or a failed create / link, or a list of >= 2 names
	for _, s := range h {
		if s.Op.Op == "readat" && len(s.R.Data) > 0 {
			return true
		}
	}
	return false
}

var unitSizes = []int{1, 3, 4096, 5000}

// C12: MemFs == DirFs == reference model on all valid histories.
func C12(c *ev.Ctx) {
	c.Level = "model_checking"
	c.Assume("operations respect the documented preconditions (FsSem!Valid)", "names are simple, do not end in .tmp, and directories/files are disjoint",
		"at most 12 live descriptors", "DirFs runs on the scratch file system under /tmp")
	dir, err := c.SpecDir("spec-fs", "filesys")
	if err != nil {
		c.Inconclusive("copy specs: %v", err)
		return
	}
	cfgName := "MCFilesysQuick.cfg"
	if !c.Quick() {
		cfgName = "MCFilesys.cfg"
	}
	r := tlc.Run{Dir: dir, Module: "Filesys", Cfg: cfgName, Workers: 14, Timeout: 40 * time.Minute, HeapMB: 12000}.Do()
	if !c.CheckTLC("Filesys exhaustive ("+cfgName+")", r) {
		return
	}
	c.Set("design_model", cfgName+": invariants TypeOK CreateRule FreshDescriptor LinkShares ReadExact ListExact AtomicCreateRule; action properties DataMonotone OnlyOwnInode")
	c.Set("exhaustive", true)

	rr := rng(c, 12)
	distinct := map[uint64]bool{}
	nontriv := 0

	// spec -> code
	nb := c.Pick(300, 5000)
	depth := c.Pick(25, 50)
	cfg := fmt.Sprintf("CONSTANTS\n Dirs = {\"d\", \"d1\"}\n Names = {\"a\", \".a\", \"a.tmp\"}\n Units = {1, 2, 3}\n MaxIno = 8\n MaxFd = 12\n MaxLive = 4\n MaxLen = 5\n D = %d\nINIT Init\nNEXT Next\nINVARIANTS EmitHist\n", depth)
	_ = os.WriteFile(filepath.Join(dir, "SimFilesys.cfg"), []byte(cfg), 0644)
	sr := tlc.Run{Dir: dir, Module: "Filesys", Cfg: "SimFilesys.cfg", Workers: 1, Timeout: 15 * time.Minute,
		Args: []string{"-simulate", fmt.Sprintf("num=%d", nb/4), "-depth", fmt.Sprint(depth + 1), "-seed", fmt.Sprint(c.Seed)}}.Do()
	c.AddTLC(sr)
	if sr.TLCError || len(sr.Prints) == 0 {
		c.Inconclusive("simulation produced no behaviours:\n%s", tlc.Tail(sr.Out, 20))
		return
	}
	// the simulator evaluates EmitHist on every successor of the last step, so
	// sibling behaviours share a prefix: sample nb of them
	rr.Shuffle(len(sr.Prints), func(i, j int) { sr.Prints[i], sr.Prints[j] = sr.Prints[j], sr.Prints[i] })
	if len(sr.Prints) > nb {
		sr.Prints = sr.Prints[:nb]
	}
	{
		// focused simulation: one directory, two names, one unit, whole-file reads only
		cfg := fmt.Sprintf("CONSTANTS\n Dirs = {\"d\"}\n Names = {\"a\", \"b\"}\n Units = {1}\n MaxIno = 40\n MaxFd = 40\n MaxLive = 4\n MaxLen = 4\n D = %d\nINIT Init\nNEXT NextFocus\nINVARIANTS EmitHist\n", depth)
		_ = os.WriteFile(filepath.Join(dir, "SimFilesysFocus.cfg"), []byte(cfg), 0644)
		fr := tlc.Run{Dir: dir, Module: "Filesys", Cfg: "SimFilesysFocus.cfg", Workers: 1, Timeout: 15 * time.Minute,
			Args: []string{"-deadlock", "-simulate", fmt.Sprintf("num=%d", nb/8+1), "-depth", fmt.Sprint(depth + 1), "-seed", fmt.Sprint(c.Seed + 5)}}.Do()
		c.AddTLC(fr)
		if fr.TLCError || len(fr.Prints) == 0 {
			c.Inconclusive("focused simulation produced no behaviours:\n%s", tlc.Tail(fr.Out, 20))
			return
		}
		rr.Shuffle(len(fr.Prints), func(i, j int) { fr.Prints[i], fr.Prints[j] = fr.Prints[j], fr.Prints[i] })
		if len(fr.Prints) > nb/3 {
			fr.Prints = fr.Prints[:nb/3]
		}
		c.Set("focused_behaviours", len(fr.Prints))
		sr.Prints = append(sr.Prints, fr.Prints...)
	}
	replayed := 0
	for bi, p := range sr.Prints {
		var h []fsStep
		if err := json.Unmarshal([]byte(p), &h); err != nil {
			c.Inconclusive("bad behaviour json: %v", err)
			return
		}
		if k := hashJSON(h); !distinct[k] {
			distinct[k] = true
			if nontrivialFsHist(h) {
				nontriv++
			}
		}
		if bi < 1 {
			c.Sample(map[string]any{"kind": "spec->code behaviour", "history": h})
		}
		unit := unitSizes[bi%len(unitSizes)]
		for ti, tn := range fsTargetNames {
			t := openFsTarget(tn, c.Scratch, ti)
			cl := newFsClient(t, unit, 3)
			for si, s := range h {
				got := cl.do(s.Op)
				if !repMatches(s.Op, s.R, got) {
					key := fsFindingKey(tn, s.Op, got)
					hb, _ := json.MarshalIndent(h[:si+1], "", " ")
					c.Report(key, fmt.Sprintf("target %s (unit %d bytes) step %d %s: specification reply %s, implementation reply %s",
						tn, unit, si+1, jsonStr(s.Op), jsonStr(s.R), jsonStr(got)),
						map[string]string{"history.json": string(hb), "target.txt": tn})
					break
				}
			}
			cl.closeAll()
			t.close()
			replayed++
		}
		if c.NViolations() > 3 {
			break
		}
	}
	c.AddTraces(replayed)
	c.Set("replayed_behaviours", replayed)

	// ListExact at scale: directories with thousands of names (short and long ones), created, partly deleted, listed
	for ti, tn := range []string{"mem/method", "dir/method"} {
		t := openFsTarget(tn, c.Scratch, 80+ti)
		bad := ""
		func() {
			defer func() {
				if e := recover(); e != nil {
					bad = fmt.Sprintf("panic: %v", e)
				}
			}()
			for di, nfiles := range []int{2500, 5000, 400} {
				d := fmt.Sprintf("big%d", di)
				t.fs.Mkdir(d)
				wantNames := map[string]bool{}
				for k := 0; k < nfiles; k++ {
					nm := fmt.Sprintf("f%05d", k)
					if di == 2 {
						nm = fmt.Sprintf("%s-%04d", strings.Repeat("longname", 29), k) // about 240 bytes each
					}
					f, ok := t.fs.Create(d, nm)
					if !ok {
						bad = "Create of a fresh name failed: " + nm
						return
					}
					t.fs.Close(f)
					wantNames[nm] = true
				}
				for k := 0; k < nfiles; k += 7 {
					nm := fmt.Sprintf("f%05d", k)
					if di == 2 {
						nm = fmt.Sprintf("%s-%04d", strings.Repeat("longname", 29), k)
					}
					t.fs.Delete(d, nm)
					delete(wantNames, nm)
				}
				got := t.fs.List(d)
				seen := map[string]int{}
				for _, g := range got {
					seen[g]++
				}
				for g, k := range seen {
					if !wantNames[g] || k != 1 {
						bad = fmt.Sprintf("List(%s) returns %q %d times, which the directory holds %v", d, g, k, wantNames[g])
						return
					}
				}
				if len(seen) != len(wantNames) {
					bad = fmt.Sprintf("List(%s) returns %d of the %d names in the directory", d, len(seen), len(wantNames))
					return
				}
			}
		}()
		t.close()
		if bad != "" {
			c.Violation("fs."+tn[:3]+".list-large-directory", "target "+tn+", directory with thousands of entries (Filesys.tla ListExact: exactly the names of the directory): "+bad, nil)
		}
	}
	c.Set("large_directories", "2500, 5000 and 400 (240-byte names) entries per target")

	// code -> spec
	nh := c.Pick(80, 1500)
	steps := c.Pick(120, 250)
	var evs []map[string]any
	seg := map[int]string{}
	for hi := 0; hi < nh; hi++ {
		tn := fsTargetNames[hi%len(fsTargetNames)]
		unit := unitSizes[(hi/len(fsTargetNames))%len(unitSizes)]
		t := openFsTarget(tn, c.Scratch, 50+hi%5)
		cl := newFsClient(t, unit, 5)
		sh := newFsShadow()
		seg[len(evs)] = fmt.Sprintf("%s unit=%d", tn, unit)
		evs = append(evs, map[string]any{"ev": "reset", "impl": tn, "unit": unit})
		var h []fsStep
		for s := 0; s < steps; s++ {
			op := genFsOp(rr, sh, 5)
			if op == nil {
				continue
			}
			rep := cl.do(*op)
			evs = append(evs, fsEvent(*op, rep))
			h = append(h, fsStep{*op, rep})
			if rep.P != 0 {
				break
			}
			sh.update(*op, rep)
		}
		if k := hashJSON(h); !distinct[k] {
			distinct[k] = true
			if nontrivialFsHist(h) {
				nontriv++
			}
		}
		cl.closeAll()
		t.close()
	}
	c.Sample(map[string]any{"kind": "code->spec trace prefix", "events": evs[:min(14, len(evs))]})
	validateSegments(c, dir, "FsTrace", evs, seg, nh, func(target string, e map[string]any) string {
		return fsFindingKeyEv(target, e)
	})
	c.Set("validated_histories", nh)
	c.Set("evaluations", replayed+nh)
	c.Set("distinct_nontrivial", nontriv)
	c.Set("rule", "distinct valid histories (hash of operations and replies) containing at least one ReadAt that returns data; from TLC simulation of Filesys.tla (replayed on mem/dir x method/global, unit sizes 1,3,4096,5000 bytes) and from the seeded Go driver (validated by FsTrace.tla)")
}

// fsFindingKey names the class of a disagreement so that known findings are
// identified by their specific shape and anything else is reported.
func fsFindingKey(target string, op fsOp, got fsRep) string {
	return "fs." + target[:3] + "." + op.Op
}
func fsFindingKeyEv(target string, e map[string]any) string {
	return "fs." + target[:3] + "." + fmt.Sprint(e["ev"])
}

// validateSegments validates a concatenation of histories; on rejection it
// reports the failing segment and continues with the remaining segments so
// that one finding does not hide another.
func validateSegments(c *ev.Ctx, dir, module string, evs []map[string]any, seg map[int]string, nh int,
	key func(target string, e map[string]any) string) {
	rest := evs
	base := 0
	okSegs := 0
	for len(rest) > 0 {
		tv := validateTrace(dir, module, rest, false, 15*time.Minute)
		c.AddTLC(tv.Res)
		if tv.Broken {
			c.Inconclusive("%s validation failed to run:\n%s", module, tlc.Tail(tv.Res.Out, 25))
			return
		}
		if tv.Accepted {
			break
		}
		at := tv.HighWater - 1
		if at < 0 || at >= len(rest) {
			c.Inconclusive("%s: bad high-water mark %d", module, tv.HighWater)
			return
		}
		s := segmentStart(rest, at)
		target := seg[base+s]
		c.Report(key(target, rest[at]), fmt.Sprintf("history recorded from %s is not a behaviour of the specification: event %d %s\n%s",
			target, at-s+1, jsonStr(rest[at]), window(rest, at, 10, 1)),
			map[string]string{"trace.ndjson": ndjsonString(rest[s : at+1]), "target.txt": target})
		// skip to the next segment
		nx := at + 1
		for nx < len(rest) && rest[nx]["ev"] != "reset" {
			nx++
		}
		base += nx
		rest = rest[nx:]
		okSegs--
		if c.NViolations() > 5 {
			break
		}
	}
	c.AddTraces(nh + okSegs)
}
