package checks

import (
	"fmt"
	"os"
	"path/filepath"
	"strings"

	"verif/ev"
	"verif/goosegen"
)

// look-alike packages: a user library at an ordinary import path whose Go package NAME equals the name of a package
// the translator treats specially (FFI packages, machine, sync, log, fmt, util), and a user package that calls it.
type lookCase struct {
	key  string
	name string // Go package name of the library
	lib  string // library source
	use  string // declarations of the user package (package gen), entry is `entry`
	ret  string
	// further files of the USER package (file name -> source): e.g. one that imports the real library of that name, so
	// that one package sees both the library and its look-alike, from different files
	files map[string]string
}

var lookCases = []lookCase{
	{"disk-funcs", "disk", "package disk\n\nfunc Read(a uint64) uint64 {\n\treturn a + 100\n}\n\nfunc Size() uint64 {\n\treturn 7\n}\n",
		"func entry() uint64 {\n\treturn disk.Read(3)*10 + disk.Size()\n}\n", "uint64", nil},
	{"disk-type-methods", "disk", "package disk\n\ntype Disk struct {\n\tbase uint64\n}\n\nfunc (d *Disk) Read(a uint64) uint64 {\n\treturn d.base + a\n}\n\nfunc (d *Disk) Size() uint64 {\n\treturn d.base * 2\n}\n\nfunc Mk(b uint64) *Disk {\n\treturn &Disk{base: b}\n}\n",
		"func entry() uint64 {\n\td := disk.Mk(40)\n\treturn d.Read(2)*1000 + d.Size()\n}\n", "uint64", nil},
	{"disk-value-type", "disk", "package disk\n\ntype Disk struct {\n\tBase uint64\n}\n\nfunc (d Disk) Read(a uint64) uint64 {\n\treturn d.Base + a\n}\n\nfunc (d Disk) Barrier() uint64 {\n\treturn 5\n}\n",
		"func entry() uint64 {\n\td := disk.Disk{Base: 40}\n\treturn d.Read(2)*1000 + d.Barrier()\n}\n", "uint64", nil},
	{"async-disk-type", "async_disk", "package async_disk\n\ntype Disk struct {\n\tbase uint64\n}\n\nfunc (d *Disk) Size() uint64 {\n\treturn d.base * 2\n}\n\nfunc Mk(b uint64) *Disk {\n\treturn &Disk{base: b}\n}\n",
		"func entry() uint64 {\n\td := async_disk.Mk(40)\n\treturn d.Size()\n}\n", "uint64", nil},
	{"machine-funcs", "machine", "package machine\n\nfunc UInt64Put(p []byte, x uint64) {\n\tp[0] = byte(x + 1)\n}\n\nfunc RandomUint64() uint64 {\n\treturn 4\n}\n",
		"func entry() uint64 {\n\tb := make([]byte, 8)\n\tmachine.UInt64Put(b, 1)\n\treturn uint64(b[0])*100 + uint64(b[1]) + machine.RandomUint64()\n}\n", "uint64", nil},
	{"machine-assume", "machine", "package machine\n\nfunc Assume(c bool) uint64 {\n\tif c {\n\t\treturn 1\n\t}\n\treturn 2\n}\n",
		"func entry() uint64 {\n\treturn machine.Assume(false)\n}\n", "uint64", nil},
	{"log-println", "log", "package log\n\nfunc Println(p *uint64) {\n\t*p = 9\n}\n",
		"func entry() uint64 {\n\tp := new(uint64)\n\tlog.Println(p)\n\treturn *p\n}\n", "uint64", nil},
	{"fmt-printf", "fmt", "package fmt\n\nfunc Printf(p *uint64) {\n\t*p = 9\n}\n",
		"func entry() uint64 {\n\tp := new(uint64)\n\tfmt.Printf(p)\n\treturn *p\n}\n", "uint64", nil},
	{"sync-mutex", "sync", "package sync\n\ntype Mutex struct {\n\tn uint64\n}\n\nfunc (m *Mutex) Lock() {\n\tm.n = m.n + 1\n}\n\nfunc (m *Mutex) Count() uint64 {\n\treturn m.n\n}\n",
		"func entry() uint64 {\n\tm := new(sync.Mutex)\n\tm.Lock()\n\tm.Lock()\n\treturn m.Count()\n}\n", "uint64", nil},
	{"sync-newcond", "sync", "package sync\n\nfunc NewCond(x uint64) uint64 {\n\treturn x + 1\n}\n",
		"func entry() uint64 {\n\treturn sync.NewCond(4)\n}\n", "uint64", nil},
	{"util-dprintf", "util", "package util\n\nfunc DPrintf(level uint64, format string, p *uint64) {\n\t*p = level + 5\n}\n",
		"func entry() uint64 {\n\tp := new(uint64)\n\tutil.DPrintf(1, \"x\", p)\n\treturn *p\n}\n", "uint64", nil},
	{"primitive-funcs", "primitive", "package primitive\n\nfunc UInt64Get(p []byte) uint64 {\n\treturn uint64(len(p)) + 1000\n}\n",
		"func entry() uint64 {\n\tb := make([]byte, 8)\n\treturn primitive.UInt64Get(b)\n}\n", "uint64", nil},
	{"filesys-type", "filesys", "package filesys\n\ntype File struct {\n\tn uint64\n}\n\nfunc Mk() File {\n\treturn File{n: 6}\n}\n\nfunc Get(f File) uint64 {\n\treturn f.n\n}\n",
		"func entry() uint64 {\n\tvar f filesys.File = filesys.Mk()\n\treturn filesys.Get(f)\n}\n", "uint64", nil},
	// two files of one package: one imports the real library, the other the user package of the same name
	{key: "machine-funcs-real-in-earlier-file", name: "machine", lib: "package machine\n\nfunc UInt64Put(p []byte, x uint64) {\n\tp[0] = byte(x + 1)\n}\n\nfunc RandomUint64() uint64 {\n\treturn 4\n}\n",
		use: "func entry() uint64 {\n\tb := make([]byte, 8)\n\tmachine.UInt64Put(b, 1)\n\treturn uint64(b[0])*100 + uint64(b[1]) + machine.RandomUint64()\n}\n", ret: "uint64",
		files: map[string]string{"a_enc.go": "package gen\n\nimport \"github.com/goose-lang/goose/machine\"\n\nfunc realPut() uint64 {\n\tb := make([]byte, 8)\n\tmachine.UInt64Put(b, 258)\n\treturn uint64(b[1])\n}\n"}},
	{key: "machine-funcs-real-in-later-file", name: "machine", lib: "package machine\n\nfunc UInt64Put(p []byte, x uint64) {\n\tp[0] = byte(x + 1)\n}\n\nfunc RandomUint64() uint64 {\n\treturn 4\n}\n",
		use: "func entry() uint64 {\n\tb := make([]byte, 8)\n\tmachine.UInt64Put(b, 1)\n\treturn uint64(b[0])*100 + uint64(b[1]) + machine.RandomUint64()\n}\n", ret: "uint64",
		files: map[string]string{"z_enc.go": "package gen\n\nimport \"github.com/goose-lang/goose/machine\"\n\nfunc realPut() uint64 {\n\tb := make([]byte, 8)\n\tmachine.UInt64Put(b, 258)\n\treturn uint64(b[1])\n}\n"}},
	{key: "sync-mutex-real-in-earlier-file", name: "sync", lib: "package sync\n\ntype Mutex struct {\n\tn uint64\n}\n\nfunc (m *Mutex) Lock() {\n\tm.n = m.n + 1\n}\n\nfunc (m *Mutex) Count() uint64 {\n\treturn m.n\n}\n",
		use: "func entry() uint64 {\n\tm := new(sync.Mutex)\n\tm.Lock()\n\tm.Lock()\n\treturn m.Count()\n}\n", ret: "uint64",
		files: map[string]string{"a_lock.go": "package gen\n\nimport \"sync\"\n\nfunc realLock() uint64 {\n\tm := new(sync.Mutex)\n\tm.Lock()\n\tm.Unlock()\n\treturn 1\n}\n"}},
	{key: "log-println-real-in-earlier-file", name: "log", lib: "package log\n\nfunc Println(p *uint64) {\n\t*p = 9\n}\n",
		use: "func entry() uint64 {\n\tp := new(uint64)\n\tlog.Println(p)\n\treturn *p\n}\n", ret: "uint64",
		files: map[string]string{"a_log.go": "package gen\n\nimport \"log\"\n\nfunc realLog(x uint64) uint64 {\n\tlog.Println(x)\n\treturn x\n}\n"}},
	{"plain-control", "helper", "package helper\n\nfunc Read(a uint64) uint64 {\n\treturn a + 100\n}\n",
		"func entry() uint64 {\n\treturn helper.Read(3)\n}\n", "uint64", nil},
}

// c02Lookalikes translates every case and executes the user's entry on the model with the library's own emitted
// definitions loaded under its package name. A conversion error (in either package) is a legitimate answer.
func c02Lookalikes(c *ev.Ctx) (tried, executed int) {
	return lookalikes(c, lookCases, "c02.lookalike-pkg.")
}

func lookalikes(c *ev.Ctx, cases []lookCase, prefix string) (tried, executed int) {
	for i, lc := range cases {
		m, err := newGenModule(c, fmt.Sprintf("mod-c02lk%d", i))
		if err != nil {
			c.Inconclusive("module: %v", err)
			return
		}
		libDir := fmt.Sprintf("lk%d/%s", i, lc.name)
		_ = os.MkdirAll(filepath.Join(m.dir, libDir), 0755)
		_ = os.WriteFile(filepath.Join(m.dir, libDir, "lib.go"), []byte(lc.lib), 0644)
		user := fmt.Sprintf("lku%d", i)
		src := fmt.Sprintf("package gen\n\nimport \"example.com/gen/%s\"\n\n%s", libDir, lc.use)
		_ = m.addPackage(user, src, []string{"entry"})
		for fn, fsrc := range lc.files {
			_ = os.WriteFile(filepath.Join(m.dir, user, fn), []byte(fsrc), 0644)
		}
		tried++
		goRes, broken, err := m.runGo()
		if err != nil || len(broken) > 0 {
			c.Inconclusive("look-alike case %s does not build: %v %v", lc.key, err, broken)
			_ = os.RemoveAll(m.dir)
			continue
		}
		m.pkgs = append([]string{libDir}, m.pkgs...)
		gout := m.runGoose(c, "-ignore-errors")
		_ = os.RemoveAll(m.dir)
		if gout.exit == 2 || strings.Contains(gout.stderr, "goroutine ") {
			continue // a crash is judged by C07
		}
		if len(errorLines(gout.stderr)) > 0 || strings.Contains(gout.stderr, "[unsupported]") || strings.Contains(gout.stderr, "[future]") || strings.Contains(gout.stderr, "[todo]") {
			continue // rejected with a conversion error
		}
		libText, userText := gout.files[libDir], gout.files[user]
		if userText == "" || !strings.Contains(userText, "Definition entry:") {
			c.Report(prefix+lc.key, fmt.Sprintf("look-alike package %s: no error was reported but the user's entry was not emitted", lc.name), map[string]string{"lib.go": lc.lib, "gen.go": src, "stderr.txt": gout.stderr})
			continue
		}
		pkgs := []tvPackage{
			{Name: lc.name, Source: lc.lib, Entries: nil, Keys: map[string]bool{}},
			{Name: user, Source: src, Entries: []goosegen.Entry{{Name: "entry"}}, Keys: map[string]bool{}},
		}
		files := map[string]string{lc.name: libText, user: userText}
		dis, _, ok := compareEmitted(c, fmt.Sprintf("c02lk%d", i), pkgs, goRes, files)
		if !ok {
			continue
		}
		executed++
		for _, d := range dis {
			if d.Pkg != user {
				continue
			}
			kind, detail := d.Kind, d.Detail
			if kind == "unknown-ident" && strings.Contains(detail, "unknown identifier "+lc.name+".") {
				kind = "undefined-name" // the library package is loaded: what it does not define does not exist
			}
			if kind == "unknown-ident" {
				continue
			}
			if kind == "no-outcome" {
				detail = "the emitted program does not terminate (Go returned " + d.GoRes + ")"
			}
			c.Report(prefix+lc.key, fmt.Sprintf("a user package that is merely NAMED %s (import path example.com/gen/%s) was translated without any error, but the caller does not behave like Go: %s: %s\n  Go:    %s\n  model: %s", lc.name, libDir, kind, detail, d.GoRes, d.ModelRes),
				map[string]string{"lib.go": lc.lib, "gen.go": src, "emitted-user.v": userText, "emitted-lib.v": libText})
			break
		}
	}
	return
}
