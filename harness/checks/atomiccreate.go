package checks

import (
	"bytes"
	"fmt"
	"os"
	"os/signal"
	"path/filepath"
	"regexp"
	"runtime"
	"strings"
	"sync"
	"syscall"
	"time"

	"github.com/goose-lang/goose/machine/filesys"

	"verif/ev"
	"verif/tlc"
)

func init() {
	Registry["C13"] = C13
	children["ac-child"] = acChild
}

// acChild root dir name datafile: one DirFs.AtomicCreate, preceded by a marker.
func acChild(args []string) int {
	runtime.LockOSThread()
	root, dir, name := args[0], args[1], args[2]
	data, err := os.ReadFile(args[3])
	if err != nil {
		return 4
	}
	fs := filesys.NewDirFs(root)
	if len(args) > 4 {
		// file-size limit: a write(2) that crosses it is cut short (no error), the next one fails with EFBIG
		var lim uint64
		fmt.Sscan(args[4], &lim)
		signal.Ignore(syscall.SIGXFSZ)
		if err := syscall.Setrlimit(syscall.RLIMIT_FSIZE, &syscall.Rlimit{Cur: lim, Max: lim}); err != nil {
			return 5
		}
	}
	marker("op 0 atomiccreate")
	panicked := catchPanic(func() { fs.AtomicCreate(dir, name, data) })
	if panicked {
		_, _ = syscall.Write(1, []byte("PANIC 0\n"))
		return 3
	}
	_, _ = syscall.Write(1, []byte("RET 0\n"))
	return 0
}

func acData(tag byte, n int) []byte {
	b := make([]byte, n)
	for i := range b {
		b[i] = tag + byte(i%7)
	}
	return b
}

type acSetup struct {
	oldContent []byte // nil: destination absent
	leftover   []byte // nil: no leftover temp file
}

func prepareRoot(root, dir, name string, s acSetup) error {
	_ = os.RemoveAll(root)
	if err := os.MkdirAll(filepath.Join(root, dir), 0755); err != nil {
		return err
	}
	if s.oldContent != nil {
		if err := os.WriteFile(filepath.Join(root, dir, name), s.oldContent, 0644); err != nil {
			return err
		}
	}
	if s.leftover != nil {
		// where an interrupted earlier call of the current implementation leaves its temp file
		for _, p := range []string{filepath.Join(root, name+".tmp"), filepath.Join(root, dir, name+".tmp")} {
			if err := os.WriteFile(p, s.leftover, 0644); err != nil {
				return err
			}
		}
	}
	return nil
}

var reOpenTmp = regexp.MustCompile(`^(?:AT_FDCWD|\d+), "([^"]*)", ([A-Z_|]+)`)

// opSyscalls lists the system calls of the marked operation (same thread), in order.
func opSyscalls(lines []sysLine) []sysLine {
	var out []sysLine
	in := false
	pid := 0
	for _, l := range lines {
		if l.Marker != "" {
			in = strings.HasPrefix(l.Marker, "op 0")
			pid = l.Pid
			continue
		}
		if !in || l.Pid != pid {
			continue
		}
		if l.Stdout != "" {
			break
		}
		switch l.Name {
		case "openat", "open", "write", "fsync", "fdatasync", "renameat", "renameat2", "rename", "close", "ftruncate", "linkat", "unlinkat", "pwrite64":
			out = append(out, l)
		}
	}
	return out
}

func occurrenceOf(lines []sysLine, target sysLine, idxInOp int) int {
	// per-thread occurrence index of the idxInOp-th syscall of the operation
	pid := 0
	in := false
	k := -1
	for i, l := range lines {
		if l.Marker != "" {
			in = strings.HasPrefix(l.Marker, "op 0")
			pid = l.Pid
			continue
		}
		if in && l.Pid == pid && l.Stdout == "" {
			switch l.Name {
			case "openat", "open", "write", "fsync", "fdatasync", "renameat", "renameat2", "rename", "close", "ftruncate", "linkat", "unlinkat", "pwrite64":
				k++
				if k == idxInOp {
					cnt := 0
					for j := 0; j <= i; j++ {
						if lines[j].Pid == pid && lines[j].Name == l.Name {
							cnt++
						}
					}
					return cnt
				}
			}
		}
	}
	return 0
}

func C13(c *ev.Ctx) {
	c.Level = "fault_enumeration"
	c.Assume("a crash is SIGKILL delivered by strace at the entry of a chosen system call of the operation (the call does not execute); power loss is not observable",
		"a fault is one system call of the operation made to fail with an errno by strace",
		"the kernel executes write(2) of the whole buffer in one call on an unconstrained file; short writes are forced with a file-size limit (RLIMIT_FSIZE) in the child process: the write that crosses the limit is cut short, the next one fails",
		"concurrent creators are interleaved at the verif hooks between the system calls of DirFs.AtomicCreate")
	dir, err := c.SpecDir("spec-fs", "filesys")
	if err != nil {
		c.Inconclusive("copy specs: %v", err)
		return
	}
	// (1) design
	for _, cfg := range []string{"AtomicCreate_single", "AtomicCreate_two_percall"} {
		if cfg == "AtomicCreate_two_percall" && c.Quick() {
			continue
		}
		r := tlc.Run{Dir: dir, Module: "MCAtomicCreate", Cfg: cfg + ".cfg", Workers: 8, Timeout: 10 * time.Minute}.Do()
		if !c.CheckTLC(cfg, r) {
			return
		}
	}
	leads := map[string]string{"AtomicCreate_notrunc": "ExactAfterReturn", "AtomicCreate_two": ""}
	for cfg, inv := range leads {
		r := tlc.Run{Dir: dir, Module: "MCAtomicCreate", Cfg: cfg + ".cfg", Workers: 8, Timeout: 10 * time.Minute}.Do()
		c.AddTLC(r)
		if r.Violated == "" || (inv != "" && r.Violated != inv) {
			c.Inconclusive("%s: expected a violation (%s), got %q", cfg, inv, r.Violated)
			return
		}
	}
	c.Set("design_model", "AtomicCreate.tla: single creator with leftovers, crashes and failures satisfies AllOrNothing/Untouched/ExactAfterReturn/NoInterference/FlushedBeforeVisible (temp opened with O_TRUNC); without O_TRUNC ExactAfterReturn fails; two creators sharing root/<name>.tmp violate AllOrNothing/NoInterference (lead for the known finding); per-call temp names satisfy everything")

	root := filepath.Join(c.Scratch, "acroot")
	dataFile := filepath.Join(c.Scratch, "acdata.bin")
	run := func(inject []string, data []byte) straceRun {
		_ = os.WriteFile(dataFile, data, 0644)
		return runStraced(c.Scratch, inject, "ac-child", root, "d", "f", dataFile)
	}
	readDst := func() ([]byte, bool) {
		b, err := os.ReadFile(filepath.Join(root, "d", "f"))
		return b, err == nil
	}
	sizes := []int{0, 1, 5000}
	if !c.Quick() {
		sizes = append(sizes, 3<<20)
	}
	setups := []struct {
		name string
		s    acSetup
	}{
		{"fresh", acSetup{}},
		{"old", acSetup{oldContent: []byte("OLD-CONTENT")}},
		{"old+short-leftover", acSetup{oldContent: []byte("OLD-CONTENT"), leftover: []byte("xy")}},
		{"old+long-leftover", acSetup{oldContent: []byte("OLD-CONTENT"), leftover: bytes.Repeat([]byte("L"), 9000)}},
		{"long-leftover", acSetup{leftover: bytes.Repeat([]byte("L"), 9000)}},
	}
	evaluations := 0
	points := map[string]bool{}
	var sysEvs []map[string]any
	nerr := int(c.Seed)
	for _, size := range sizes {
		data := acData('A', size)
		data2 := acData('q', size/2+3)
		for _, st := range setups {
			// calibration / plain run: exact after return, order of flush and rename
			if err := prepareRoot(root, "d", "f", st.s); err != nil {
				c.Inconclusive("prepare: %v", err)
				return
			}
			cal := run(nil, data)
			evaluations++
			if cal.Err != nil || !strings.Contains(cal.Stdout, "RET 0") {
				c.Inconclusive("plain AtomicCreate child failed: %v %s", cal.Err, cal.Stdout)
				return
			}
			got, ok := readDst()
			if !ok || !bytes.Equal(got, data) {
				key := "atomiccreate.exact." + st.name
				c.Report(key, fmt.Sprintf("AtomicCreate(d, f, %d bytes) with setup %q returned, but d/f holds %d bytes %q... (want exactly the data)", size, st.name, len(got), trunc(got, 40)),
					map[string]string{"strace.log": cal.Log})
				continue
			}
			ops := opSyscalls(cal.Lines)
			// order clause
			sysEvs = append(sysEvs, map[string]any{"ev": "reset", "setup": st.name, "size": size})
			tmpFd := -1
			for _, l := range ops {
				switch l.Name {
				case "openat", "open":
					if m := reOpenTmp.FindStringSubmatch(l.Args); m != nil && strings.Contains(m[2], "O_CREAT") && l.Ret >= 0 {
						tmpFd = l.Ret
						sysEvs = append(sysEvs, map[string]any{"ev": "open", "fd": l.Ret, "path": m[1]})
					}
				case "write", "pwrite64":
					var fdn int
					fmt.Sscan(strings.SplitN(l.Args, ",", 2)[0], &fdn)
					sysEvs = append(sysEvs, map[string]any{"ev": "write", "fd": fdn, "ret": l.Ret})
				case "fsync", "fdatasync":
					var fdn int
					fmt.Sscan(strings.TrimSpace(l.Args), &fdn)
					sysEvs = append(sysEvs, map[string]any{"ev": "fsync", "fd": fdn, "ret": l.Ret})
				case "renameat", "renameat2", "rename":
					qs := regexp.MustCompile(`"([^"]*)"`).FindAllStringSubmatch(l.Args, -1)
					if len(qs) >= 2 {
						sysEvs = append(sysEvs, map[string]any{"ev": "rename", "from": qs[0][1], "to": qs[1][1], "ret": l.Ret})
					}
				}
			}
			_ = tmpFd
			sysEvs = append(sysEvs, map[string]any{"ev": "ret"})
			// crash and fault at every system call of the operation
			for j, l := range ops {
				when := occurrenceOf(cal.Lines, l, j)
				if when == 0 {
					continue
				}
				modes := []string{"crash", "fault"}
				if size == 1 && st.name == "old" {
					// one size / setup walks through every errno for every system call of the operation
					for k := 1; k < len(faultErrnos); k++ {
						modes = append(modes, "fault")
					}
				}
				for _, mode := range modes {
					if mode == "fault" && l.Name == "close" {
						continue
					}
					if c.Quick() && size == 5000 && st.name != "old" && st.name != "old+long-leftover" {
						continue
					}
					if err := prepareRoot(root, "d", "f", st.s); err != nil {
						c.Inconclusive("prepare: %v", err)
						return
					}
					inj := fmt.Sprintf("%s:signal=SIGKILL:when=%d", l.Name, when)
					if mode == "fault" {
						inj = fmt.Sprintf("%s:error=%s:when=%d", l.Name, faultErrnos[nerr%len(faultErrnos)], when)
						nerr++
					}
					r := run([]string{inj}, data)
					evaluations++
					if r.Err != nil {
						c.Inconclusive("strace run: %v", r.Err)
						return
					}
					pt := fmt.Sprintf("%s:%s#%d size=%d setup=%s", mode, l.Name, j, size, st.name)
					if mode == "crash" && !r.Killed {
						c.Inconclusive("crash point %s not reached", pt)
						continue
					}
					if mode == "fault" && strings.Contains(r.Stdout, "RET 0") {
						c.Report("atomiccreate.fault-ignored."+l.Name, fmt.Sprintf("AtomicCreate returned normally although its %s (call %d of the operation) failed (%s)", l.Name, j+1, inj),
							map[string]string{"strace.log": r.Log})
						continue
					}
					points[pt] = true
					got, ok := readDst()
					okOld := (st.s.oldContent == nil && !ok) || (ok && bytes.Equal(got, st.s.oldContent))
					okNew := ok && bytes.Equal(got, data)
					if !okOld && !okNew {
						c.Report("atomiccreate.all-or-nothing."+mode, fmt.Sprintf("after a %s at %s (call %d of the operation; setup %q, %d bytes) d/f is neither as before nor exactly the data: %d bytes %q...", mode, l.Name, j+1, st.name, size, len(got), trunc(got, 40)),
							map[string]string{"strace.log": r.Log})
						continue
					}
					// whatever was left behind: a later call must still produce exactly its data
					r2 := run(nil, data2)
					evaluations++
					got2, ok2 := readDst()
					if r2.Err != nil || !strings.Contains(r2.Stdout, "RET 0") || !ok2 || !bytes.Equal(got2, data2) {
						c.Report("atomiccreate.after-interrupted."+mode, fmt.Sprintf("after a %s at %s of an earlier call (setup %q, %d bytes), AtomicCreate(d, f, %d bytes) leaves %d bytes %q... in d/f (child: %s)", mode, l.Name, st.name, size, len(data2), len(got2), trunc(got2, 40), strings.TrimSpace(r2.Stdout)),
							map[string]string{"strace.log": r2.Log})
					}
				}
			}
			if c.NViolations() > 4 {
				break
			}
		}
	}
	if len(sysEvs) > 0 {
		tv := validateTrace(dir, "AcSyscallTrace", sysEvs, false, 5*time.Minute)
		c.AddTLC(tv.Res)
		switch {
		case tv.Broken:
			c.Inconclusive("AcSyscallTrace failed to run:\n%s", tlc.Tail(tv.Res.Out, 20))
		case !tv.Accepted:
			at := tv.HighWater - 1
			s := segmentStart(sysEvs, at)
			c.Violation("flush-order", fmt.Sprintf("system calls of a successful AtomicCreate are rejected by AcSyscallTrace at event %d %s: the temp file is not flushed (fsync after its last write) before the rename makes it visible\n%s",
				at-s+1, jsonStr(sysEvs[at]), window(sysEvs, at, 8, 1)), map[string]string{"trace.ndjson": ndjsonString(sysEvs[s:min(len(sysEvs), at+2)])})
		}
	}
	c.Sample(map[string]any{"kind": "syscall trace of one AtomicCreate", "events": sysEvs[:min(8, len(sysEvs))]})

	// (2b) short writes: a file-size limit in the middle of the data cuts write(2) short without an error
	{
		self, _ := os.Executable()
		for _, st := range setups {
			for _, tc := range []struct{ size, limit int }{{5000, 1234}, {5000, 4999}, {5000, 5000}, {9000, 4096}, {3, 1}, {70000, 65536}} {
				if err := prepareRoot(root, "d", "f", st.s); err != nil {
					c.Inconclusive("prepare: %v", err)
					break
				}
				data := acData('k', tc.size)
				_ = os.WriteFile(dataFile, data, 0644)
				out, _ := execOutput(self, "-child", "ac-child", root, "d", "f", dataFile, fmt.Sprint(tc.limit))
				returned := strings.Contains(out, "RET 0")
				got, exists := readDst()
				evaluations++
				points[fmt.Sprintf("fsize-limit/%s/%d/%d", st.name, tc.size, tc.limit)] = true
				bad := ""
				switch {
				case !returned && !strings.Contains(out, "PANIC 0"):
					c.Inconclusive("ac-child with a file-size limit: unexpected output %q", firstLines(out, 3))
					continue
				case returned && (!exists || !bytes.Equal(got, data)):
					bad = fmt.Sprintf("AtomicCreate returned but d/f does not contain exactly data (%d bytes, exists=%v)", len(got), exists)
				case tc.limit < tc.size && returned:
					bad = "AtomicCreate returned although the data cannot have been written completely"
				case !returned && st.s.oldContent == nil && exists:
					bad = fmt.Sprintf("AtomicCreate failed but d/f appeared (%d bytes)", len(got))
				case !returned && st.s.oldContent != nil && (!exists || !bytes.Equal(got, st.s.oldContent)):
					bad = fmt.Sprintf("AtomicCreate failed but d/f no longer has its old content (%d bytes, exists=%v)", len(got), exists)
				}
				if bad != "" {
					c.Violation("atomiccreate.short-write", fmt.Sprintf("setup %s, %d bytes of data, file-size limit %d (write(2) is cut short at the limit): %s", st.name, tc.size, tc.limit, bad), nil)
				}
			}
		}
	}

	// (2c) different names that look like each other's staging files: f, f.tmp, f.tmp.tmp, .f.tmp, f~ in one directory
	// (and the same names in the root). Every file must hold exactly its own data after all calls returned.
	{
		fam := []string{"f", "f.tmp", "f.tmp.tmp", ".f.tmp", "f~", "tmp", "f.tmp0"}
		for _, impl := range []string{"dir", "mem"} {
			for round := 0; round < 3; round++ {
				var fsys filesys.Filesys
				if impl == "dir" {
					_ = os.RemoveAll(root)
					_ = os.MkdirAll(filepath.Join(root, "d"), 0755)
					fsys = filesys.NewDirFs(root)
				} else {
					fsys = filesys.NewMemFs()
					fsys.Mkdir("d")
				}
				order := append([]string{}, fam...)
				rr13 := rng(c, uint64(1300+round))
				rr13.Shuffle(len(order), func(i, j int) { order[i], order[j] = order[j], order[i] })
				want := map[string][]byte{}
				bad := ""
				// earlier files that are deleted again (an implementation that recycles storage must not hand a live
				// file's storage to the next creation)
				for k := 0; k < 3; k++ {
					pre := fmt.Sprintf("pre%d", k)
					fsys.AtomicCreate("d", pre, acData(byte('p'+k), 50+k))
					want[pre] = acData(byte('p'+k), 50+k)
				}
				fsys.Delete("d", "pre0")
				delete(want, "pre0")
				if round%2 == 1 {
					fsys.Delete("d", "pre1")
					delete(want, "pre1")
				}
				for k, nm := range order {
					data := acData(byte('A'+k), 10+k*700)
					if catchPanic(func() { fsys.AtomicCreate("d", nm, data) }) {
						bad = fmt.Sprintf("AtomicCreate(d, %q) panicked", nm)
						break
					}
					want[nm] = data
					evaluations++
					for on, od := range want {
						var got []byte
						if catchPanic(func() {
							f := fsys.Open("d", on)
							got = fsys.ReadAt(f, 0, uint64(len(od)+100))
							fsys.Close(f)
						}) || !bytes.Equal(got, od) {
							bad = fmt.Sprintf("after AtomicCreate(d, %q): d/%s no longer holds exactly the data of its own AtomicCreate (%d bytes read, %d expected)", nm, on, len(got), len(od))
						}
					}
					if bad != "" {
						break
					}
				}
				if bad != "" {
					c.Violation("atomiccreate.other-name-disturbed", fmt.Sprintf("%s, creation order %v: %s (calls for different names must not disturb each other)", impl, order, bad), nil)
					break
				}
			}
		}
	}

	// (2d) many concurrent creators of DIFFERENT names on DirFs: every call returns and every file holds its own data
	{
		_ = os.RemoveAll(root)
		_ = os.MkdirAll(filepath.Join(root, "d"), 0755)
		_ = os.MkdirAll(filepath.Join(root, "e"), 0755)
		fsys := filesys.NewDirFs(root)
		var wg sync.WaitGroup
		var mu sync.Mutex
		panics := 0
		nW, nF := 8, c.Pick(80, 400)
		for g := 0; g < nW; g++ {
			wg.Add(1)
			go func(g int) {
				defer wg.Done()
				for i := 0; i < nF; i++ {
					nm := fmt.Sprintf("w%d-%d", g, i)
					if catchPanic(func() { fsys.AtomicCreate([]string{"d", "e"}[i%2], nm, acData(byte('a'+g), 20+i%300)) }) {
						mu.Lock()
						panics++
						mu.Unlock()
					}
				}
			}(g)
		}
		wg.Wait()
		wrong := 0
		first := ""
		for g := 0; g < nW; g++ {
			for i := 0; i < nF; i++ {
				nm := fmt.Sprintf("w%d-%d", g, i)
				b, err := os.ReadFile(filepath.Join(root, []string{"d", "e"}[i%2], nm))
				if err != nil || !bytes.Equal(b, acData(byte('a'+g), 20+i%300)) {
					wrong++
					if first == "" {
						first = fmt.Sprintf("%s: %d bytes, err %v", nm, len(b), err)
					}
				}
			}
		}
		evaluations += nW * nF
		if panics > 0 || wrong > 0 {
			c.Violation("atomiccreate.concurrent-different-names", fmt.Sprintf("%d goroutines creating %d files each with names of their own: %d calls panicked, %d files do not hold exactly their data (first: %s): calls for different names disturb each other", nW, nF, panics, wrong, first), nil)
		}
	}

	// (2e) the same with names that are different but related (same stem and another extension, one a prefix of the
	// other, differing in case), all in one directory and all created at the same moment
	{
		_ = os.RemoveAll(root)
		_ = os.MkdirAll(filepath.Join(root, "d"), 0755)
		fsys := filesys.NewDirFs(root)
		exts := []string{".idx", ".dat", "", ".log", ".idx.bak", "-x", ".d.e", "_", ".IDX", ".tmpl"}
		rounds := c.Pick(60, 400)
		panics, wrong := 0, 0
		first := ""
		var mu sync.Mutex
		for i := 0; i < rounds; i++ {
			var wg sync.WaitGroup
			start := make(chan struct{})
			// every other round the callers go through two FRESH DirFs instances on the same root (two programs, or two
			// handles of one program, working on one directory tree)
			inst := [2]filesys.Filesys{fsys, fsys}
			var fresh []filesys.DirFs
			if i%2 == 1 {
				a, b := filesys.NewDirFs(root), filesys.NewDirFs(root)
				inst = [2]filesys.Filesys{a, b}
				fresh = []filesys.DirFs{a, b}
			}
			for g := range exts {
				wg.Add(1)
				go func(g int) {
					defer wg.Done()
					<-start
					if catchPanic(func() {
						inst[g%2].AtomicCreate("d", fmt.Sprintf("t%d%s", i, exts[g]), acData(byte('a'+g), 30+(i*7+g*131)%5000))
					}) {
						mu.Lock()
						panics++
						mu.Unlock()
					}
				}(g)
			}
			close(start)
			wg.Wait()
			for _, f := range fresh {
				f.CloseFs()
			}
			for g := range exts {
				nm := fmt.Sprintf("t%d%s", i, exts[g])
				b, err := os.ReadFile(filepath.Join(root, "d", nm))
				if err != nil || !bytes.Equal(b, acData(byte('a'+g), 30+(i*7+g*131)%5000)) {
					wrong++
					if first == "" {
						first = fmt.Sprintf("%s: %d bytes, err %v", nm, len(b), err)
					}
				}
			}
		}
		evaluations += rounds * len(exts)
		if panics > 0 || wrong > 0 {
			c.Violation("atomiccreate.concurrent-related-names", fmt.Sprintf("%d rounds of %d goroutines creating, at the same moment and in one directory, files whose names differ only in their extension / case / a suffix: %d calls panicked, %d files do not hold exactly their data (first: %s): calls for different names disturb each other", rounds, len(exts), panics, wrong, first), nil)
		}
	}

	// (3) concurrent creators and readers on DirFs, interleaved at the hooks
	acConcurrency(c)

	// (3b) AtomicCreate next to files that are open for appending (the log-and-manifest pattern), both implementations:
	// the created file holds exactly its data, now and after later appends to the other file, and vice versa
	for ti, tn := range []string{"mem/method", "dir/method"} {
		for _, order := range []string{"create-first", "atomic-first", "create-append-first"} {
			t := openFsTarget(tn, c.Scratch, 70+ti)
			bad := ""
			func() {
				defer func() {
					if e := recover(); e != nil {
						bad = fmt.Sprintf("panic: %v", e)
					}
				}()
				t.fs.Mkdir("lg")
				data := acData('m', 300)
				var lf filesys.File
				var ok bool
				switch order {
				case "create-first":
					lf, ok = t.fs.Create("lg", "log")
					t.fs.AtomicCreate("lg", "manifest", data)
				case "atomic-first":
					t.fs.AtomicCreate("lg", "manifest", data)
					lf, ok = t.fs.Create("lg", "log")
				default:
					lf, ok = t.fs.Create("lg", "log")
					t.fs.Append(lf, []byte("first"))
					t.fs.AtomicCreate("lg", "manifest", data)
				}
				if !ok {
					bad = "Create of a fresh name failed"
					return
				}
				t.fs.Append(lf, []byte("entry-1"))
				t.fs.Append(lf, []byte("entry-2"))
				wantLog := "entry-1entry-2"
				if order == "create-append-first" {
					wantLog = "first" + wantLog
				}
				rd := func(n string) []byte {
					f := t.fs.Open("lg", n)
					b := t.fs.ReadAt(f, 0, 10000)
					t.fs.Close(f)
					return b
				}
				if got := rd("manifest"); !bytes.Equal(got, data) {
					bad = fmt.Sprintf("lg/manifest holds %d bytes %q..., AtomicCreate installed %d bytes: appends to lg/log show through it", len(got), string(got[:min(16, len(got))]), len(data))
				} else if got := rd("log"); string(got) != wantLog {
					bad = fmt.Sprintf("lg/log holds %q, the appends were %q", string(got[:min(40, len(got))]), wantLog)
				}
				t.fs.Close(lf)
			}()
			t.close()
			evaluations++
			if bad != "" {
				c.Violation("atomiccreate.next-to-open-file."+tn[:3], fmt.Sprintf("target %s, %s: a file opened with Create (and appended to afterwards) next to a file installed with AtomicCreate: %s", tn, order, bad), nil)
			}
		}
	}

	// (4) MemFs: concurrent AtomicCreate (barrier-released bursts) must be linearizable: every creator
	// reads back exactly its own data (same machinery as C14: histories validated by FsLinTrace)
	acMemBursts(c, dir)

	c.AddTraces(evaluations)
	c.Set("evaluations", evaluations)
	c.Set("distinct_nontrivial", len(points))
	c.Set("rule", "evaluations = straced child runs; distinct_nontrivial = distinct (crash|fault, system call, position in the operation, data size, leftover/old-content setup) tuples whose child actually reached the injection point")
	c.Sample(map[string]any{"kind": "injection points", "points": keysOf(points)[:min(6, len(points))]})
}

func trunc(b []byte, n int) string {
	if len(b) > n {
		b = b[:n]
	}
	return string(b)
}

// acConcurrency: creator A is parked at each hook point of DirFs.AtomicCreate while creator B runs
// to completion and a reader looks at both destinations; then A resumes.
func acConcurrency(c *ev.Ctx) {
	type rel struct{ name, dA, nA, dB, nB string }
	rels := []rel{
		{"same-dir.diff-name", "d1", "x", "d1", "y"},
		{"diff-dir.diff-name", "d1", "x", "d2", "y"},
		{"diff-dir.same-name", "d1", "x", "d2", "x"},
		{"same-dir.same-name", "d1", "x", "d1", "x"},
	}
	pts := []string{"atomiccreate.opened", "atomiccreate.write", "atomiccreate.written", "atomiccreate.synced"}
	n := 0
	for _, rl := range rels {
		for _, pt := range pts {
			root := filepath.Join(c.Scratch, "acconc")
			_ = os.RemoveAll(root)
			for _, d := range []string{"d1", "d2"} {
				_ = os.MkdirAll(filepath.Join(root, d), 0755)
			}
			oldA, oldB := []byte("OLD-A"), []byte("OLD-B")
			_ = os.WriteFile(filepath.Join(root, rl.dA, rl.nA), oldA, 0644)
			if rl.dA != rl.dB || rl.nA != rl.nB {
				_ = os.WriteFile(filepath.Join(root, rl.dB, rl.nB), oldB, 0644)
			} else {
				oldB = oldA
			}
			fs := filesys.NewDirFs(root)
			dataA, dataB := acData('A', 6000), acData('b', 2500)
			parked := make(chan struct{})
			release := make(chan struct{})
			first := true
			filesys.VerifHook = func(point, dir, name string, fd int) {
				if point == pt && dir == rl.dA && name == rl.nA && first {
					first = false
					close(parked)
					<-release
				}
			}
			doneA := make(chan bool, 1)
			go func() { doneA <- catchPanic(func() { fs.AtomicCreate(rl.dA, rl.nA, dataA) }) }()
			select {
			case <-parked:
			case <-time.After(5 * time.Second):
				filesys.VerifHook = nil
				c.Inconclusive("creator A did not reach %s", pt)
				return
			}
			read := func(d, nm string) []byte { b, _ := os.ReadFile(filepath.Join(root, d, nm)); return b }
			oneOf := func(b []byte, xs ...[]byte) bool {
				for _, x := range xs {
					if bytes.Equal(b, x) {
						return true
					}
				}
				return false
			}
			bad := ""
			// reader while A is in the middle of its call
			if g := read(rl.dA, rl.nA); !oneOf(g, oldA, dataA) {
				bad = fmt.Sprintf("while a creator is at %s, a reader sees %d bytes %q... in its destination (neither old nor new)", pt, len(g), trunc(g, 20))
			}
			pB := false
			if bad == "" {
				pB = catchPanic(func() { fs.AtomicCreate(rl.dB, rl.nB, dataB) })
			}
			close(release)
			var pA bool
			select {
			case pA = <-doneA:
			case <-time.After(5 * time.Second):
				filesys.VerifHook = nil
				c.Inconclusive("creator A did not finish")
				return
			}
			filesys.VerifHook = nil
			gA, gB := read(rl.dA, rl.nA), read(rl.dB, rl.nB)
			same := rl.dA == rl.dB && rl.nA == rl.nB
			switch {
			case bad != "":
			case !same && (pA || pB):
				bad = fmt.Sprintf("creators of different destinations disturbed each other: A panicked=%v B panicked=%v", pA, pB)
			case !same && !bytes.Equal(gA, dataA):
				bad = fmt.Sprintf("A's destination holds %d bytes %q... instead of exactly A's data after both calls returned", len(gA), trunc(gA, 20))
			case !same && !bytes.Equal(gB, dataB):
				bad = fmt.Sprintf("B's destination holds %d bytes %q... instead of exactly B's data after both calls returned", len(gB), trunc(gB, 20))
			case same && !oneOf(gA, dataA, dataB):
				bad = fmt.Sprintf("same-name creators left %d bytes %q... (the complete data of neither)", len(gA), trunc(gA, 20))
			}
			fs.CloseFs()
			n++
			if bad != "" {
				key := "atomiccreate.tmp-shared." + rl.name
				c.Report(key, fmt.Sprintf("DirFs.AtomicCreate(%s/%s) parked at %s while AtomicCreate(%s/%s) ran: %s", rl.dA, rl.nA, pt, rl.dB, rl.nB, bad),
					map[string]string{"scenario.txt": fmt.Sprintf("%+v at %s", rl, pt)})
			}
		}
	}
	c.Set("concurrent_schedules", n)
}

func acMemBursts(c *ev.Ctx, dir string) {
	outFile := filepath.Join(c.Scratch, "hist-ac-mem.ndjson")
	self, _ := os.Executable()
	nh := c.Pick(80, 2000)
	cout, cerr := execOutput(self, "-child", "stress-fs", fmt.Sprint(c.Seed+77), "mem", fmt.Sprint(nh), "3", c.Scratch, outFile)
	if strings.Contains(cout, "fatal error: concurrent map") {
		c.Violation("memfs-crash", "the Go runtime aborted concurrent MemFs.AtomicCreate callers with a concurrent map access\n"+tlc.Tail(cout, 30), map[string]string{"crash.txt": cout})
		return
	}
	if cerr != nil || !strings.Contains(cout, "STRESS-DONE") {
		c.Inconclusive("stress child failed: %v\n%s", cerr, tlc.Tail(cout, 20))
		return
	}
	hb, err := os.ReadFile(outFile)
	if err != nil {
		c.Inconclusive("read histories: %v", err)
		return
	}
	if err := os.WriteFile(filepath.Join(dir, "trace.ndjson"), hb, 0644); err != nil {
		c.Inconclusive("write trace: %v", err)
		return
	}
	tr := tlc.Run{Dir: dir, Module: "FsLinTrace", Workers: 1, DFS: true, Timeout: 10 * time.Minute, HeapMB: 8000, StackMB: 64}.Do()
	c.AddTLC(tr)
	switch {
	case tr.NoError && tr.Violated == "":
		c.AddTraces(nh)
		c.Set("memfs_burst_histories", nh)
	case tr.Violated == "postcondition" && !strings.Contains(tr.Out, "Error: Evaluating") && !tr.TimedOut:
		hw := 0
		for _, p := range tr.Prints {
			fmt.Sscanf(strings.Trim(p, `"`), "%d", &hw)
		}
		lines := strings.Split(strings.TrimSpace(string(hb)), "\n")
		lo, hi := max(0, hw-14), min(len(lines), hw+1)
		c.Violation("memfs-atomiccreate-lin", fmt.Sprintf("concurrent MemFs history with barrier-released AtomicCreate bursts is not linearizable (a creator does not read back exactly its own data, or creators disturbed each other); first unmatched event %d:\n%s", hw, strings.Join(lines[lo:hi], "\n")),
			map[string]string{"trace-window.ndjson": strings.Join(lines[max(0, hw-200):hi], "\n")})
	default:
		c.Inconclusive("FsLinTrace did not run cleanly:\n%s", tlc.Tail(tr.Out, 20))
	}
}
