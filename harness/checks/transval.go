package checks

import (
	"encoding/json"
	"fmt"
	"math/big"
	"os"
	"os/exec"
	"path/filepath"
	"reflect"
	"sort"
	"strings"
	"time"

	"verif/ev"
	"verif/gl"
	"verif/goosegen"
	"verif/tlc"
	"verif/v2tla"
	"verif/vparse"
)

func init() { Registry["C01"] = C01 }

// genModule is a scratch Go module holding generated packages p0, p1, ...
type genModule struct {
	dir  string
	pkgs []string // package dir names
}

func goEnv() []string {
	return append(os.Environ(), "GOFLAGS=-mod=mod", "GOPROXY=off", "GOSUMDB=off", "GOTOOLCHAIN=local")
}

func newGenModule(c *ev.Ctx, name string) (*genModule, error) {
	dir := filepath.Join(c.Scratch, name)
	_ = os.RemoveAll(dir)
	if err := os.MkdirAll(dir, 0755); err != nil {
		return nil, err
	}
	gomod := fmt.Sprintf("module example.com/gen\n\ngo 1.22\n\nrequire github.com/goose-lang/goose v0.0.0\n\nreplace github.com/goose-lang/goose => %s\n", c.Repo)
	if err := os.WriteFile(filepath.Join(dir, "go.mod"), []byte(gomod), 0644); err != nil {
		return nil, err
	}
	sum, _ := os.ReadFile(filepath.Join(c.Repo, "go.sum"))
	_ = os.WriteFile(filepath.Join(dir, "go.sum"), sum, 0644)
	return &genModule{dir: dir}, nil
}

func (m *genModule) addPackage(name, source string, entries []string) error {
	d := filepath.Join(m.dir, name)
	if err := os.MkdirAll(d, 0755); err != nil {
		return err
	}
	if err := os.WriteFile(filepath.Join(d, "gen.go"), []byte(source), 0644); err != nil {
		return err
	}
	if err := os.WriteFile(filepath.Join(d, "runner.go"), []byte(goosegen.RunnerSource("gen", entries)), 0644); err != nil {
		return err
	}
	m.pkgs = append(m.pkgs, name)
	return nil
}

type goResult struct {
	Name  string          `json:"name"`
	Panic string          `json:"panic"`
	Rty   json.RawMessage `json:"rty"`
	Res   json.RawMessage `json:"res"`
}

// runGo builds and runs every package's RunAll; returns per package the entry results.
// Packages that do not compile are reported in broken (generator problem, never a violation).
func (m *genModule) runGo() (map[string][]goResult, map[string]string, error) {
	res := map[string][]goResult{}
	broken := map[string]string{}
	// vet each package for compile errors first (cheap: go build ./...)
	good := []string{}
	cmd := exec.Command("go", "build", "./...")
	cmd.Dir, cmd.Env = m.dir, goEnv()
	out, err := cmd.CombinedOutput()
	if err != nil {
		for _, p := range m.pkgs {
			if strings.Contains(string(out), "/"+p+"\n") || strings.Contains(string(out), p+"/gen.go") || strings.Contains(string(out), p+"/runner.go") {
				broken[p] = string(out)
			} else {
				good = append(good, p)
			}
		}
		if len(good) == len(m.pkgs) {
			return nil, nil, fmt.Errorf("go build failed: %s", out)
		}
	} else {
		good = m.pkgs
	}
	var sb strings.Builder
	sb.WriteString("package main\n\nimport (\n\t\"fmt\"\n")
	for _, p := range good {
		fmt.Fprintf(&sb, "\t%s \"example.com/gen/%s\"\n", p, p)
	}
	sb.WriteString(")\n\nfunc main() {\n")
	for _, p := range good {
		fmt.Fprintf(&sb, "\tfmt.Println(\"== %s\")\n\t%s.RunAll()\n", p, p)
	}
	sb.WriteString("}\n")
	_ = os.MkdirAll(filepath.Join(m.dir, "cmd", "run"), 0755)
	_ = os.WriteFile(filepath.Join(m.dir, "cmd", "run", "main.go"), []byte(sb.String()), 0644)
	cmd = exec.Command("go", "run", "./cmd/run")
	cmd.Dir, cmd.Env = m.dir, goEnv()
	out, err = cmd.CombinedOutput()
	if err != nil {
		return nil, nil, fmt.Errorf("go run failed: %v\n%s", err, tlc.Tail(string(out), 30))
	}
	cur := ""
	for _, ln := range strings.Split(string(out), "\n") {
		if strings.HasPrefix(ln, "== ") {
			cur = strings.TrimPrefix(ln, "== ")
			continue
		}
		if !strings.HasPrefix(ln, "{") {
			continue
		}
		var r goResult
		if json.Unmarshal([]byte(ln), &r) == nil {
			res[cur] = append(res[cur], r)
		}
	}
	return res, broken, nil
}

// runGoose translates all packages with one invocation of the real binary.
type gooseOut struct {
	files  map[string]string // package -> .v text
	stderr string
	exit   int
}

func (m *genModule) runGoose(c *ev.Ctx, extra ...string) gooseOut {
	out := filepath.Join(m.dir, "_out")
	_ = os.RemoveAll(out)
	args := append([]string{"-out", out, "-dir", m.dir}, extra...)
	for _, p := range m.pkgs {
		args = append(args, "./"+p)
	}
	cmd := exec.Command(filepath.Join(c.Bin, "goose"), args...)
	cmd.Env = goEnv()
	b, err := cmd.CombinedOutput()
	g := gooseOut{files: map[string]string{}, stderr: string(b)}
	if ee, ok := err.(*exec.ExitError); ok {
		g.exit = ee.ExitCode()
	} else if err != nil {
		g.exit = -1
	}
	for _, p := range m.pkgs {
		fb, err := os.ReadFile(filepath.Join(out, "example_com", "gen", p+".v"))
		if err == nil {
			g.files[p] = string(fb)
		}
	}
	return g
}

// ---- normalisation of canonical results ----

func normGo(raw json.RawMessage) any {
	var v any
	_ = json.Unmarshal(raw, &v)
	return normGoV(v)
}

func normGoV(v any) any {
	m, ok := v.(map[string]any)
	if !ok {
		return v
	}
	switch m["t"] {
	case "int":
		return "int:" + fmt.Sprint(m["v"])
	case "bool":
		return fmt.Sprintf("bool:%v", m["v"])
	case "str":
		// []byte is base64 in JSON
		return "str:" + fmt.Sprint(m["v"])
	case "slice", "tuple":
		es, _ := m["es"].([]any)
		out := []any{m["t"]}
		for _, e := range es {
			out = append(out, normGoV(e))
		}
		return out
	case "nil":
		return "nil"
	case "ptr":
		return []any{"ptr", normGoV(m["v"])}
	case "struct":
		fs, _ := m["fs"].([]any)
		out := []any{"struct"}
		for _, f := range fs {
			fm := f.(map[string]any)
			out = append(out, []any{fm["n"], normGoV(fm["v"])})
		}
		return out
	case "map":
		kv, _ := m["kv"].([]any)
		var items []string
		for _, x := range kv {
			xm := x.(map[string]any)
			b, _ := json.Marshal([]any{normGoV(xm["k"]), normGoV(xm["v"])})
			items = append(items, string(b))
		}
		sort.Strings(items)
		return []any{"map", items}
	case "unit":
		return "unit"
	}
	return fmt.Sprint(v)
}

func limbsToString(w []any) string {
	x := new(big.Int)
	for i := len(w) - 1; i >= 0; i-- {
		x.Mul(x, big.NewInt(256))
		f, _ := w[i].(float64)
		x.Add(x, big.NewInt(int64(f)))
	}
	return x.String()
}

func normTLA(raw json.RawMessage) any {
	var v any
	_ = json.Unmarshal(raw, &v)
	return normTLAV(v)
}

func b64(bs []any) string {
	b := make([]byte, len(bs))
	for i, x := range bs {
		f, _ := x.(float64)
		b[i] = byte(f)
	}
	j, _ := json.Marshal(b)
	var s string
	_ = json.Unmarshal(j, &s)
	return s
}

func normTLAV(v any) any {
	m, ok := v.(map[string]any)
	if !ok {
		return v
	}
	switch m["t"] {
	case "u64", "u32", "u8":
		w, _ := m["w"].([]any)
		return "int:" + limbsToString(w)
	case "bool":
		return fmt.Sprintf("bool:%v", m["b"])
	case "str":
		s, _ := m["s"].([]any)
		return "str:" + b64(s)
	case "slice", "tuple":
		es, _ := m["es"].([]any)
		out := []any{m["t"]}
		for _, e := range es {
			out = append(out, normTLAV(e))
		}
		return out
	case "nil":
		return "nil"
	case "ptr":
		return []any{"ptr", normTLAV(m["v"])}
	case "struct":
		fs, _ := m["fs"].([]any)
		out := []any{"struct"}
		for _, f := range fs {
			fm := f.(map[string]any)
			out = append(out, []any{fm["n"], normTLAV(fm["v"])})
		}
		return out
	case "map":
		kv, _ := m["kv"].([]any)
		var items []string
		for _, x := range kv {
			xm := x.(map[string]any)
			b, _ := json.Marshal([]any{normTLAV(xm["k"]), normTLAV(xm["v"])})
			items = append(items, string(b))
		}
		sort.Strings(items)
		return []any{"map", items}
	case "unit":
		return "unit"
	case "bad":
		return "BAD:" + fmt.Sprint(m["why"])
	}
	return fmt.Sprint(v)
}

// ---- one translation-validation batch ----

type tvPackage struct {
	Name    string
	Source  string
	Entries []goosegen.Entry
	Keys    map[string]bool
}

type tvDisagreement struct {
	Pkg, Entry string
	Kind       string // rejected | missing-def | stuck | mismatch | unknown-ident | undefined-name | undefined-field
	Detail     string
	Keys       []string
	GoRes      string
	ModelRes   string
}

type tvStats struct {
	Programs, Compared, GoPanicked, Inconclusive, Broken int
	States, Transitions                                  int64
}

// translateAndCompare: Go results vs. the TLA+ semantics of what the real goose emitted.
func translateAndCompare(c *ev.Ctx, tag string, pkgs []tvPackage, mode string) ([]tvDisagreement, tvStats, map[string]string, bool) {
	var st tvStats
	m, err := newGenModule(c, "mod-"+tag)
	if err != nil {
		c.Inconclusive("module: %v", err)
		return nil, st, nil, false
	}
	defer os.RemoveAll(m.dir)
	for _, p := range pkgs {
		var es []string
		for _, e := range p.Entries {
			es = append(es, e.Name)
		}
		if err := m.addPackage(p.Name, p.Source, es); err != nil {
			c.Inconclusive("write package: %v", err)
			return nil, st, nil, false
		}
	}
	goRes, broken, err := m.runGo()
	if err != nil {
		c.Inconclusive("%v", err)
		return nil, st, nil, false
	}
	gout := m.runGoose(c)
	if gout.exit == 2 || strings.Contains(gout.stderr, "goroutine ") {
		c.Inconclusive("goose crashed on batch %s (see C07):\n%s", tag, tlc.Tail(gout.stderr, 15))
	}
	var good []tvPackage
	for _, p := range pkgs {
		if _, b := broken[p.Name]; !b {
			good = append(good, p)
		}
	}
	dis, st2, ok := compareEmittedMode(c, tag, good, goRes, gout.files, gout.stderr, mode)
	st2.Broken = len(broken)
	return dis, st2, gout.files, ok
}

func compareEmitted(c *ev.Ctx, tag string, pkgs []tvPackage, goRes map[string][]goResult, files map[string]string) ([]tvDisagreement, tvStats, bool) {
	return compareEmittedMode(c, tag, pkgs, goRes, files, "", "seq")
}

// compareEmittedMode executes the emitted text of every package on the model and compares with the Go results.
func compareEmittedMode(c *ev.Ctx, tag string, pkgs []tvPackage, goRes map[string][]goResult, files map[string]string, stderr string, mode string) ([]tvDisagreement, tvStats, bool) {
	var st tvStats
	var dis []tvDisagreement
	byName := map[string]tvPackage{}
	for _, p := range pkgs {
		byName[p.Name] = p
	}
	dir, ok := glSpecDir(c, "spec-gl-"+tag)
	if !ok {
		return nil, st, false
	}
	pb, err := os.ReadFile(filepath.Join(c.Verif, "spec", "gooselang", "prelude.v"))
	if err != nil {
		c.Inconclusive("prelude: %v", err)
		return nil, st, false
	}
	pf, err := vparse.ParseFile(string(pb))
	if err != nil {
		c.Inconclusive("prelude: %v", err)
		return nil, st, false
	}
	l := v2tla.New()
	l.AddFile(pf)
	expect := map[string]goResult{}
	expectPanic := map[string]goResult{} // Go panicked explicitly: the emitted definition must not return normally
	for _, p := range pkgs {
		st.Programs++
		text, have := files[p.Name]
		if !have {
			// goose rejected the package: which declaration? report once per package
			dis = append(dis, tvDisagreement{Pkg: p.Name, Entry: "*", Kind: "rejected", Detail: extractErrors(stderr, p.Name), Keys: keysList(p.Keys)})
			continue
		}
		prog, perrs := vparse.ParseFileLenient(text)
		for _, pe := range perrs {
			// an emitted definition that Coq's grammar (as far as vparse knows it) cannot read
			dis = append(dis, tvDisagreement{Pkg: p.Name, Entry: pe.Name, Kind: "unparsable", Detail: pe.Err.Error(), Keys: keysList(p.Keys)})
		}
		for _, pr := range defOrderProblems(prog) {
			st.Compared++
			dis = append(dis, tvDisagreement{Pkg: p.Name, Entry: pr[0], Kind: "use-before-def", Detail: pr[1], Keys: keysList(p.Keys)})
		}
		l.Prefix = p.Name + "."
		l.AddFile(prog)
		defs := map[string]bool{}
		for _, d := range prog.Decls {
			defs[d.Name] = true
		}
		wanted := map[string]bool{}
		for _, e := range p.Entries {
			wanted[e.Name] = true
		}
		for _, gr := range goRes[p.Name] {
			if !wanted[gr.Name] {
				continue
			}
			if gr.Panic != "" {
				st.GoPanicked++
				if mustPanicKeys != nil && defs[gr.Name] {
					for _, e := range p.Entries {
						if e.Name == gr.Name && len(e.Keys) == 1 && mustPanicKeys[e.Keys[0]] {
							tn := p.Name + "." + gr.Name
							l.AddTest(tn, gl.CallNoArgs(gr.Name), map[string]any{"t": "u64"})
							expectPanic[tn] = gr
						}
					}
				}
				continue
			}
			if !defs[gr.Name] {
				dis = append(dis, tvDisagreement{Pkg: p.Name, Entry: gr.Name, Kind: "missing-def", Detail: "no Definition for this function in the emitted file", Keys: keysList(p.Keys)})
				continue
			}
			var rty any
			_ = json.Unmarshal(gr.Rty, &rty)
			tn := p.Name + "." + gr.Name
			l.AddTest(tn, gl.CallNoArgs(gr.Name), rty)
			expect[tn] = gr
		}
	}
	l.Prefix = ""
	if len(l.P.Tests) == 0 {
		return dis, st, true
	}
	outs, r, err := gl.Run(dir, l, gl.RunOpts{Mode: mode, Fuel: 400, Workers: 14, Timeout: 20 * time.Minute})
	st.States, st.Transitions = r.Distinct, r.Generated
	c.AddTLC(r)
	if err != nil || r.TLCError || r.TimedOut {
		c.Inconclusive("TLC failed on batch %s: %v\n%s", tag, err, tlc.Tail(r.Out, 30))
		return dis, st, false
	}
	seen := map[string]bool{}
	for _, o := range outs {
		if gp, isP := expectPanic[o.Name]; isP {
			if o.St == "done" {
				parts := strings.SplitN(o.Name, ".", 2)
				st.Compared++
				dis = append(dis, tvDisagreement{Pkg: parts[0], Entry: parts[1], Kind: "go-panics-model-returns", Detail: "Go panics (" + gp.Panic + ") but the emitted definition returns normally: the panicking call was dropped or weakened", ModelRes: string(o.Res)})
			}
			continue
		}
		gr, ok := expect[o.Name]
		if !ok || seen[o.Name] {
			continue
		}
		seen[o.Name] = true
		parts := strings.SplitN(o.Name, ".", 2)
		p := byName[parts[0]]
		if o.St == "stuck" {
			kind := "stuck"
			if strings.HasPrefix(o.Why, "unknown identifier") && isProgramName(strings.TrimSpace(strings.TrimPrefix(o.Why, "unknown identifier"))) {
				// an unqualified name that neither the package nor the GooseLang library defines: the emitted
				// definition refers to something that does not exist
				kind = "undefined-name"
				st.Compared++
			} else if strings.HasPrefix(o.Why, "unknown identifier ?unsupported:") && (strings.Contains(o.Why, " of unknown field ") || strings.Contains(o.Why, ": unknown field ")) {
				// the emitted text selects / initialises a field that the emitted descriptor of that very struct does
				// not declare (GooseLang answers #() or ignores the initialiser: never what Go means)
				kind = "undefined-field"
				st.Compared++
			} else if strings.HasPrefix(o.Why, "unknown identifier") || strings.HasPrefix(o.Why, "unknown builtin") {
				kind = "unknown-ident"
				st.Inconclusive++
			} else {
				st.Compared++
			}
			dis = append(dis, tvDisagreement{Pkg: parts[0], Entry: parts[1], Kind: kind, Detail: o.Why, Keys: keysList(p.Keys), GoRes: string(gr.Res)})
			continue
		}
		st.Compared++
		a, b := normGo(gr.Res), normTLA(o.Res)
		if !reflect.DeepEqual(a, b) {
			ja, _ := json.Marshal(a)
			jb, _ := json.Marshal(b)
			dis = append(dis, tvDisagreement{Pkg: parts[0], Entry: parts[1], Kind: "mismatch", Detail: "Go and the GooseLang model disagree on the result", Keys: keysList(p.Keys), GoRes: string(ja), ModelRes: string(jb)})
		}
	}
	for tn := range expect {
		if !seen[tn] {
			parts := strings.SplitN(tn, ".", 2)
			st.Inconclusive++
			dis = append(dis, tvDisagreement{Pkg: parts[0], Entry: parts[1], Kind: "no-outcome", Detail: "the model produced no outcome (did not terminate within the state bound?)"})
		}
	}
	return dis, st, true
}

// isProgramName: the identifier cannot be a GooseLang library name the model lacks (those are qualified, or one of
// the few unqualified ones listed here), so it must come from the translated package itself.
func isProgramName(n string) bool {
	if n == "" || strings.Contains(n, ".") {
		return false
	}
	switch n {
	case "NewProph", "ResolveProph", "zero_array", "arrayT", "MapIter", "ForSlice", "Data.getField_f", "Linearize":
		return false
	}
	return true
}

// mustPanicKeys: catalogue constructs whose entry panics in Go by an explicit panic / log.Panic call (set by C02)
var mustPanicKeys map[string]bool

func keysList(m map[string]bool) []string {
	var ks []string
	for k := range m {
		ks = append(ks, k)
	}
	sort.Strings(ks)
	return ks
}

func extractErrors(stderr, pkg string) string {
	var out []string
	lines := strings.Split(stderr, "\n")
	for i, ln := range lines {
		if strings.Contains(ln, "/"+pkg+"/") || strings.HasPrefix(ln, "[") {
			lo := max(0, i-3)
			out = append(out, strings.Join(lines[lo:min(len(lines), i+2)], "\n"))
			if len(out) > 3 {
				break
			}
		}
	}
	if len(out) == 0 {
		return tlc.Tail(stderr, 12)
	}
	return strings.Join(out, "\n---\n")
}

func C01(c *ev.Ctx) {
	c.Level = "translation_validation"
	c.Assume("GooseLang.tla + prelude.v are a transcription of Perennial's semantics, calibrated on the 96 shipped semantics functions before every run",
		"the Go toolchain is the semantics of the source; entry points are closed functions whose result gathers the computed values",
		"generated programs are in the supported subset (each production cites docs/writing-goose.md or a shipped example) and never panic; known-bad shapes (known_findings.json) are masked in exploration and re-run as probes",
		"Word.tla agrees with Go arithmetic (checked by selftest-word in the thorough tier)")
	if !glCalibration(c, !c.Quick()) { // thorough: including the write-ahead log example on the disk FFI
		return
	}
	if !c.Quick() {
		wordSelfTest(c)
	}
	npk := c.Pick(56, 600)
	batch := 56
	var all []tvDisagreement
	var tot tvStats
	keysSeen := map[string]bool{}
	for b := 0; b*batch < npk; b++ {
		var pkgs []tvPackage
		for i := 0; i < batch && b*batch+i < npk; i++ {
			seed := uint64(c.Seed)*1000003 + uint64(b*batch+i)
			gp := goosegen.Generate(goosegen.Options{Seed: seed, Funcs: 4 + int(seed%5), Entries: 6})
			for k := range gp.Keys {
				keysSeen[k] = true
			}
			pkgs = append(pkgs, tvPackage{Name: fmt.Sprintf("p%d", b*batch+i), Source: gp.Source, Entries: gp.Entries, Keys: gp.Keys})
		}
		dis, st, texts, ok := translateAndCompare(c, fmt.Sprintf("c01b%d", b), pkgs, "seq")
		tot.Programs += st.Programs
		tot.Compared += st.Compared
		tot.GoPanicked += st.GoPanicked
		tot.Inconclusive += st.Inconclusive
		tot.Broken += st.Broken
		if !ok {
			break
		}
		if b == 0 && len(pkgs) > 0 {
			c.Sample(map[string]any{"kind": "generated package", "source": pkgs[0].Source, "emitted": texts[pkgs[0].Name]})
		}
		for _, d := range dis {
			all = append(all, d)
			if d.Kind == "unknown-ident" || d.Kind == "no-outcome" {
				if os.Getenv("VERIF_DEBUG") != "" {
					fmt.Printf("debug: %s.%s %s: %s\n", d.Pkg, d.Entry, d.Kind, d.Detail)
				}
				continue
			}
			var src string
			for _, p := range pkgs {
				if p.Name == d.Pkg {
					src = p.Source
				}
			}
			key := "c01." + d.Kind
			c.Report(key, fmt.Sprintf("package %s entry %s: %s: %s\n  Go:    %s\n  model: %s\n  feature keys: %s", d.Pkg, d.Entry, d.Kind, d.Detail, d.GoRes, d.ModelRes, strings.Join(d.Keys, " ")),
				map[string]string{"gen.go": src, "emitted.v": texts[d.Pkg], "entry.txt": d.Entry})
			if c.NViolations() > 8 {
				break
			}
		}
		if c.NViolations() > 8 {
			break
		}
	}
	nb, nbAcc := c01Boundary(c)
	c.Set("boundary_constructs_tried", nb)
	// identifier choice across the files of one package: one file imports a special library, another file a user
	// package of the same name (both accepted: every call keeps the meaning of the package its file imports)
	{
		var two []lookCase
		for _, lc := range lookCases {
			if len(lc.files) > 0 {
				two = append(two, lc)
			}
		}
		lt, le := lookalikes(c, two, "c01.lookalike-pkg.")
		c.Set("two_file_lookalike_packages", fmt.Sprintf("%d tried, %d executed", lt, le))
	}
	c.Set("boundary_constructs_accepted_and_executed", nbAcc)
	c.Set("programs", tot.Programs)
	c.Set("disagreements_checked", tot.Compared)
	c.Set("go_panicked_discarded", tot.GoPanicked)
	c.Set("inconclusive_entries", tot.Inconclusive)
	c.Set("generator_broken_packages", tot.Broken)
	c.Set("feature_keys_covered", keysList(keysSeen))
	c.Set("evaluations", tot.Compared)
	c.Set("distinct_nontrivial", tot.Compared)
	c.Set("rule", "entry points of seeded generated packages whose Go execution returned normally and whose emitted definition was executed by TLC on GooseLang.tla; each is distinct (different seed/program) and non-trivial (6-15 statements mixing the supported constructs)")
	if tot.Inconclusive*10 > tot.Compared+tot.Inconclusive {
		c.Inconclusive("%d of %d entries could not be judged by the model (identifiers it does not define): the model lags behind the generator", tot.Inconclusive, tot.Compared+tot.Inconclusive)
	}
	if tot.Broken*5 > tot.Programs+tot.Broken && tot.Programs+tot.Broken > 0 {
		c.Inconclusive("%d of %d generated packages did not compile: generator defect", tot.Broken, tot.Programs+tot.Broken)
	}
}

// c01Boundary: constructs just outside the subset (rejected by the pinned translator). A translator that accepts one
// of them has made it part of the accepted subset, so its emitted definition must behave like Go.
func c01Boundary(c *ev.Ctx) (int, int) {
	var its []goosegen.Item
	for _, it := range goosegen.Catalogue {
		if (goosegen.RejectedAtPin[it.Key] || strings.HasPrefix(it.Key, "partial.") || strings.HasPrefix(it.Key, "subset.")) && !strings.HasPrefix(it.Key, "lookalike.") {
			its = append(its, it)
		}
	}
	m, err := newGenModule(c, "mod-c01b")
	if err != nil {
		c.Inconclusive("module: %v", err)
		return 0, 0
	}
	defer os.RemoveAll(m.dir)
	type owner struct{ key, entry string }
	var pkgs []tvPackage
	own := map[string][]owner{}
	per := 8
	n := 5000
	for p := 0; p*per < len(its); p++ {
		name := fmt.Sprintf("b%d", p)
		var sb strings.Builder
		var body strings.Builder
		usesMachine := false
		var std []string
		var entries []goosegen.Entry
		for _, it := range its[p*per : min(len(its), (p+1)*per)] {
			n++
			en := fmt.Sprintf("bentry%d", n)
			decls, entry := it.Instantiate(n, en)
			if strings.Contains(decls+entry, "machine.") {
				usesMachine = true
			}
			std = append(std, it.Imports()...)
			body.WriteString(decls + "\n" + entry + "\n")
			entries = append(entries, goosegen.Entry{Name: en, Keys: []string{it.Key}})
			own[name] = append(own[name], owner{it.Key, en})
		}
		sb.WriteString("package gen\n\n")
		if usesMachine {
			sb.WriteString("import \"github.com/goose-lang/goose/machine\"\n\n")
		}
		sb.WriteString(body.String())
		pkgs = append(pkgs, tvPackage{Name: name, Source: goosegen.AddImports(sb.String(), std), Entries: entries, Keys: map[string]bool{}})
	}
	for _, p := range pkgs {
		var es []string
		for _, e := range p.Entries {
			es = append(es, e.Name)
		}
		_ = m.addPackage(p.Name, p.Source, es)
	}
	goRes, broken, err := m.runGo()
	if err != nil {
		c.Inconclusive("boundary packages: %v", err)
		return len(its), 0
	}
	gout := m.runGoose(c, "-ignore-errors")
	if gout.exit == 2 || strings.Contains(gout.stderr, "goroutine ") {
		return len(its), 0 // a crash is judged by C07
	}
	errs := errorLines(gout.stderr)
	var evalPkgs []tvPackage
	accepted := 0
	for _, p := range pkgs {
		if _, b := broken[p.Name]; b {
			c.Inconclusive("boundary package %s does not compile:\n%s", p.Name, firstLines(broken[p.Name], 8))
			continue
		}
		ds, err := topDecls(p.Source)
		if err != nil {
			continue
		}
		rejected := map[string]bool{}
		declOf := map[string]declInfo{}
		for _, d := range ds {
			for _, nm := range d.names {
				declOf[nm] = d
			}
			for _, ln := range errs[p.Name] {
				if ln >= d.start && ln <= d.end {
					for _, nm := range d.names {
						rejected[nm] = true
					}
				}
			}
		}
		// an item is rejected if any declaration between its first declaration and its entry is
		lines := strings.Split(p.Source, "\n")
		_ = lines
		var keep []goosegen.Entry
		prevEnd := 0
		for _, o := range own[p.Name] {
			end := declOf[o.entry].end
			rej := false
			for _, d := range ds {
				if d.start > prevEnd && d.end <= end {
					for _, nm := range d.names {
						if rejected[nm] {
							rej = true
						}
					}
				}
			}
			prevEnd = end
			if !rej && strings.Contains(gout.files[p.Name], "Definition "+o.entry+":") {
				keep = append(keep, goosegen.Entry{Name: o.entry, Keys: []string{o.key}})
				accepted++
			}
		}
		if len(keep) > 0 {
			evalPkgs = append(evalPkgs, tvPackage{Name: p.Name, Source: p.Source, Entries: keep, Keys: map[string]bool{}})
		}
	}
	if len(evalPkgs) == 0 {
		return len(its), 0
	}
	dis, _, ok := compareEmitted(c, "c01bd", evalPkgs, goRes, gout.files)
	if !ok {
		return len(its), accepted
	}
	for _, d := range dis {
		if d.Kind == "unknown-ident" || d.Kind == "no-outcome" {
			continue
		}
		key := ""
		for _, o := range own[d.Pkg] {
			if o.entry == d.Entry {
				key = o.key
			}
		}
		if key == "" {
			continue // a helper definition that does not parse is reported through its entry (stuck / undefined)
		}
		var src string
		for _, p := range pkgs {
			if p.Name == d.Pkg {
				src = p.Source
			}
		}
		how := "is now accepted (the pinned translator rejected it), but"
		if !goosegen.RejectedAtPin[key] {
			how = "is accepted, but"
		}
		c.Report("c01.boundary."+key, fmt.Sprintf("construct %s %s its emitted definition does not behave like Go: %s: %s\n  Go:    %s\n  model: %s", key, how, d.Kind, d.Detail, d.GoRes, d.ModelRes),
			map[string]string{"gen.go": src, "emitted.v": gout.files[d.Pkg], "entry.txt": d.Entry})
	}
	return len(its), accepted
}

// defOrderProblems: definitions of an emitted file that mention a same-file definition which only comes later (and is
// not part of a dependency cycle with them), or that mention themselves as a global. Returns (definition, description).
func defOrderProblems(prog *vparse.File) [][2]string {
	pos := map[string]int{}
	for i, d := range prog.Decls {
		if d.Name != "" {
			if _, seen := pos[d.Name]; !seen {
				pos[d.Name] = i
			}
		}
	}
	ment := map[string]map[string]bool{}
	for _, d := range prog.Decls {
		if d.Body == nil {
			continue
		}
		ment[d.Name] = map[string]bool{}
		d.Body.Walk(func(n *vparse.Node) {
			if n.Kind == "id" {
				if _, isDef := pos[n.Name]; isDef {
					ment[d.Name][n.Name] = true
				}
			}
		})
	}
	var reach func(from, to string, seen map[string]bool) bool
	reach = func(from, to string, seen map[string]bool) bool {
		if from == to {
			return true
		}
		if seen[from] {
			return false
		}
		seen[from] = true
		for k := range ment[from] {
			if reach(k, to, seen) {
				return true
			}
		}
		return false
	}
	var out [][2]string
	for dn, ms := range ment {
		for mn := range ms {
			if mn == dn {
				out = append(out, [2]string{dn, "Definition " + dn + " refers to itself as a global identifier instead of its recursive binder"})
			} else if pos[mn] > pos[dn] && !reach(mn, dn, map[string]bool{}) {
				out = append(out, [2]string{dn, "Definition " + dn + " mentions " + mn + ", which is only defined further down in the file (Coq reads top-down: the file is not a well-formed development)"})
			}
		}
	}
	sort.Slice(out, func(i, j int) bool { return out[i][0]+out[i][1] < out[j][0]+out[j][1] })
	return out
}
