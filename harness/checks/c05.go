package checks

import (
	"encoding/json"
	"fmt"
	"os"
	"path/filepath"
	"regexp"
	"sort"
	"strings"
	"time"
	"unicode/utf8"

	"verif/ev"
	"verif/goosegen"
	"verif/tlc"
	"verif/vparse"
)

func init() { Registry["C05"] = C05 }

// adversarial texts for comments, log calls and string literals
var c05Texts = []string{"plain", "(*", "*)", "(*)", "*)(*", "(**)", "((*", "*))", "(* x *)", "a (* b (* c *) d", "é ü 世界", "x *) y (* z", "(*(*(*", "*)*)*)", ").", "Definition x := y.", "End code.", "a.\nb", "tab\there"}
var c05Quoted = []string{"say \"hi", "\"", "a \"b\" c \"", "it's \"(*\"", "unmatched \"*)\" here", "a \"(*\" b \"*)\" c", "\"\"", "x \"(* y *)\" z", "\"*)(*\""}

func classesOf(text string) []string {
	var out []string
	lines := strings.Split(text, "\n")
	for li, ln := range lines {
		rest := ln
		if strings.HasPrefix(ln, "Definition ") || strings.HasPrefix(ln, "Notation ") {
			out = append(out, "D")
			rest = ln[strings.Index(ln, " "):]
		}
		for _, r := range rest {
			switch r {
			case '(':
				out = append(out, "(")
			case '*':
				out = append(out, "*")
			case ')':
				out = append(out, ")")
			case '"':
				out = append(out, "q")
			default:
				out = append(out, "x")
			}
		}
		if li < len(lines)-1 {
			out = append(out, "n")
		}
	}
	return out
}

type c05Pkg struct {
	mayReject bool // a conversion error for this package is a fine answer (quotes inside string literals)
	name      string
	src       string
	ndefs     int
	convDefs  int // of which generated interface conversions (not emitted under -skip-interfaces)
	key       string // finding key class of the adversarial text used
}

func c05Package(i int, text string, quoted bool) c05Pkg {
	esc := strings.NewReplacer("\\", "\\\\", "\"", "\\\"", "\n", "\\n", "\t", "\\t").Replace(text)
	docLines := strings.Split(text, "\n")
	var doc strings.Builder
	for _, l := range docLines {
		doc.WriteString("// " + l + "\n")
	}
	strLit := "\"" + strings.NewReplacer("\\", "\\\\", "\n", " ", "\t", " ", "\"", "'").Replace(text) + "\""
	src := fmt.Sprintf(`// Package doc %s
package gen

import (
	"fmt"
	"log"
)

type T%d struct {
	a uint64
	g [][16]byte
	h map[uint64][4]uint64
}

%sfunc Doc%d(x uint64) uint64 {
	return x + 1
}

// logging in several positions: %s
func Logs%d(xs []uint64, b bool) uint64 {
	var s uint64 = 0
	log.Println("%s")
	if b {
		s = s + 1
		fmt.Println("%s")
	}
	for _, x := range xs {
		s = s + x
		log.Printf("%s %%d", x)
	}
	go func() {
		log.Println("%s")
	}()
	fmt.Printf("%s")
	return s
}

func Str%d() string {
	return %s
}

func Arr%d(n uint64) uint64 {
	z := make([][16]byte, n)
	return uint64(len(z))
}

func LogLong%d(x uint64, s string) uint64 {
	log.Printf("a fairly long message, about one hundred bytes long, so that anything that shortens it cuts here: %%d (* é ü *) \"%%s\" tail", x, s)
	if x > 5 {
		panic("bad value: " + s)
	}
	if x > 7 {
		panic(fmt.Sprintf("value %%d is \"too\" large (*", x))
	}
	return x
}

func LogPtr%d(p *uint64, q *uint64) uint64 {
	fmt.Println("ééééééééééééééééééééééééééééééééééééééééééééééééééééééééééééééé", *q, "a second \"quoted\" string (* that follows")
	log.Println(*p)
	fmt.Println(*p, (*q)*2)
	log.Printf("%%d", (*p)+(*q))
	return *p
}

func Last%d() uint64 {
	return 7
}
`, strings.ReplaceAll(docLines[0], "\n", " "), i, doc.String(), i, strings.ReplaceAll(docLines[0], "\n", " "), i, esc, esc, esc, esc, esc, i, strLit, i, i, i, i)
	// the known finding is about an ODD number of double quotes; balanced quotes are ordinary text
	key := "c05.text"
	if quoted && strings.Count(text, "\"")%2 == 1 {
		key = "c05.comment-odd-quote"
	}
	return c05Pkg{name: fmt.Sprintf("w%d", i), src: src, ndefs: 8, key: key}
}

var typeCtorArity = map[string]int{"slice.T": 1, "mapT": 1, "arrayT": 1, "struct.t": 1, "zero_val": 1, "NewSlice": 2, "SliceGet": 3, "NewMap": 3}

func C05(c *ev.Ctx) {
	c.Level = "model_checking"
	c.Assume("CoqLex.tla is Coq's lexer restricted to what decides which definitions Coq sees (nested comments, strings lexed inside comments, \"\" escape)",
		"syntactic well-formedness beyond the lexical level is judged by vparse (Perennial's notation levels as remembered; the level of ::= is not judged)",
		"'nesting equals the Go nesting' is covered here only through constructor arities; values are covered by C01's execution")
	dir, err := c.SpecDir("spec-lex", "translator")
	if err != nil {
		c.Inconclusive("copy specs: %v", err)
		return
	}
	// (1) design: exhaustive over all comment texts up to the bound
	k := c.Pick(6, 8)
	b, _ := os.ReadFile(filepath.Join(dir, "CoqLex.cfg"))
	_ = os.WriteFile(filepath.Join(dir, "CoqLex.cfg"), []byte(strings.Replace(string(b), "K = 6", fmt.Sprintf("K = %d", k), 1)), 0644)
	r := tlc.Run{Dir: dir, Module: "CoqLex", Workers: 12, Timeout: 20 * time.Minute}.Do()
	if !c.CheckTLC(fmt.Sprintf("CoqLex exhaustive (no quotes, K=%d)", k), r) {
		return
	}
	for cfg, what := range map[string]string{"CoqLex_onepass": "single-pass sanitiser", "CoqLex_quotes": "quotes in comments (lead for the known finding)"} {
		x := tlc.Run{Dir: dir, Module: "CoqLex", Cfg: cfg + ".cfg", Workers: 4, Timeout: 5 * time.Minute}.Do()
		c.AddTLC(x)
		if x.Violated != "CommentSafe" {
			c.Inconclusive("%s (%s): expected CommentSafe violated, got %q", cfg, what, x.Violated)
			return
		}
	}
	c.Set("design_model", fmt.Sprintf("CoqLex.tla: every comment text over {( * ) x newline} up to length %d is safe after the two-pass sanitiser; the one-pass variant fails on (*) and a text with an odd number of double quotes is unsafe (known finding)", k))
	c.Set("exhaustive", true)

	// (2) conformance: real emitted files under all flag combinations
	m, err := newGenModule(c, "mod-c05")
	if err != nil {
		c.Inconclusive("module: %v", err)
		return
	}
	defer os.RemoveAll(m.dir)
	var pkgs []c05Pkg
	texts := append([]string{}, c05Texts...)
	rr := rng(c, 5)
	alpha := []string{"(", "*", ")", " ", "x", "(*", "*)"}
	for i := 0; i < c.Pick(25, 400); i++ {
		var sb strings.Builder
		for j := 0; j < 1+rr.IntN(7); j++ {
			sb.WriteString(alpha[rr.IntN(len(alpha))])
		}
		texts = append(texts, sb.String())
	}
	for i, t := range texts {
		pkgs = append(pkgs, c05Package(i, t, false))
	}
	for i, t := range c05Quoted {
		pkgs = append(pkgs, c05Package(len(texts)+i, t, true))
	}
	// string literals that contain double quotes (rejected at the pin: judged only if the translator accepts them)
	for i, lit := range []string{`"5\" nail"`, `"say \"hi\" (*"`, "`raw \"q\" *)`", `"a\x22b"`, `"\""`,
		// concatenations of literals (constant-folded by the type checker) one of which carries a quote
		`"usage: tool --name=" + "\"NAME\"" + " [file]"`, `"a" + "\"" + "*) b"`, "\"x\" + `\"` + \"y\""} {
		src := fmt.Sprintf("package gen\n\nfunc Before%d() uint64 {\n\treturn 1\n}\n\nfunc Quoted%d() string {\n\treturn %s\n}\n\nfunc After%d() uint64 {\n\treturn 2\n}\n", i, i, lit, i)
		pkgs = append(pkgs, c05Pkg{name: fmt.Sprintf("wq%d", i), src: src, ndefs: 3, key: "c05.text", mayReject: true})
	}
	// structs passed where an interface is expected: one- and two-method interfaces, alone and followed by further
	// arguments (the call must keep its arity when read with Coq's precedence, every sentence must be closed)
	for i, v := range []struct {
		methods, params, args string
	}{
		{"\tArea() uint64\n", "sh Shape", "s"},
		{"\tArea() uint64\n", "sh Shape, a uint64, b uint64", "s, 7, 9"},
		{"\tArea() uint64\n\tSide() uint64\n", "sh Shape", "s"},
		{"\tArea() uint64\n\tSide() uint64\n", "sh Shape, a uint64, b uint64", "s, 7, 9"},
	} {
		sum := "sh.Area()"
		if strings.Contains(v.params, "a uint64") {
			sum += " + a + b"
		}
		src := fmt.Sprintf("package gen\n\ntype Shape interface {\n%s}\n\ntype Sq struct {\n\tside uint64\n}\n\nfunc (s Sq) Area() uint64 {\n\treturn s.side * s.side\n}\n\nfunc (s Sq) Side() uint64 {\n\treturn s.side\n}\n\nfunc describe(%s) uint64 {\n\treturn %s\n}\n\nfunc UseIface() uint64 {\n\ts := Sq{side: 2}\n\treturn describe(%s)\n}\n\nfunc After%d() uint64 {\n\treturn 2\n}\n", v.methods, v.params, sum, v.args, i)
		pkgs = append(pkgs, c05Pkg{name: fmt.Sprintf("wi%d", i), src: src, ndefs: 8, convDefs: 1, key: "c05.text"})
	}
	// structs with blank (padding) fields in first, middle and last position, and only blank fields
	for i, fields := range []string{"\ta uint64\n\t_ uint64\n", "\t_ uint64\n\ta uint64\n", "\ta uint64\n\t_ uint32\n\tb bool\n", "\t_ uint64\n", "\ta uint64\n\t_ uint64\n\t_ bool\n"} {
		src := fmt.Sprintf("package gen\n\ntype Padded struct {\n%s}\n\nfunc Mk%d() *Padded {\n\treturn new(Padded)\n}\n\nfunc After%d() uint64 {\n\treturn 2\n}\n", fields, i, i)
		pkgs = append(pkgs, c05Pkg{name: fmt.Sprintf("wb%d", i), src: src, ndefs: 3, key: "c05.text", mayReject: true})
	}
	for _, p := range pkgs {
		d := filepath.Join(m.dir, p.name)
		_ = os.MkdirAll(d, 0755)
		_ = os.WriteFile(filepath.Join(d, "gen.go"), []byte(p.src), 0644)
		m.pkgs = append(m.pkgs, p.name)
	}
	flagSets := [][]string{{}, {"-typecheck"}, {"-source-comments"}, {"-skip-interfaces"}, {"-typecheck", "-source-comments"}, {"-typecheck", "-skip-interfaces"}, {"-source-comments", "-skip-interfaces"}, {"-typecheck", "-source-comments", "-skip-interfaces"}}
	if c.Quick() {
		flagSets = [][]string{{}, {"-typecheck", "-source-comments"}, {"-typecheck", "-source-comments", "-skip-interfaces"}}
	}
	type fileRec struct {
		Name string   `json:"name"`
		Text []string `json:"text"`
		Defs int      `json:"defs"`
	}
	var recs []map[string]any
	bodies := map[string]map[string]string{} // pkg -> def -> body (first flag set)
	emitted := map[string]string{}
	reTheorem := regexp.MustCompile(`(?m)^Theorem `)
	checked := 0
	for fi, flags := range flagSets {
		gout := m.runGoose(c, flags...)
		if gout.exit == 2 || strings.Contains(gout.stderr, "goroutine ") {
			c.Inconclusive("goose crashed on the C05 batch:\n%s", firstLines(gout.stderr, 10))
			return
		}
		for _, p := range pkgs {
			text, ok := gout.files[p.name]
			if !ok && p.mayReject {
				continue
			}
			if !ok {
				c.Violation("c05.rejected", fmt.Sprintf("goose rejects package %s (flags %v):\n%s", p.name, flags, extractErrors(gout.stderr, p.name)), map[string]string{"gen.go": p.src})
				continue
			}
			checked++
			if !utf8.ValidString(text) {
				c.Violation("c05.invalid-utf8", fmt.Sprintf("file emitted for %s (flags %v) is not valid UTF-8 (the Go source is)", p.name, flags), map[string]string{"gen.go": p.src, "emitted.v": text})
			}
			tag := fmt.Sprintf("%s%v", p.name, flags)
			emitted[tag] = text
			ndefs := p.ndefs
			for _, f := range flags {
				if f == "-skip-interfaces" {
					ndefs -= p.convDefs
				}
			}
			recs = append(recs, map[string]any{"name": tag, "text": classesOf(text), "defs": ndefs})
			_ = reTheorem
			// syntactic well-formedness and constructor arities (text without quoted comments only)
			if p.key == "c05.text" {
				pf, perr := vparse.ParseFile(text)
				if perr != nil {
					c.Report("c05.syntax", fmt.Sprintf("file emitted for %s (flags %v) is not well-formed GooseLang: %v", p.name, flags, perr), map[string]string{"gen.go": p.src, "emitted.v": text})
					continue
				}
				if dn := c05Duplicate(pf); dn != "" {
					c.Violation("c05.duplicate-definition", fmt.Sprintf("%s (flags %v): %s is defined more than once (Coq rejects the second definition)", p.name, flags, dn), map[string]string{"gen.go": p.src, "emitted.v": text})
				}
				if msg := c05Arity(pf); msg != "" {
					c.Report("c05.nesting", fmt.Sprintf("%s (flags %v): read with Coq's precedence the nesting of a call is not the source's: %s", p.name, flags, msg), map[string]string{"gen.go": p.src, "emitted.v": text})
				}
				for _, d := range pf.Decls {
					if d.Body == nil {
						continue
					}
					bad := ""
					d.Body.Walk(func(n *vparse.Node) {
						if n.Kind == "app" && n.Kids[0].Kind == "id" {
							if ar, ok := typeCtorArity[n.Kids[0].Name]; ok && len(n.Kids)-1 != ar && (strings.HasSuffix(n.Kids[0].Name, "T") || n.Kids[0].Name == "struct.t" || n.Kids[0].Name == "zero_val") {
								bad = fmt.Sprintf("%s applied to %d arguments: %s", n.Kids[0].Name, len(n.Kids)-1, n.String())
							}
						}
					})
					if bad != "" {
						c.Report("c05.nesting", fmt.Sprintf("%s (flags %v), definition %s: read with Coq's precedence the nesting is not the source's: %s", p.name, flags, d.Name, bad), map[string]string{"gen.go": p.src, "emitted.v": text})
					}
					// flag invariance of definition bodies
					if d.Kind == "def" || d.Kind == "structdecl" {
						s := d.Body.String()
						if fi == 0 {
							if bodies[p.name] == nil {
								bodies[p.name] = map[string]string{}
							}
							bodies[p.name][d.Name] = s
						} else if old, ok := bodies[p.name][d.Name]; ok && old != s {
							c.Violation("c05.flag-variance", fmt.Sprintf("%s: the body of %s differs between flags [] and %v", p.name, d.Name, flags), map[string]string{"gen.go": p.src, "emitted.v": text, "emitted-noflags.v": emitted[fmt.Sprintf("%s%v", p.name, flagSets[0])]})
						}
					}
				}
			}
		}
	}
	c05Keywords(c)
	c05Stale(c, pkgs[0])
	richChecked := c05Rich(c, flagSets)
	c.Set("rich_packages_checked", richChecked)
	// lexical verdicts from the specification
	var nd strings.Builder
	for _, rcd := range recs {
		bb, _ := json.Marshal(rcd)
		nd.Write(bb)
		nd.WriteByte('\n')
	}
	_ = os.WriteFile(filepath.Join(dir, "files.ndjson"), []byte(nd.String()), 0644)
	tr := tlc.Run{Dir: dir, Module: "CoqLexTrace", Workers: 8, Timeout: 20 * time.Minute, StackMB: 1024, HeapMB: 8000}.Do()
	if !c.CheckTLC("CoqLexTrace", tr) {
		return
	}
	type verdict struct {
		Name                       string
		Ok                         bool
		Mode                       string
		Depth, Stray, Hidden, Defs int
		Want                       int
	}
	seen := 0
	keyOf := map[string]c05Pkg{}
	for _, p := range pkgs {
		keyOf[p.name] = p
	}
	var vs []verdict
	for _, pr := range tr.Prints {
		var v verdict
		if json.Unmarshal([]byte(pr), &v) == nil {
			vs = append(vs, v)
		}
	}
	sort.Slice(vs, func(i, j int) bool { return vs[i].Name < vs[j].Name })
	for _, v := range vs {
		seen++
		if v.Ok {
			continue
		}
		pn := v.Name[:strings.Index(v.Name, "[")]
		p := keyOf[pn]
		key := "c05.lexical"
		if p.key == "c05.comment-odd-quote" {
			key = p.key
		}
		c.Report(key, fmt.Sprintf("file %s: Coq's lexer (CoqLex.tla) ends in mode %s, comment depth %d, stray terminators %d, definitions seen %d (package has %d), swallowed %d: source text changes which definitions Coq sees",
			v.Name, v.Mode, v.Depth, v.Stray, v.Defs, v.Want, v.Hidden), map[string]string{"gen.go": p.src, "emitted.v": emitted[v.Name]})
	}
	if seen != len(recs) {
		c.Inconclusive("CoqLexTrace judged %d of %d files", seen, len(recs))
	}
	c.AddTraces(seen)
	c.Set("files_checked", checked)
	c.Set("evaluations", checked)
	c.Set("distinct_nontrivial", len(pkgs))
	c.Set("rule", "packages whose doc comments, log/fmt call texts and string literals carry an adversarial text (fixed list + seeded strings over ( * ) and blanks + texts with quotes), translated under flag combinations; distinct = distinct texts")
	c.Sample(map[string]any{"text": c05Texts[3], "package": pkgs[3].src})
}

var _ = time.Second

// c05Rich: full-featured generated packages under every flag combination. Each emitted file must be read by vparse
// without error, every definition body must be the same under all flags, and the file emitted without flags is
// executed on the model against Go (a nesting that is not the source's changes the meaning or leaves a variable unbound).
func c05Rich(c *ev.Ctx, flagSets [][]string) int {
	if !glCalibration(c, false) {
		return 0
	}
	npk := c.Pick(10, 80)
	m, err := newGenModule(c, "mod-c05r")
	if err != nil {
		c.Inconclusive("module: %v", err)
		return 0
	}
	defer os.RemoveAll(m.dir)
	var pkgs []tvPackage
	for p := 0; p < npk; p++ {
		gp := goosegen.Generate(goosegen.Options{Seed: uint64(c.Seed)*77773 + uint64(p), Funcs: 3 + p%4, Entries: 4})
		name := fmt.Sprintf("x%d", p)
		var es []string
		for _, e := range gp.Entries {
			es = append(es, e.Name)
		}
		_ = m.addPackage(name, gp.Source, es)
		pkgs = append(pkgs, tvPackage{Name: name, Source: gp.Source, Entries: gp.Entries, Keys: gp.Keys})
	}
	goRes, broken, err := m.runGo()
	if err != nil {
		c.Inconclusive("rich packages: %v", err)
		return 0
	}
	bodies := map[string]map[string]string{}
	var files0 map[string]string
	checked := 0
	for fi, flags := range flagSets {
		gout := m.runGoose(c, flags...)
		if gout.exit == 2 || strings.Contains(gout.stderr, "goroutine ") {
			c.Inconclusive("goose crashed on the rich C05 batch:\n%s", firstLines(gout.stderr, 10))
			return checked
		}
		if fi == 0 {
			files0 = gout.files
		}
		for _, p := range pkgs {
			if _, b := broken[p.Name]; b {
				continue
			}
			text, ok := gout.files[p.Name]
			if !ok {
				c.Violation("c05.rejected", fmt.Sprintf("goose rejects generated package %s (flags %v):\n%s", p.Name, flags, extractErrors(gout.stderr, p.Name)), map[string]string{"gen.go": p.Source})
				continue
			}
			checked++
			pf, perr := vparse.ParseFile(text)
			if perr != nil {
				c.Report("c05.syntax", fmt.Sprintf("file emitted for %s (flags %v) is not well-formed GooseLang: %v", p.Name, flags, perr), map[string]string{"gen.go": p.Source, "emitted.v": text})
				continue
			}
			if dn := c05Duplicate(pf); dn != "" {
				c.Violation("c05.duplicate-definition", fmt.Sprintf("%s (flags %v): %s is defined more than once (Coq rejects the second definition)", p.Name, flags, dn), map[string]string{"gen.go": p.Source, "emitted.v": text})
			}
			if msg := c05Arity(pf); msg != "" {
				c.Report("c05.nesting", fmt.Sprintf("%s (flags %v): read with Coq's precedence the nesting of a call is not the source's: %s", p.Name, flags, msg), map[string]string{"gen.go": p.Source, "emitted.v": text})
			}
			for _, d := range pf.Decls {
				if d.Body == nil || (d.Kind != "def" && d.Kind != "structdecl") {
					continue
				}
				sb := d.Body.String()
				if fi == 0 {
					if bodies[p.Name] == nil {
						bodies[p.Name] = map[string]string{}
					}
					bodies[p.Name][d.Name] = sb
				} else if old, ok := bodies[p.Name][d.Name]; ok && old != sb {
					c.Violation("c05.flag-variance", fmt.Sprintf("%s: the body of %s differs between flags %v and %v", p.Name, d.Name, flagSets[0], flags), map[string]string{"gen.go": p.Source, "emitted.v": text, "emitted-noflags.v": files0[p.Name]})
				} else if !ok {
					c.Violation("c05.flag-variance", fmt.Sprintf("%s: definition %s exists under flags %v but not under %v", p.Name, d.Name, flags, flagSets[0]), map[string]string{"gen.go": p.Source, "emitted.v": text, "emitted-noflags.v": files0[p.Name]})
				}
			}
			if c.NViolations() > 8 {
				return checked
			}
		}
	}
	var evalPkgs []tvPackage
	for _, p := range pkgs {
		if _, b := broken[p.Name]; !b && files0[p.Name] != "" {
			evalPkgs = append(evalPkgs, p)
		}
	}
	dis, _, ok := compareEmitted(c, "c05r", evalPkgs, goRes, files0)
	if !ok {
		return checked
	}
	for _, d := range dis {
		if d.Kind == "unknown-ident" || d.Kind == "no-outcome" {
			continue
		}
		var src string
		for _, p := range pkgs {
			if p.Name == d.Pkg {
				src = p.Source
			}
		}
		c.Report("c05.nesting."+d.Kind, fmt.Sprintf("package %s, definition %s: read with Coq's precedence the emitted text does not have the structure of the Go source: %s: %s\n  Go:    %s\n  model: %s", d.Pkg, d.Entry, d.Kind, d.Detail, d.GoRes, d.ModelRes),
			map[string]string{"gen.go": src, "emitted.v": files0[d.Pkg], "entry.txt": d.Entry})
		if c.NViolations() > 8 {
			break
		}
	}
	return checked
}

// c05Stale: the emitted file is exactly the translation of the current source also when the output directory already
// holds the (longer) translation of an earlier version of the package.
func c05Stale(c *ev.Ctx, p c05Pkg) {
	root := filepath.Join(c.Scratch, "c05stale")
	_ = os.RemoveAll(root)
	_ = os.MkdirAll(filepath.Join(root, "pk"), 0755)
	gomod := fmt.Sprintf("module example.com/st\n\ngo 1.22\n\nrequire github.com/goose-lang/goose v0.0.0\n\nreplace github.com/goose-lang/goose => %s\n", c.Repo)
	_ = os.WriteFile(filepath.Join(root, "go.mod"), []byte(gomod), 0644)
	sum, _ := os.ReadFile(filepath.Join(c.Repo, "go.sum"))
	_ = os.WriteFile(filepath.Join(root, "go.sum"), sum, 0644)
	long := p.src + "\n// a trailing declaration that the next version no longer has\nfunc Trailing() uint64 {\n\treturn 99\n}\n"
	run := func(out string) (string, int) {
		cmd := execCommand(filepath.Join(c.Bin, "goose"), "-out", out, "-dir", root, "./pk")
		cmd.Env = goEnv()
		b, err := cmd.CombinedOutput()
		code := 0
		if ee, ok := err.(interface{ ExitCode() int }); ok {
			code = ee.ExitCode()
		} else if err != nil {
			code = -1
		}
		return string(b), code
	}
	outA, outB := filepath.Join(root, "_outA"), filepath.Join(root, "_outB")
	_ = os.WriteFile(filepath.Join(root, "pk", "gen.go"), []byte(long), 0644)
	if o, code := run(outA); code != 0 {
		c.Inconclusive("c05Stale: goose exit %d\n%s", code, firstLines(o, 5))
		return
	}
	_ = os.WriteFile(filepath.Join(root, "pk", "gen.go"), []byte(p.src), 0644)
	o1, c1 := run(outA)
	o2, c2 := run(outB)
	if c1 != 0 || c2 != 0 {
		c.Inconclusive("c05Stale: goose exit %d / %d\n%s%s", c1, c2, firstLines(o1, 4), firstLines(o2, 4))
		return
	}
	a, _ := os.ReadFile(filepath.Join(outA, "example_com", "st", "pk.v"))
	b, _ := os.ReadFile(filepath.Join(outB, "example_com", "st", "pk.v"))
	if string(a) != string(b) || len(a) == 0 {
		c.Violation("c05.stale-output", fmt.Sprintf("the file written over an earlier (longer) translation of the same package is not the translation of the current source (%d bytes, a fresh output directory gets %d): text that does not come from the source changes which definitions Coq sees", len(a), len(b)),
			map[string]string{"got.v": string(a), "want.v": string(b)})
	}
}

// c05Arity: an application whose head is a function defined in the same file has as many arguments as that definition
// has binders (type parameters first). More are legitimate only if the function's body contains a function (it may
// return one); fewer only for methods (method values and interface conversions bind the receiver alone).
func c05Arity(pf *vparse.File) string {
	ar := map[string]int{}
	returnsFunc := map[string]bool{}
	for _, d := range pf.Decls {
		if d.Kind == "def" && d.Body != nil && d.Body.Kind == "rec" {
			ar[d.Name] = len(d.TypeParams) + len(d.Body.Binders)
			d.Body.Walk(func(n *vparse.Node) {
				if n != d.Body && (n.Kind == "lam" || n.Kind == "rec") {
					returnsFunc[d.Name] = true
				}
			})
		}
	}
	bad := ""
	for _, d := range pf.Decls {
		if d.Body == nil {
			continue
		}
		// (f a) b c is f a b c: count the arguments along the spine, at the outermost application only
		inner := map[*vparse.Node]bool{}
		d.Body.Walk(func(n *vparse.Node) {
			if n.Kind == "app" && n.Kids[0].Kind == "app" {
				inner[n.Kids[0]] = true
			}
		})
		d.Body.Walk(func(n *vparse.Node) {
			if bad != "" || n.Kind != "app" || inner[n] {
				return
			}
			head, args := n, 0
			for head.Kind == "app" {
				args += len(head.Kids) - 1
				head = head.Kids[0]
			}
			if head.Kind == "id" {
				want, ok := ar[head.Name]
				over := args > want && !returnsFunc[head.Name]
				under := args < want && !strings.Contains(head.Name, "__") // only methods are applied partially (method values, conversions)
				if ok && (over || under) {
					bad = fmt.Sprintf("in %s, %s (defined with %d parameters) is applied to %d arguments: %s", d.Name, head.Name, want, args, n.String())
				}
			}
		})
	}
	return bad
}

func c05Duplicate(pf *vparse.File) string {
	seen := map[string]bool{}
	for _, d := range pf.Decls {
		if d.Name == "" || (d.Kind != "def" && d.Kind != "structdecl" && d.Kind != "tydef") {
			continue
		}
		if seen[d.Name] {
			return d.Name
		}
		seen[d.Name] = true
	}
	return ""
}

// c05Keywords: Go declarations named like Coq reserved words (legal Go identifiers). Whatever name the translator
// documents for them, "Definition end: val := ..." is not a sentence Coq accepts.
func c05Keywords(c *ev.Ctx) {
	kws := []string{"end", "match", "fix", "fun", "let", "with", "in", "as", "forall", "then"}
	m, err := newGenModule(c, "mod-c05kw")
	if err != nil {
		c.Inconclusive("module: %v", err)
		return
	}
	defer os.RemoveAll(m.dir)
	for i, kw := range kws {
		src := fmt.Sprintf("package gen\n\nfunc %s() uint64 {\n\treturn 1\n}\n\nfunc Use%d() uint64 {\n\treturn %s() + 1\n}\n", kw, i, kw)
		d := filepath.Join(m.dir, fmt.Sprintf("kw%d", i))
		_ = os.MkdirAll(d, 0755)
		_ = os.WriteFile(filepath.Join(d, "gen.go"), []byte(src), 0644)
		m.pkgs = append(m.pkgs, fmt.Sprintf("kw%d", i))
	}
	gout := m.runGoose(c)
	if gout.exit == 2 || strings.Contains(gout.stderr, "goroutine ") {
		return // a crash is judged by C07
	}
	var bad []string
	sample := ""
	for i, kw := range kws {
		text, ok := gout.files[fmt.Sprintf("kw%d", i)]
		if !ok {
			continue // rejected with an error: a fine answer
		}
		if _, perr := vparse.ParseFile(text); perr != nil || regexp.MustCompile(`(?m)^Definition `+kw+`\b`).MatchString(text) {
			bad = append(bad, kw)
			if sample == "" {
				sample = text
			}
		}
	}
	c.Set("coq_keyword_names_tried", len(kws))
	if len(bad) > 0 {
		c.Report("c05.coq-keyword-name", fmt.Sprintf("Go functions named %v (legal Go identifiers, reserved words of Coq) are translated without any error into sentences like 'Definition %s: val := rec: ...' and calls like '%s #()', which Coq cannot parse: the emitted file is not well-formed", bad, bad[0], bad[0]), map[string]string{"emitted.v": sample})
	}
}
