package checks

import (
	"encoding/json"
	"fmt"
	"os"
	"os/exec"
	"path/filepath"
	"reflect"
	"sort"
	"strings"
	"time"

	"verif/ev"
	"verif/gl"
	"verif/goosegen"
	"verif/tlc"
	"verif/v2tla"
	"verif/vparse"
)

func init() { Registry["C03"] = C03 }

// goOutcomes runs the entry of one package many times under different GOMAXPROCS; a run that does not
// return within the deadline is the outcome "hang".
func goOutcomes(c *ev.Ctx, m *genModule, pkg string, runs int) (map[string]bool, json.RawMessage, error) {
	main := fmt.Sprintf("package main\n\nimport %s \"example.com/gen/%s\"\n\nfunc main() {\n\t%s.RunAll()\n}\n", pkg, pkg, pkg)
	d := filepath.Join(m.dir, "cmd", "run"+pkg)
	_ = os.MkdirAll(d, 0755)
	_ = os.WriteFile(filepath.Join(d, "main.go"), []byte(main), 0644)
	bin := filepath.Join(m.dir, "run-"+pkg)
	cmd := exec.Command("go", "build", "-o", bin, "./cmd/run"+pkg)
	cmd.Dir, cmd.Env = m.dir, goEnv()
	if out, err := cmd.CombinedOutput(); err != nil {
		return nil, nil, fmt.Errorf("go build: %v\n%s", err, out)
	}
	outs := map[string]bool{}
	var rty json.RawMessage
	procs := []string{"1", "2", "4", "16"}
	for i := 0; i < runs; i++ {
		cmd := exec.Command(bin)
		cmd.Env = append(os.Environ(), "GOMAXPROCS="+procs[i%len(procs)])
		done := make(chan []byte, 1)
		if err := cmd.Start(); err != nil {
			return nil, nil, err
		}
		_ = done
		ch := make(chan error, 1)
		var buf strings.Builder
		// re-run with CombinedOutput semantics but a deadline
		_ = cmd.Process.Kill()
		_, _ = cmd.Process.Wait()
		cmd = exec.Command(bin)
		cmd.Env = append(os.Environ(), "GOMAXPROCS="+procs[i%len(procs)])
		cmd.Stdout = &buf
		cmd.Stderr = &buf
		if err := cmd.Start(); err != nil {
			return nil, nil, err
		}
		go func() { ch <- cmd.Wait() }()
		select {
		case <-ch:
			var gr goResult
			for _, ln := range strings.Split(buf.String(), "\n") {
				if strings.HasPrefix(ln, "{") && json.Unmarshal([]byte(ln), &gr) == nil {
					if gr.Panic != "" {
						outs["panic:"+gr.Panic] = true
					} else {
						b, _ := json.Marshal(normGo(gr.Res))
						outs[string(b)] = true
						rty = gr.Rty
					}
				}
			}
			if strings.Contains(buf.String(), "fatal error: all goroutines are asleep") {
				outs["deadlock"] = true
			}
		case <-time.After(10 * time.Second):
			_ = cmd.Process.Kill()
			<-ch
			outs["hang"] = true
		}
	}
	return outs, rty, nil
}

func C03(c *ev.Ctx) {
	c.Level = "model_checking"
	c.Assume("programs are race-free by construction (templates); the Go side is sampled (many runs, GOMAXPROCS 1/2/4/16), the universally quantified side is the model's, which TLC exhausts at the granularity of visible primitives (access grain)",
		"condition variables are explored twice: with Perennial's definitions (Wait may return spuriously, Signal/Broadcast are no-ops) and with Go's operational meaning (prelude_gocond.v: ticket list, Signal wakes the oldest waiter, Broadcast all), which refines it",
		"termination clause: <>Finished under weak fairness of every thread and strong fairness of a compare-and-exchange that can succeed (fair spin locks)",
		"a Go run that does not return within 10 s is the outcome 'hang'",
		"same trusted base as C01 for the sequential parts")
	if !glCalibration(c, false) {
		return
	}
	progs := goosegen.ConcTemplates(uint64(c.Seed))
	if !c.Quick() {
		// thorough: two more parameter instantiations of every template (other constants / iteration counts)
		for extra := uint64(1); extra <= 5; extra++ {
			for _, p := range goosegen.ConcTemplates(uint64(c.Seed)*31 + extra) {
				p.Key = fmt.Sprintf("%s#%d", p.Key, extra)
				progs = append(progs, p)
			}
		}
	}
	checked, totalStates, outcomesEv, ok := concRun(c, progs, "c03.", "mod-c03")
	c.Set("states_explored", totalStates)
	if !ok {
		return
	}
	sort.Strings(nil)
	c.Set("programs_checked", checked)
	c.Set("outcomes", outcomesEv)
	c.Set("evaluations", checked)
	c.Set("distinct_nontrivial", checked)
	c.Set("rule", "concurrent template programs (2-3 goroutines, mutex / cond / waitgroup / timed wait) whose emitted text was explored exhaustively by TLC over all interleavings of visible primitives; all are distinct templates")
	c.AddTraces(checked)
	c.Sample(map[string]any{"kind": "concurrent program", "source": progs[0].Source})
}

// concRun translates the concurrent programs in one invocation, samples Go's outcomes for the accepted ones and lets
// TLC explore every interleaving of the emitted text; disagreements are reported under prefix+key.
func concRun(c *ev.Ctx, progs []goosegen.ConcProgram, prefix, mod string) (checked int, totalStates int64, outcomesEv map[string]any, okRun bool) {
	m, err := newGenModule(c, mod)
	if err != nil {
		c.Inconclusive("module: %v", err)
		return 0, 0, nil, false
	}
	defer os.RemoveAll(m.dir)
	for i, p := range progs {
		_ = m.addPackage(fmt.Sprintf("c%d", i), p.Source, []string{p.Entry})
	}
	gout := m.runGoose(c, "-ignore-errors")
	if gout.exit == 2 || strings.Contains(gout.stderr, "goroutine ") {
		c.Inconclusive("goose crashed on the concurrent batch (judged by C07):\n%s", firstLines(gout.stderr, 12))
		return 0, 0, nil, false
	}
	errs := errorLines(gout.stderr)
	pb, _ := os.ReadFile(filepath.Join(c.Verif, "spec", "gooselang", "prelude.v"))
	pf, err := vparse.ParseFile(string(pb))
	if err != nil {
		c.Inconclusive("prelude: %v", err)
		return 0, 0, nil, false
	}
	gb, _ := os.ReadFile(filepath.Join(c.Verif, "spec", "gooselang", "prelude_gocond.v"))
	pfGo, err := vparse.ParseFile(string(gb))
	if err != nil {
		c.Inconclusive("prelude_gocond: %v", err)
		return 0, 0, nil, false
	}
	runs := c.Pick(24, 200)
	outcomesEv = map[string]any{}
	for i, p := range progs {
		pkg := fmt.Sprintf("c%d", i)
		text := gout.files[pkg]
		if len(errs[pkg]) > 0 || !strings.Contains(text, "Definition entry:") {
			outcomesEv[p.Key] = "rejected by goose"
			if !p.Boundary {
				c.Violation(prefix+"rejected."+p.Key, fmt.Sprintf("goose rejects the concurrent subset program %s:\n%s", p.Key, extractErrors(gout.stderr, pkg)), map[string]string{"gen.go": p.Source})
			}
			continue
		}
		G, rtyRaw, err := goOutcomes(c, m, pkg, runs)
		if err != nil {
			c.Inconclusive("%v", err)
			continue
		}
		prog, perrs := vparse.ParseFileLenient(text)
		if len(perrs) > 0 {
			c.Violation(prefix+"unparsable."+p.Key, fmt.Sprintf("emitted text of %s is not well formed: %v", p.Key, perrs[0].Err), map[string]string{"gen.go": p.Source, "emitted.v": text})
			continue
		}
		variants := []string{"perennial"}
		if strings.Contains(p.Source, "sync.NewCond") && !strings.Contains(p.Source, "WaitTimeout") {
			variants = append(variants, "gocond")
		}
		for _, variant := range variants {
			l := v2tla.New()
			l.AddFile(pf)
			if variant == "gocond" {
				l.AddFile(pfGo)
			}
			l.AddFile(prog)
			var rty any
			_ = json.Unmarshal(rtyRaw, &rty)
			if rty == nil {
				rty = map[string]any{"t": "u64"}
			}
			l.AddTest(p.Key, gl.CallNoArgs("entry"), rty)
			dir, ok := glSpecDir(c, "spec-gl-"+mod+"-"+pkg+"-"+variant)
			if !ok {
				return
			}
			outs, r, err := gl.Run(dir, l, gl.RunOpts{Mode: "conc", Fuel: 400, Workers: 14, Timeout: time.Duration(c.Pick(6, 30)) * time.Minute, HeapMB: 16000, Live: p.Deterministic || p.Terminates})
			c.AddTLC(r)
			totalStates += r.Distinct
			if dbg := os.Getenv("VERIF_DEBUG_DIR"); dbg != "" {
				_ = os.WriteFile(filepath.Join(dbg, mod+"-"+p.Key+".tlc.txt"), []byte(r.Out), 0644)
				_ = os.WriteFile(filepath.Join(dbg, mod+"-"+p.Key+".v"), []byte(text), 0644)
			}
			_ = os.RemoveAll(dir)
			liveViolated := strings.Contains(r.Out, "Temporal properties were violated") || strings.Contains(r.Out, "Temporal property Terminates was violated")
			if r.TimedOut && p.Deterministic {
				// the exploration did not finish (unbounded state space?), but every outcome printed so far is a reachable
				// final state of the emitted program: one that Go cannot produce is a violation already
				for _, o := range outs {
					b, _ := json.Marshal(normTLA(o.Res))
					if o.St == "stuck" || !G[string(b)] {
						c.Report(prefix+p.Key, fmt.Sprintf("concurrent program %s: the exploration was cut off after %d states, but it already reached the final outcome %s (%s %s); Go only produces %v", p.Key, r.Distinct, string(b), o.St, o.Why, keysList(G)),
							map[string]string{"gen.go": p.Source, "emitted.v": text})
						break
					}
				}
			}
			if err != nil || r.TimedOut || (r.TLCError && !liveViolated) {
				c.Inconclusive("TLC did not complete on %s (%d states): %s", p.Key, r.Distinct, tlc.Tail(r.Out, 12))
				outcomesEv[p.Key] = "inconclusive"
				continue
			}
			T := map[string]bool{}
			stuckWhy := ""
			for _, o := range outs {
				if o.St == "stuck" {
					T["stuck"] = true
					stuckWhy = o.Why
					continue
				}
				b, _ := json.Marshal(normTLA(o.Res))
				T[string(b)] = true
			}
			if why := strings.TrimPrefix(stuckWhy, "unknown identifier ?unsupported: "); T["stuck"] && strings.HasPrefix(stuckWhy, "unknown identifier") && (strings.Contains(why, ".") || !isProgramName(strings.TrimSpace(strings.TrimPrefix(stuckWhy, "unknown identifier")))) {
				// refers to a library the model does not define (qualified name): not judged
				outcomesEv[p.Key+"/"+variant] = "not judged: " + stuckWhy
				continue
			}
			checked++
			gs, ts := keysList(G), keysList(T)
			outcomesEv[p.Key+"/"+variant] = map[string]any{"go": gs, "model": ts, "states": r.Distinct, "deterministic": p.Deterministic, "terminates_under_fairness": !liveViolated}
			files := map[string]string{"gen.go": p.Source, "emitted.v": text, "tlc-tail.txt": tlc.Tail(r.Out, 60)}
			bad := ""
			switch {
			case T["stuck"]:
				bad = fmt.Sprintf("some interleaving of the emitted program gets stuck (%s): a race-free Go program must not be undefined behaviour in GooseLang", stuckWhy)
			case !subset(G, T):
				bad = fmt.Sprintf("Go produced an outcome that no interleaving of the emitted program produces: Go %v, model %v", gs, ts)
			case p.Deterministic && len(T) != 1:
				bad = fmt.Sprintf("the Go result does not depend on the schedule (%v) but the emitted program has several outcomes %v", gs, ts)
			case p.Deterministic && !reflect.DeepEqual(gs, ts):
				bad = fmt.Sprintf("outcome sets differ: Go %v, model %v", gs, ts)
			case len(p.Allowed) > 0 && !allowedOnly(T, p.Allowed):
				bad = fmt.Sprintf("the emitted program can produce %v, but whatever the schedule Go produces one of %v (sampled: %v)", ts, p.Allowed, gs)
			case (p.Deterministic || p.Terminates) && liveViolated:
				bad = "some fair interleaving of the emitted program never finishes (a thread spins forever): TLC reports a lasso violating <>Finished"
			}
			if bad != "" {
				c.Report(prefix+p.Key, fmt.Sprintf("concurrent program %s (condition variables: %s semantics): %s", p.Key, variant, bad), files)
				break
			}
		}
	}
	return checked, totalStates, outcomesEv, true
}

// allowedOnly: every outcome of T is the rendering of one of the allowed integers.
func allowedOnly(T map[string]bool, allowed []uint64) bool {
	for t := range T {
		ok := false
		for _, a := range allowed {
			if strings.Trim(t, "\"") == fmt.Sprintf("int:%d", a) {
				ok = true
			}
		}
		if !ok {
			return false
		}
	}
	return true
}

func subset(a, b map[string]bool) bool {
	for k := range a {
		if !b[k] {
			return false
		}
	}
	return true
}
