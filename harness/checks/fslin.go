package checks

import (
	"bytes"
	"encoding/json"
	"fmt"
	"math/rand/v2"
	"os"
	"os/exec"
	"path/filepath"
	"runtime"
	"sort"
	"strings"
	"sync"
	"sync/atomic"
	"syscall"
	"time"

	"github.com/goose-lang/goose/machine/filesys"

	"verif/ev"
	"verif/tlc"
)

func init() {
	Registry["C14"] = C14
	children["race-fs"] = raceFsChild
	children["stress-fs"] = stressFsChild
}

// stressFsChild <seed> <impl> <nh> <maxm> <scratch> <out>: records nh concurrent histories into out (ndjson).
func stressFsChild(args []string) int {
	var seed uint64
	var nh, maxm int
	fmt.Sscan(args[0], &seed)
	impl := args[1]
	fmt.Sscan(args[2], &nh)
	fmt.Sscan(args[3], &maxm)
	scratch, out := args[4], args[5]
	if len(args) > 6 && args[6] == "delay" {
		dd := mustMkdir(filepath.Join(scratch, "fsdelay-dummy"))
		dfd, err := syscall.Open(filepath.Join(dd, "f"), syscall.O_CREAT|syscall.O_RDWR, 0644)
		if err != nil {
			fmt.Println(err)
			return 3
		}
		var n atomic.Int64
		fsPerturb = func(r *rand.Rand) {
			x := r.IntN(64)
			one := []byte{1}
			if x&1 != 0 {
				if fd, err := syscall.Open(filepath.Join(dd, "f"), syscall.O_RDONLY, 0); err == nil { // openat + close
					_ = syscall.Close(fd)
				}
			}
			if x&2 != 0 {
				p2 := filepath.Join(dd, fmt.Sprintf("l%d", n.Add(1)))
				if syscall.Link(filepath.Join(dd, "f"), p2) == nil { // linkat + unlinkat
					_ = syscall.Unlink(p2)
				}
			}
			if x&4 != 0 {
				_, _ = syscall.Write(dfd, one)
			}
			if x&8 != 0 {
				_, _ = syscall.Pread(dfd, one, 0)
			}
			if x&16 != 0 {
				var st syscall.Stat_t
				_ = syscall.Fstat(dfd, &st)
				_ = syscall.Stat(filepath.Join(dd, "f"), &st)
			}
			if x&32 != 0 {
				_ = syscall.Rename(filepath.Join(dd, "nonexistent"), filepath.Join(dd, "nonexistent2")) // renameat (fails)
			}
		}
	}
	rr := rand.New(rand.NewPCG(seed, 1401))
	var nextU int64
	var evs []map[string]any
	for i := 0; i < nh; i++ {
		k := 2 + rr.IntN(3)
		m := 5 + rr.IntN(maxm)
		t := openFsTarget(impl+"/method", scratch, 70)
		h := stressFs(t.fs, impl == "dir", k, m, rr, &nextU)
		t.close()
		evs = append(evs, map[string]any{"ev": "reset", "desc": fmt.Sprintf("%s k=%d m=%d", impl, k, m)})
		evs = append(evs, h...)
	}
	if err := writeNDJSON(out, evs); err != nil {
		fmt.Println(err)
		return 3
	}
	fmt.Println("STRESS-DONE")
	return 0
}

type fsLinClient struct {
	g     int
	fs    filesys.Filesys
	isDir bool
	seq   *atomic.Int64
	log   []seqEv
	r     *rand.Rand
	unit  int
	nextU *int64
	ntok  int
	appH  []string // tokens of own live append handles
	rdH   []string // tokens of own live read handles
	files map[string]filesys.File
	known [][2]string // paths this client knows to exist forever (shared / permanent)
	priv  [][2]string // own private files that currently exist
	nPriv int
}

// fsPerturb, if set (child run under strace delay injection), is called by a client on its own locked OS thread
// right before each operation: dummy system calls that flip the per-thread parity of the delayed system calls.
var fsPerturb func(r *rand.Rand)

func (c *fsLinClient) call(inv map[string]any, f func() map[string]any) map[string]any {
	inv["ev"], inv["c"] = "inv", c.g
	if fsPerturb != nil && c.g != 99 {
		fsPerturb(c.r)
	}
	s1 := c.seq.Add(1)
	res := map[string]any{"ev": "res", "c": c.g, "p": 0}
	func() {
		defer func() {
			if e := recover(); e != nil {
				res["p"] = 1
				res["panic"] = fmt.Sprint(e)
			}
		}()
		for k, v := range f() {
			res[k] = v
		}
	}()
	s2 := c.seq.Add(1)
	c.log = append(c.log, seqEv{s1, inv}, seqEv{s2, res})
	return res
}

func (c *fsLinClient) units(n int) []int {
	us := make([]int, n)
	for i := range us {
		us[i] = int(atomic.AddInt64(c.nextU, 1)%240) + 1
	}
	return us
}

var linDirs = []string{"d1", "d2"}
var linShared = []string{"s0", "s1", "s2"}

func (c *fsLinClient) step() {
	r := c.r
	d := linDirs[r.IntN(2)]
	switch x := r.IntN(100); {
	case x < 18: // create a shared name: races with other clients
		n := linShared[r.IntN(len(linShared))]
		c.ntok++
		tok := fmt.Sprintf("%d.%d", c.g, c.ntok)
		res := c.call(map[string]any{"op": "create", "d": d, "n": n, "tok": tok}, func() map[string]any {
			f, ok := c.fs.Create(d, n)
			if ok {
				c.files[tok] = f
				return map[string]any{"ok": 1, "fd": int(f)}
			}
			return map[string]any{"ok": 0, "fd": -1}
		})
		if res["p"] == 0 {
			c.known = append(c.known, [2]string{d, n})
			if res["ok"] == 1 {
				c.appH = append(c.appH, tok)
			}
		}
	case x < 26: // create a private name
		c.nPriv++
		n := fmt.Sprintf("g%d-%d", c.g, c.nPriv)
		c.ntok++
		tok := fmt.Sprintf("%d.%d", c.g, c.ntok)
		res := c.call(map[string]any{"op": "create", "d": d, "n": n, "tok": tok}, func() map[string]any {
			f, ok := c.fs.Create(d, n)
			if ok {
				c.files[tok] = f
				return map[string]any{"ok": 1, "fd": int(f)}
			}
			return map[string]any{"ok": 0, "fd": -1}
		})
		if res["p"] == 0 && res["ok"] == 1 {
			c.appH = append(c.appH, tok)
			c.priv = append(c.priv, [2]string{d, n})
		}
	case x < 44 && len(c.appH) > 0:
		tok := c.appH[r.IntN(len(c.appH))]
		us := c.units(1 + r.IntN(2))
		c.call(map[string]any{"op": "append", "tok": tok, "data": us}, func() map[string]any {
			b := encodeUnits(us, c.unit)
			c.fs.Append(c.files[tok], b)
			scribble(b)
			return nil
		})
	case x < 56 && len(c.known)+len(c.priv) > 0 && len(c.rdH) < 4:
		all := append(append([][2]string{}, c.known...), c.priv...)
		p := all[r.IntN(len(all))]
		c.ntok++
		tok := fmt.Sprintf("%d.%d", c.g, c.ntok)
		res := c.call(map[string]any{"op": "open", "d": p[0], "n": p[1], "tok": tok}, func() map[string]any {
			f := c.fs.Open(p[0], p[1])
			c.files[tok] = f
			return map[string]any{"fd": int(f)}
		})
		if res["p"] == 0 {
			c.rdH = append(c.rdH, tok)
		}
	case x < 72 && len(c.rdH) > 0:
		tok := c.rdH[r.IntN(len(c.rdH))]
		off, ln := r.IntN(4), 1+r.IntN(6)
		c.call(map[string]any{"op": "readat", "tok": tok, "off": off, "len": ln}, func() map[string]any {
			b := c.fs.ReadAt(c.files[tok], uint64(off*c.unit), uint64(ln*c.unit))
			us := decodeUnits(b, c.unit, 241)
			scribble(b)
			return map[string]any{"data": us}
		})
	case x < 78 && len(c.appH)+len(c.rdH) > 0:
		var tok string
		if len(c.rdH) > 0 && (len(c.appH) == 0 || r.IntN(2) == 0) {
			i := r.IntN(len(c.rdH))
			tok = c.rdH[i]
			c.rdH = append(c.rdH[:i], c.rdH[i+1:]...)
		} else {
			i := r.IntN(len(c.appH))
			tok = c.appH[i]
			c.appH = append(c.appH[:i], c.appH[i+1:]...)
		}
		c.call(map[string]any{"op": "close", "tok": tok}, func() map[string]any {
			c.fs.Close(c.files[tok])
			delete(c.files, tok)
			return nil
		})
	case x < 83 && len(c.priv) > 0:
		i := r.IntN(len(c.priv))
		p := c.priv[i]
		c.priv = append(c.priv[:i], c.priv[i+1:]...)
		c.call(map[string]any{"op": "delete", "d": p[0], "n": p[1]}, func() map[string]any {
			c.fs.Delete(p[0], p[1])
			return nil
		})
	case x < 90 && len(c.known) > 0:
		p := c.known[r.IntN(len(c.known))]
		n2 := linShared[r.IntN(len(linShared))]
		res := c.call(map[string]any{"op": "link", "d": p[0], "n": p[1], "d2": d, "n2": n2}, func() map[string]any {
			if c.fs.Link(p[0], p[1], d, n2) {
				return map[string]any{"ok": 1}
			}
			return map[string]any{"ok": 0}
		})
		if res["p"] == 0 {
			c.known = append(c.known, [2]string{d, n2})
		}
	case x < 95:
		// DirFs shares one temp file per name (known finding of C13): keep names private there
		var n string
		if c.isDir {
			n = fmt.Sprintf("ac%d", c.g)
		} else {
			n = linShared[r.IntN(len(linShared))]
		}
		us := c.units(r.IntN(3))
		c.ntok++
		res := c.call(map[string]any{"op": "atomiccreate", "d": d, "n": n, "data": us, "tok": fmt.Sprintf("%d.%d", c.g, c.ntok)}, func() map[string]any {
			b := encodeUnits(us, c.unit)
			c.fs.AtomicCreate(d, n, b)
			scribble(b)
			return nil
		})
		if res["p"] == 0 {
			c.known = append(c.known, [2]string{d, n})
		}
	case x < 98:
		c.call(map[string]any{"op": "list", "d": d}, func() map[string]any {
			ns := append([]string{}, c.fs.List(d)...)
			sort.Strings(ns)
			return map[string]any{"names": ns}
		})
	default:
		// a new directory of the client's own, while the others work in the shared ones
		c.ntok++
		nd := fmt.Sprintf("md%d-%d", c.g, c.ntok)
		c.call(map[string]any{"op": "mkdir", "d": nd}, func() map[string]any { c.fs.Mkdir(nd); return nil })
	}
}

type spinBarrier struct {
	n     int32
	count atomic.Int32
	gen   atomic.Int32
}

func (b *spinBarrier) wait() {
	g := b.gen.Load()
	if b.count.Add(1) == b.n {
		b.count.Store(0)
		b.gen.Add(1)
		return
	}
	for i := 0; b.gen.Load() == g; i++ {
		if i%1000 == 999 {
			runtime.Gosched()
		}
	}
}

// burst: all clients hit the same spot at the same instant (released by a spin
// barrier): Create of one fresh shared name, then AtomicCreate of per-client
// names followed by reading them back.
func (c *fsLinClient) burst(b int, bar *spinBarrier) {
	d := linDirs[b%2]
	n := fmt.Sprintf("b%d", b)
	c.ntok++
	tok := fmt.Sprintf("%d.%d", c.g, c.ntok)
	bar.wait()
	res := c.call(map[string]any{"op": "create", "d": d, "n": n, "tok": tok}, func() map[string]any {
		f, ok := c.fs.Create(d, n)
		if ok {
			c.files[tok] = f
			return map[string]any{"ok": 1, "fd": int(f)}
		}
		return map[string]any{"ok": 0, "fd": -1}
	})
	if res["p"] == 0 && res["ok"] == 0 {
		// somebody else created it: read it while its creator appends (an append is one atomic step, whatever its size)
		c.ntok++
		rtok := fmt.Sprintf("%d.%d", c.g, c.ntok)
		r2 := c.call(map[string]any{"op": "open", "d": d, "n": n, "tok": rtok}, func() map[string]any {
			f := c.fs.Open(d, n)
			c.files[rtok] = f
			return map[string]any{"fd": int(f)}
		})
		if r2["p"] == 0 {
			for i := 0; i < 2; i++ {
				c.call(map[string]any{"op": "readat", "tok": rtok, "off": 0, "len": 4}, func() map[string]any {
					b := c.fs.ReadAt(c.files[rtok], 0, uint64(4*c.unit))
					return map[string]any{"data": decodeUnits(b, c.unit, 241)}
				})
			}
			c.call(map[string]any{"op": "close", "tok": rtok}, func() map[string]any {
				c.fs.Close(c.files[rtok])
				delete(c.files, rtok)
				return nil
			})
		}
	}
	if res["p"] == 0 && res["ok"] == 1 {
		us := c.units(2)
		c.call(map[string]any{"op": "append", "tok": tok, "data": us}, func() map[string]any {
			c.fs.Append(c.files[tok], encodeUnits(us, c.unit))
			return nil
		})
		c.call(map[string]any{"op": "close", "tok": tok}, func() map[string]any {
			c.fs.Close(c.files[tok])
			delete(c.files, tok)
			return nil
		})
	}
	an := fmt.Sprintf("ab%d-%d", c.g, b)
	us := c.units(2)
	c.ntok++
	atok := fmt.Sprintf("%d.%d", c.g, c.ntok)
	bar.wait()
	c.call(map[string]any{"op": "atomiccreate", "d": d, "n": an, "data": us, "tok": atok}, func() map[string]any {
		c.fs.AtomicCreate(d, an, encodeUnits(us, c.unit))
		return nil
	})
	c.ntok++
	otok := fmt.Sprintf("%d.%d", c.g, c.ntok)
	res = c.call(map[string]any{"op": "open", "d": d, "n": an, "tok": otok}, func() map[string]any {
		f := c.fs.Open(d, an)
		c.files[otok] = f
		return map[string]any{"fd": int(f)}
	})
	if res["p"] == 0 {
		c.call(map[string]any{"op": "readat", "tok": otok, "off": 0, "len": 4}, func() map[string]any {
			b := c.fs.ReadAt(c.files[otok], 0, uint64(4*c.unit))
			return map[string]any{"data": decodeUnits(b, c.unit, 241)}
		})
		c.call(map[string]any{"op": "close", "tok": otok}, func() map[string]any {
			c.fs.Close(c.files[otok])
			delete(c.files, otok)
			return nil
		})
	}
}

func stressFs(fs filesys.Filesys, isDir bool, k, m int, r *rand.Rand, nextU *int64) []map[string]any {
	var seq atomic.Int64
	// sequential setup, logged like everything else
	// bytes per abstract data unit: appends of 1-2 units are 1 byte ... 8 KiB long (several pages / copy chunks)
	unit := []int{3, 1, 2500, 4096, 3, 700}[r.IntN(6)]
	if isDir {
		// DirFs: files stay within their first page (a write(2) that spans a page boundary racing with pread(2) is
		// the known finding fs.dir.append-multi-page-vs-readat, probed separately)
		unit = []int{3, 1, 5, 2, 3, 7}[r.IntN(6)]
	}
	setup := &fsLinClient{g: 99, fs: fs, isDir: isDir, seq: &seq, r: r, unit: unit, nextU: nextU, files: map[string]filesys.File{}}
	for _, d := range linDirs {
		d := d
		setup.call(map[string]any{"op": "mkdir", "d": d}, func() map[string]any { fs.Mkdir(d); return nil })
	}
	perm := [][2]string{{"d1", "p0"}, {"d2", "p1"}}
	for _, p := range perm {
		p := p
		us := setup.units(2)
		setup.ntok++
		setup.call(map[string]any{"op": "atomiccreate", "d": p[0], "n": p[1], "data": us, "tok": fmt.Sprintf("99.%d", setup.ntok)}, func() map[string]any {
			fs.AtomicCreate(p[0], p[1], encodeUnits(us, unit))
			return nil
		})
	}
	clients := make([]*fsLinClient, k)
	bursts := 1 + m/6
	bar := &spinBarrier{n: int32(k)}
	var wg sync.WaitGroup
	start := make(chan struct{})
	for g := 0; g < k; g++ {
		clients[g] = &fsLinClient{g: g, fs: fs, isDir: isDir, seq: &seq, r: rand.New(rand.NewPCG(r.Uint64(), 5)), unit: unit, nextU: nextU,
			files: map[string]filesys.File{}, known: append([][2]string{}, perm...)}
		wg.Add(1)
		go func(c *fsLinClient) {
			defer wg.Done()
			if fsPerturb != nil {
				runtime.LockOSThread()
				defer runtime.UnlockOSThread()
			}
			<-start
			for i := 0; i < m; i++ {
				c.step()
			}
			for b := 0; b < bursts; b++ {
				c.burst(b, bar)
			}
		}(clients[g])
	}
	close(start)
	wg.Wait()
	all := append([]seqEv{}, setup.log...)
	for _, c := range clients {
		all = append(all, c.log...)
		for _, f := range c.files {
			func() { defer func() { _ = recover() }(); fs.Close(f) }()
		}
	}
	sort.Slice(all, func(i, j int) bool { return all[i].seq < all[j].seq })
	out := make([]map[string]any, len(all))
	for i, s := range all {
		out[i] = s.e
	}
	return out
}

// forcedFsSchedule parks A inside the MemFs critical section and observes whether B enters.
func forcedFsSchedule(aop, bop string, delta time.Duration) (bEntered, ok bool) {
	fs := filesys.NewMemFs()
	fs.Mkdir("d")
	fs.AtomicCreate("d", "f", []byte("xyz"))
	rh := fs.Open("d", "f")
	ah, _ := fs.Create("d", "g")
	rh2 := fs.Open("d", "f")
	var cnt atomic.Int32
	first := make(chan struct{})
	second := make(chan struct{}, 1)
	release := make(chan struct{})
	filesys.VerifHook = func(point, dir, name string, fd int) {
		if !strings.HasSuffix(point, ".enter") {
			return
		}
		switch cnt.Add(1) {
		case 1:
			close(first)
			<-release
		case 2:
			second <- struct{}{}
		}
	}
	defer func() { filesys.VerifHook = nil }()
	run := func(op string, who int, done chan struct{}) {
		defer close(done)
		defer func() { _ = recover() }()
		switch op {
		case "create":
			fs.Create("d", fmt.Sprintf("n%d", who))
		case "append":
			fs.Append(ah, []byte("q"))
		case "open":
			fs.Open("d", "f")
		case "readat":
			if who == 0 {
				fs.ReadAt(rh, 0, 2)
			} else {
				fs.ReadAt(rh2, 0, 2)
			}
		case "delete":
			fs.Delete("d", "f")
		case "link":
			fs.Link("d", "g", "d", fmt.Sprintf("l%d", who))
		case "atomiccreate":
			fs.AtomicCreate("d", fmt.Sprintf("a%d", who), []byte("zz"))
		case "list":
			fs.List("d")
		case "close":
			if who == 0 {
				fs.Close(rh)
			} else {
				fs.Close(rh2)
			}
		}
	}
	doneA, doneB := make(chan struct{}), make(chan struct{})
	go run(aop, 0, doneA)
	select {
	case <-first:
	case <-time.After(5 * time.Second):
		close(release)
		return false, false
	}
	go run(bop, 1, doneB)
	select {
	case <-second:
		bEntered = true
	case <-time.After(delta):
	}
	close(release)
	for _, ch := range []chan struct{}{doneA, doneB} {
		select {
		case <-ch:
		case <-time.After(5 * time.Second):
			return bEntered, false
		}
	}
	return bEntered, true
}

var fsMutators = map[string]bool{"create": true, "append": true, "open": true, "close": true, "delete": true, "link": true, "atomiccreate": true}

func C14(c *ev.Ctx) {
	c.Level = "model_checking"
	c.Assume("clients take a global atomic sequence number before each call and after each return",
		"driver discipline keeps every operation inside its precondition under any interleaving: shared names are never deleted, private names are used by one client only, descriptors are used by the client that opened them",
		"DirFs: AtomicCreate uses per-client names (shared temp file of same-name creators is the known finding of C13)",
		"DirFs.List only on directories that fit one getdents call",
		"data-race freedom is decided by Go's race detector on the same driver",
		"forced schedules only judge pairs in which at least one operation mutates shared state")
	dir, err := c.SpecDir("spec-fs", "filesys")
	if err != nil {
		c.Inconclusive("copy specs: %v", err)
		return
	}
	// (1) design: L2 model of the mutex discipline, and its sensitivity
	r := tlc.Run{Dir: dir, Module: "MemFs", Workers: 4, Timeout: 5 * time.Minute}.Do()
	if !c.CheckTLC("MemFs exhaustive (as written)", r) {
		return
	}
	gateRows := map[string]bool{}
	for _, p := range r.Prints {
		gateRows[p] = true
	}
	if len(gateRows) != 1 || !gateRows[`{"enter":0}`] {
		c.Inconclusive("MemFs.tla gate table: expected exactly {enter:0}, got %v", gateRows)
		return
	}
	var sens []string
	for cfg, inv := range map[string]string{"MemFs_NoHold": "CreateOnce", "MemFs_FdOutside": "FdDistinct"} {
		mr := tlc.Run{Dir: dir, Module: "MemFs", Cfg: cfg + ".cfg", Workers: 2, Timeout: 3 * time.Minute}.Do()
		c.AddTLC(mr)
		if mr.Violated != inv {
			c.Inconclusive("%s: expected %s violated, got %q", cfg, inv, mr.Violated)
			return
		}
		sens = append(sens, cfg+": "+inv+" violated (as expected)")
	}
	sort.Strings(sens)
	c.Set("spec_sensitivity", sens)

	// (2) forced schedules on the real MemFs: with A inside, B must not enter (mutator pairs)
	ops := []string{"create", "append", "open", "readat", "delete", "link", "atomiccreate", "list", "close"}
	delta := time.Duration(c.Pick(30, 120)) * time.Millisecond
	forced := 0
	rr := rng(c, 14)
	pairs := [][2]string{}
	for _, a := range ops {
		for _, b := range ops {
			if fsMutators[a] || fsMutators[b] {
				pairs = append(pairs, [2]string{a, b})
			}
		}
	}
	if c.Quick() {
		rr.Shuffle(len(pairs), func(i, j int) { pairs[i], pairs[j] = pairs[j], pairs[i] })
		pairs = pairs[:30]
	}
	for _, p := range pairs {
		entered, ok := forcedFsSchedule(p[0], p[1], delta)
		if !ok {
			c.Inconclusive("forced schedule %v: driver did not complete", p)
			continue
		}
		forced++
		if entered {
			c.Violation("gate-"+p[0]+"-"+p[1], fmt.Sprintf("MemFs: with %s parked inside its critical section, %s entered its critical section; MemFs.tla allows one thread at a time between lock and unlock", p[0], p[1]),
				map[string]string{"scenario.json": jsonStr(p)})
			if c.NViolations() > 2 {
				break
			}
		}
	}
	c.Set("forced_schedules", forced)

	// (3) stress histories -> FsLinTrace
	nh := c.Pick(150, 1200)
	total, overl := 0, 0
	for _, impl := range []string{"mem", "dir"} {
		var evs []map[string]any
		seg := map[int]string{}
		outFile := filepath.Join(c.Scratch, "hist-"+impl+".ndjson")
		self, _ := os.Executable()
		cmd := exec.Command(self, "-child", "stress-fs", fmt.Sprint(c.Seed), impl, fmt.Sprint(nh), fmt.Sprint(c.Pick(12, 20)), c.Scratch, outFile)
		couts, cerr, timedOut := runWithDeadline(cmd, time.Duration(c.Pick(6, 30))*time.Minute)
		cout := []byte(couts)
		if timedOut {
			if hangInside(couts, "machine/filesys") {
				c.Violation("hang-"+impl, "the concurrent driver never finished: an operation of the library is blocked for good (deadlock)\n"+tlc.Tail(couts, 50), map[string]string{"goroutines.txt": couts})
			} else {
				c.Inconclusive("stress child (%s) did not finish in time:\n%s", impl, tlc.Tail(couts, 30))
			}
			continue
		}
		if strings.Contains(string(cout), "fatal error: concurrent map") {
			c.Violation("crash-"+impl, "the Go runtime aborted the concurrent driver with a concurrent map access inside the library\n"+tlc.Tail(string(cout), 40),
				map[string]string{"crash.txt": string(cout)})
			continue
		}
		if cerr != nil || !strings.Contains(string(cout), "STRESS-DONE") {
			c.Inconclusive("stress child (%s) failed: %v\n%s", impl, cerr, tlc.Tail(string(cout), 30))
			continue
		}
		hb, err := os.ReadFile(outFile)
		if err != nil {
			c.Inconclusive("read histories: %v", err)
			continue
		}
		for _, ln := range strings.Split(strings.TrimSpace(string(hb)), "\n") {
			var e map[string]any
			if json.Unmarshal([]byte(ln), &e) != nil {
				c.Inconclusive("bad history line")
				break
			}
			if e["ev"] == "reset" {
				seg[len(evs)] = fmt.Sprint(e["desc"])
				total++
			}
			evs = append(evs, e)
		}
		overl += overlapScore(evs)
		if impl == "mem" {
			c.Sample(map[string]any{"kind": "mem history prefix", "events": evs[:min(20, len(evs))]})
		}
		rest, base, bad := evs, 0, 0
		for len(rest) > 0 {
			if err := writeNDJSON(filepath.Join(dir, "trace.ndjson"), rest); err != nil {
				c.Inconclusive("write trace: %v", err)
				return
			}
			tr := tlc.Run{Dir: dir, Module: "FsLinTrace", Workers: 1, DFS: true, Timeout: time.Duration(c.Pick(6, 25)) * time.Minute, HeapMB: 12000, StackMB: 64}.Do()
			c.AddTLC(tr)
			hw := 0
			for _, p := range tr.Prints {
				fmt.Sscanf(strings.Trim(p, `"`), "%d", &hw)
			}
			if tr.NoError && tr.Violated == "" {
				break
			}
			if tr.Violated != "postcondition" || strings.Contains(tr.Out, "Error: Evaluating") || tr.TimedOut || hw < 1 || hw > len(rest) {
				c.Inconclusive("FsLinTrace did not run cleanly:\n%s", tlc.Tail(tr.Out, 25))
				return
			}
			at := hw - 1
			s := segmentStart(rest, at)
			c.Violation("lin-"+impl, fmt.Sprintf("concurrent history of %s is not linearizable w.r.t. FsSem (or hands out equal descriptor numbers): event %d %s cannot be matched\n%s",
				seg[base+s], at-s+1, jsonStr(rest[at]), window(rest, at, 14, 1)),
				map[string]string{"trace.ndjson": ndjsonString(rest[s:min(len(rest), at+30)]), "history.txt": seg[base+s]})
			bad++
			nx := at + 1
			for nx < len(rest) && rest[nx]["ev"] != "reset" {
				nx++
			}
			base += nx
			rest = rest[nx:]
			if bad >= 3 {
				break
			}
		}
		c.AddTraces(nh - bad)
	}
	// (3b) DirFs again with the system calls slowed down selectively (strace delay injection): the windows between
	// the system calls of one operation (check-then-act) become wide
	{
		outFile := filepath.Join(c.Scratch, "hist-dir-delay.ndjson")
		self, _ := os.Executable()
		a := []string{"-f", "-qq", "-o", "/dev/null", "-e", "trace=openat,open,linkat,unlinkat,renameat,renameat2,write,pread64,fstat,newfstatat,getdents64,mkdirat"}
		for _, sc := range []string{"openat", "linkat", "unlinkat", "renameat", "renameat2", "write", "pread64", "fstat", "newfstatat", "getdents64"} {
			a = append(a, "-e", fmt.Sprintf("inject=%s:delay_enter=700:when=2+2", sc))
		}
		nd := c.Pick(25, 250)
		a = append(a, self, "-child", "stress-fs", fmt.Sprint(c.Seed+5), "dir", fmt.Sprint(nd), "8", c.Scratch, outFile, "delay")
		o, err, timedOut := runWithDeadline(exec.Command("strace", a...), time.Duration(c.Pick(8, 30))*time.Minute)
		switch {
		case timedOut && hangInside(o, "machine/filesys"):
			c.Violation("hang-dir", "the concurrent driver (under delay injection) never finished: an operation of the library is blocked for good\n"+tlc.Tail(o, 40), map[string]string{"goroutines.txt": o})
		case timedOut || err != nil || !strings.Contains(o, "STRESS-DONE"):
			c.Inconclusive("delayed DirFs driver failed (%v, timed out %v): %s", err, timedOut, tlc.Tail(o, 12))
		default:
			var evs []map[string]any
			seg := map[int]string{}
			hb, _ := os.ReadFile(outFile)
			for _, ln := range strings.Split(strings.TrimSpace(string(hb)), "\n") {
				var e map[string]any
				if json.Unmarshal([]byte(ln), &e) == nil {
					if e["ev"] == "reset" {
						seg[len(evs)] = fmt.Sprint(e["desc"]) + " (strace delay injection)"
						total++
					}
					evs = append(evs, e)
				}
			}
			overl += overlapScore(evs)
			if err := writeNDJSON(filepath.Join(dir, "trace.ndjson"), evs); err == nil {
				tr := tlc.Run{Dir: dir, Module: "FsLinTrace", Workers: 1, DFS: true, Timeout: time.Duration(c.Pick(6, 25)) * time.Minute, HeapMB: 12000, StackMB: 64}.Do()
				c.AddTLC(tr)
				hw := 0
				for _, p := range tr.Prints {
					fmt.Sscanf(strings.Trim(p, `"`), "%d", &hw)
				}
				switch {
				case tr.NoError && tr.Violated == "":
					c.AddTraces(nd)
					c.Set("dir_delayed_histories", nd)
				case tr.Violated != "postcondition" || tr.TimedOut || hw < 1 || hw > len(evs):
					c.Inconclusive("FsLinTrace (delayed DirFs histories) did not run cleanly:\n%s", tlc.Tail(tr.Out, 25))
				default:
					at := hw - 1
					st := segmentStart(evs, at)
					c.Violation("lin-dir", fmt.Sprintf("concurrent history of %s is not linearizable w.r.t. FsSem: event %d %s cannot be matched\n%s", seg[st], at-st+1, jsonStr(evs[at]), window(evs, at, 14, 1)),
						map[string]string{"trace.ndjson": ndjsonString(evs[st:min(len(evs), at+30)]), "history.txt": seg[st]})
				}
			}
		}
	}
	c.Set("histories", total)
	c.Set("evaluations", total+forced)
	c.Set("distinct_nontrivial", overl)
	c.Set("rule", "evaluations = concurrent histories validated by FsLinTrace + forced schedules; distinct_nontrivial = operation responses that arrived while another client's operation was pending (real overlap) summed over histories")

	dirAppendProbe(c)
	replaceUnderReaders(c)
	raceChild(c, "race-fs", "machine/filesys")
}

// dirAppendProbe: DirFs.Append of more than one page racing with ReadAt on another descriptor (known finding).
// replaceUnderReaders: one client replaces an existing file again and again with AtomicCreate while others open, read
// and list it. The name exists in every sequential order (it was created before anybody started and is never
// deleted), so every Open must succeed, every read must return one of the installed contents in full, and every List
// must show the name. Both implementations.
func replaceUnderReaders(c *ev.Ctx) {
	for ti, tn := range []string{"mem/method", "dir/method"} {
		t := openFsTarget(tn, c.Scratch, 90+ti)
		t.fs.Mkdir("cfgd")
		content := func(k int) []byte { return bytes.Repeat([]byte{byte('A' + k%26)}, 40+k%7) }
		t.fs.AtomicCreate("cfgd", "cfg", content(0))
		rounds := c.Pick(400, 4000)
		var stop atomic.Bool
		var wg sync.WaitGroup
		var mu sync.Mutex
		bad := ""
		note := func(s string) {
			mu.Lock()
			if bad == "" {
				bad = s
			}
			mu.Unlock()
		}
		nOpen := atomic.Int64{}
		for g := 0; g < 4; g++ {
			wg.Add(1)
			go func(g int) {
				defer wg.Done()
				for !stop.Load() {
					if g == 3 {
						found := false
						if catchPanic(func() {
							for _, n := range t.fs.List("cfgd") {
								if n == "cfg" {
									found = true
								}
							}
						}) {
							note("List panicked")
						} else if !found {
							note("List does not show the name although it exists in every sequential order")
						}
						continue
					}
					var data []byte
					if catchPanic(func() {
						f := t.fs.Open("cfgd", "cfg")
						data = t.fs.ReadAt(f, 0, 64)
						t.fs.Close(f)
					}) {
						note("Open / ReadAt of the name panicked although it exists in every sequential order")
						continue
					}
					nOpen.Add(1)
					ok := len(data) >= 40 && len(data) <= 46
					for _, b := range data {
						if b != data[0] {
							ok = false
						}
					}
					if ok && int(data[0]-'A') >= 0 && len(data) != 40+func() int {
						// the length determines k mod 7, the letter k mod 26: they must fit one k
						for k := 0; k < 182; k++ {
							if byte('A'+k%26) == data[0] && 40+k%7 == len(data) {
								return k % 7
							}
						}
						return -1
					}() {
						ok = false
					}
					if !ok {
						note(fmt.Sprintf("a read returned %d bytes %q...: not one of the installed contents in full", len(data), string(data[:min(8, len(data))])))
					}
				}
			}(g)
		}
		for k := 1; k <= rounds && bad == ""; k++ {
			if catchPanic(func() { t.fs.AtomicCreate("cfgd", "cfg", content(k)) }) {
				note("AtomicCreate over the existing name panicked")
			}
		}
		stop.Store(true)
		wg.Wait()
		t.close()
		if bad != "" {
			c.Violation("fs."+tn[:3]+".replace-under-readers", fmt.Sprintf("target %s: one client replaces cfgd/cfg %d times with AtomicCreate while three others open and read it and one lists the directory: %s", tn, rounds, bad), nil)
		}
		c.Set("replace_under_readers_"+tn[:3], fmt.Sprintf("%d replacements, %d successful opens", rounds, nOpen.Load()))
	}
}

func dirAppendProbe(c *ev.Ctx) {
	t := openFsTarget("dir/method", c.Scratch, 71)
	defer t.close()
	fs := t.fs
	fs.Mkdir("pd")
	const rec = 12288
	torn := ""
	for round := 0; round < c.Pick(40, 400) && torn == ""; round++ {
		name := fmt.Sprintf("f%d", round)
		w, ok := fs.Create("pd", name)
		if !ok {
			return
		}
		rd := fs.Open("pd", name)
		done := make(chan struct{})
		go func() {
			defer close(done)
			for i := 0; i < 20; i++ {
				fs.Append(w, bytes.Repeat([]byte{byte(i + 1)}, rec))
			}
		}()
		for i := 0; i < 400 && torn == ""; i++ {
			b := fs.ReadAt(rd, 0, 21*rec)
			if len(b)%rec != 0 {
				torn = fmt.Sprintf("ReadAt saw %d bytes: %d whole %d-byte appends plus %d bytes of the next one", len(b), len(b)/rec, rec, len(b)%rec)
			}
		}
		<-done
		fs.Close(w)
		fs.Close(rd)
	}
	if torn != "" {
		c.Report("fs.dir.append-multi-page-vs-readat", "DirFs: an Append of 12288 bytes (three pages) is not one atomic step for a concurrent ReadAt through another descriptor: "+torn+" (write(2) and pread(2) on a regular file are not atomic with respect to each other on Linux)", nil)
	}
}

func raceFsChild(args []string) int {
	seed := uint64(1)
	fmt.Sscan(args[0], &seed)
	tier := args[1]
	r := rand.New(rand.NewPCG(seed, 1414))
	rounds := 60
	if tier == "thorough" {
		rounds = 500
	}
	var nu int64
	ops := 0
	for i := 0; i < rounds; i++ {
		fs := filesys.NewMemFs()
		h := stressFs(fs, false, 4, 60, r, &nu)
		ops += len(h) / 2
	}
	b, _ := json.Marshal(ops)
	fmt.Printf("RACE-DRIVER-DONE %s operations under -race\n", b)
	return 0
}
