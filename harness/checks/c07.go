package checks

import (
	"encoding/json"
	"fmt"
	"os"
	"os/exec"
	"path/filepath"
	"regexp"
	"sort"
	"strings"
	"sync"

	goose "github.com/goose-lang/goose"
	"github.com/pkg/errors"

	"verif/ev"
	"verif/goosegen"
)

func init() {
	Registry["C07"] = C07
	children["c07-translate"] = c07TranslateChildMain
}

// c07TranslateChildMain: TranslatePackages on one package in a process of its own (a stack overflow or a panic on a
// worker goroutine cannot be recovered in-process); prints the result as JSON.
func c07TranslateChildMain(args []string) int {
	var tr goose.TranslationConfig
	res, panicked := c07Translate(tr, args[0], args[1])
	b, _ := json.Marshal(map[string]any{"text": res.text, "errs": res.errs, "nonConversion": res.nonConversion, "panicked": panicked})
	fmt.Println("C07RES " + string(b))
	return 0
}

func c07TranslateChild(root, pkg string) (c07Res, string) {
	self, _ := os.Executable()
	cmd := exec.Command(self, "-child", "c07-translate", root, pkg)
	cmd.Env = goEnv()
	out, err := cmd.CombinedOutput()
	for _, ln := range strings.Split(string(out), "\n") {
		if strings.HasPrefix(ln, "C07RES ") {
			var r struct {
				Text          string   `json:"text"`
				Errs          []c07Err `json:"errs"`
				NonConversion string   `json:"nonConversion"`
				Panicked      string   `json:"panicked"`
			}
			if json.Unmarshal([]byte(strings.TrimPrefix(ln, "C07RES ")), &r) == nil {
				return c07Res{text: r.Text, errs: r.Errs, nonConversion: r.NonConversion}, r.Panicked
			}
		}
	}
	return c07Res{}, fmt.Sprintf("the process died (%v): %s", err, firstLines(string(out), 6))
}

var c07Categories = map[string]bool{"unsupported": true, "todo": true, "future": true, "impossible(go)": true, "impossible(no-examples)": true}

func C07(c *ev.Ctx) {
	c.Level = "exploration"
	c.Assume("inputs are type-correct packages: generated subset programs, the C02 catalogue, a second catalogue of constructs far outside the subset, and statement-deleting mutants of the shipped unittest example that still compile",
		"the command is run with -ignore-errors so that every error of a package is visible; the library is also called in-process to inspect the error values",
		"termination: the CLI is run under a 120 s limit (never reached on the unchanged tree)")
	rr := rng(c, 7)
	m, err := newGenModule(c, "mod-c07")
	if err != nil {
		c.Inconclusive("module: %v", err)
		return
	}
	defer os.RemoveAll(m.dir)
	type pinfo struct {
		name string
		src  string
		keys map[string]string // declared name -> catalogue key
	}
	var infos []pinfo
	n := 5000
	all := append(append([]goosegen.Item{}, goosegen.Catalogue...), goosegen.FarOutside...)
	var normal []goosegen.Item
	for _, it := range all {
		if !strings.HasPrefix(it.Key, "lookalike.len") && !strings.HasPrefix(it.Key, "lookalike.uint64") {
			normal = append(normal, it)
		}
	}
	npk := c.Pick(24, 1500)
	if need := len(normal)/6 + 2; npk < need {
		npk = need
	}
	order := rr.Perm(len(normal))
	pos := 0
	for p := 0; p < npk; p++ {
		name := fmt.Sprintf("z%d", p)
		base := goosegen.Generate(goosegen.Options{Seed: uint64(c.Seed)*104729 + uint64(p), Funcs: 1 + p%3, Entries: 1})
		src := base.Source
		info := pinfo{name: name, keys: map[string]string{}}
		k := 4 + rr.IntN(8)
		usesMachine := false
		var std []string
		var pieces []string
		for j := 0; j < k; j++ {
			it := normal[order[pos%len(order)]] // every construct at least once per run, then again in other company
			pos++
			n++
			decls, entry := it.Instantiate(n, fmt.Sprintf("centry%d", n))
			if strings.Contains(decls+entry, "machine.") {
				usesMachine = true
			}
			std = append(std, it.Imports()...)
			pieces = append(pieces, decls, entry)
			if ds, err := topDecls("package x\n" + decls + "\n" + entry); err == nil {
				for _, d := range ds {
					for _, nm := range d.names {
						info.keys[nm] = it.Key
					}
				}
			}
		}
		if usesMachine && !strings.Contains(src, "goose/machine\"") {
			src = strings.Replace(src, "package gen\n\n", "package gen\n\nimport \"github.com/goose-lang/goose/machine\"\n\n", 1)
		}
		src = goosegen.AddImports(src, std)
		src += "\n" + strings.Join(pieces, "\n")
		info.src = src
		d := filepath.Join(m.dir, name)
		_ = os.MkdirAll(d, 0755)
		_ = os.WriteFile(filepath.Join(d, "gen.go"), []byte(src), 0644)
		m.pkgs = append(m.pkgs, name)
		infos = append(infos, info)
	}
	// one package with MANY untranslatable declarations followed by translatable ones (state that a failing
	// declaration leaves behind must not reach the later ones)
	mustTranslate := map[string][]string{}
	{
		var sb strings.Builder
		sb.WriteString("package gen\n\n")
		for k := 0; k < 120; k++ {
			// the unsupported construct sits deep inside an expression (and, for every fourth one, at statement level)
			inner := []string{"(x &^ 1)", "(-x)", "(+x)", "uint64(len(make([]uint64, 3)[0:1:2]))"}[k%4]
			e := inner
			for dpt := 0; dpt < 6+k%5; dpt++ {
				e = fmt.Sprintf("((%s + %d) * %d)", e, dpt+1, dpt+2)
			}
			if k%7 == 3 {
				fmt.Fprintf(&sb, "func bad%d(x uint64) uint64 {\n\tdefer func() {}()\n\treturn %s\n}\n\n", k, e)
			} else {
				fmt.Fprintf(&sb, "func bad%d(x uint64) uint64 {\n\treturn idz(idz(%s) + 1)\n}\n\n", k, e)
			}
		}
		sb.WriteString("func idz(x uint64) uint64 {\n\treturn x\n}\n\n")
		var good []string
		for k := 0; k < 12; k++ {
			fmt.Fprintf(&sb, "func good%d(x uint64) uint64 {\n\tvar t uint64 = (x + %d) * 3\n\tif t > 7 {\n\t\tt = t - ((x ^ 5) | 1)\n\t}\n\treturn t\n}\n\n", k, k)
			good = append(good, fmt.Sprintf("good%d", k))
		}
		name := "zmany"
		d := filepath.Join(m.dir, name)
		_ = os.MkdirAll(d, 0755)
		_ = os.WriteFile(filepath.Join(d, "gen.go"), []byte(sb.String()), 0644)
		m.pkgs = append(m.pkgs, name)
		infos = append(infos, pinfo{name: name, src: sb.String(), keys: map[string]string{}})
		mustTranslate[name] = good
	}
	// packages that do not compile are generator problems
	if _, broken, err := buildOnly(m); err != nil {
		c.Inconclusive("%v", err)
		return
	} else if len(broken) > 0 {
		for p, msg := range broken {
			c.Inconclusive("C07 package %s does not compile:\n%s", p, firstLines(msg, 6))
		}
		return
	}
	// (1) command line: exit status and absence of a crash
	isCrash := func(g gooseOut) bool {
		return g.exit != 0 && g.exit != 1 || strings.Contains(g.stderr, "goroutine ") || strings.Contains(g.stderr, "panic:") || strings.Contains(g.stderr, "fatal error:")
	}
	gout := m.runGoose(c, "-ignore-errors")
	crashed := isCrash(gout)
	// all packages are translated by one process (one worker goroutine per package): repeat, with few and many processors
	for rep := 0; rep < 4 && !crashed; rep++ {
		os.Setenv("GOMAXPROCS", []string{"16", "2", "8", "4"}[rep])
		g2 := m.runGoose(c, "-ignore-errors")
		os.Unsetenv("GOMAXPROCS")
		if isCrash(g2) {
			gout, crashed = g2, true
		} else if sortedLines(g2.stderr) != sortedLines(gout.stderr) {
			c.Violation("c07.errors-differ-between-runs", "two invocations of goose on the same packages report different errors (order aside): the reporter is not a function of the package\n--- first\n"+firstLines(diffLines(gout.stderr, g2.stderr), 12), map[string]string{"first.txt": gout.stderr, "second.txt": g2.stderr})
			break
		}
	}
	// the flags that add text to every definition must not make the command die either (they are applied while the
	// files are written, after the translation proper)
	flagsForTriage := []string{"-ignore-errors"}
	if !crashed {
		g3 := m.runGoose(c, "-ignore-errors", "-typecheck", "-source-comments")
		if isCrash(g3) {
			gout, crashed = g3, true
			c.Set("crash_only_with_flags", "-typecheck -source-comments")
			flagsForTriage = []string{"-ignore-errors", "-typecheck", "-source-comments"}
		}
	}
	reproducedAlone := false
	if crashed {
		// find the offending package(s) one by one
		for _, info := range infos {
			one := &genModule{dir: m.dir, pkgs: []string{info.name}}
			g1 := one.runGoose(c, flagsForTriage...)
			if g1.exit != 0 && g1.exit != 1 || strings.Contains(g1.stderr, "goroutine ") || strings.Contains(g1.stderr, "panic:") {
				key := "c07.crash"
				// name the construct: the first catalogue key whose declaration text occurs in the panic context is unknown; use all keys of the package
				culprit := c07Culprit(c, m.dir, info.src, info.keys)
				if culprit != "" {
					key = "c07.crash." + culprit
				}
				c.Report(key, fmt.Sprintf("goose aborts on package %s (exit %d) instead of reporting structured errors; construct: %s\n%s", info.name, g1.exit, culprit, firstLines(g1.stderr, 8)),
					map[string]string{"gen.go": info.src, "stderr.txt": g1.stderr})
				reproducedAlone = true
			}
		}
		if !reproducedAlone {
			c.Violation("c07.crash.co-translation", fmt.Sprintf("goose aborts (exit %d) when the %d packages are translated by one invocation, although none of them makes it abort alone: the workers disturb each other\n%s", gout.exit, len(infos), firstLines(gout.stderr, 14)), map[string]string{"stderr.txt": gout.stderr})
		}
	}
	// (2) library: structured, located errors; every declaration either reported or emitted
	reDef := regexp.MustCompile(`(?m)^(?:Definition|Notation) ([A-Za-z0-9_']+)`)
	nerrs, ndecls := 0, 0
	type c07Out struct {
		res  c07Res
		terr string
	}
	outs := make([]c07Out, len(infos))
	var wg sync.WaitGroup
	sem := make(chan bool, 12)
	for i := range infos {
		wg.Add(1)
		go func(i int) {
			defer wg.Done()
			sem <- true
			defer func() { <-sem }()
			outs[i].res, outs[i].terr = c07TranslateChild(m.dir, infos[i].name)
		}(i)
	}
	wg.Wait()
	for i, info := range infos {
		res, terr := outs[i].res, outs[i].terr
		if terr != "" {
			if !crashed {
				c.Report("c07.crash", fmt.Sprintf("TranslatePackages panics on package %s: %s", info.name, terr), map[string]string{"gen.go": info.src})
			}
			continue
		}
		ds, err := topDecls(info.src)
		if err != nil {
			continue
		}
		defined := map[string]bool{}
		for _, mm := range reDef.FindAllStringSubmatch(res.text, -1) {
			defined[mm[1]] = true
		}
		errLines := map[int]bool{}
		for _, ce := range res.errs {
			nerrs++
			bad := ""
			var ln int
			if !c07Categories[ce.Category] {
				bad = fmt.Sprintf("unknown error category %q", ce.Category)
			} else if mm := regexp.MustCompile(`:(\d+):(\d+)$`).FindStringSubmatch(ce.GoSrcFile); mm == nil {
				bad = fmt.Sprintf("error without a source position (%q)", ce.GoSrcFile)
			} else {
				fmt.Sscan(mm[1], &ln)
				inside := false
				for _, d := range ds {
					if ln >= d.start && ln <= d.end {
						inside = true
					}
				}
				if !inside {
					bad = fmt.Sprintf("error position line %d is not inside any top-level declaration", ln)
				}
				errLines[ln] = true
			}
			if bad != "" {
				c.Violation("c07.error-shape", fmt.Sprintf("package %s: %s: [%s] %s", info.name, bad, ce.Category, ce.Message), map[string]string{"gen.go": info.src})
			}
		}
		// the command prints every error the library returns (same position, same category), however many there are
		if !crashed {
			missing, firstMissing := 0, ""
			for _, ce := range res.errs {
				// the position as <package dir>/<file>:<line>:<col>, wherever and however the command prints it
				pos := ce.GoSrcFile
				if parts := strings.Split(pos, "/"); len(parts) > 2 {
					pos = strings.Join(parts[len(parts)-2:], "/")
				}
				if !regexp.MustCompile(regexp.QuoteMeta(pos) + `(\D|$)`).MatchString(gout.stderr) {
					missing++
					if firstMissing == "" {
						firstMissing = fmt.Sprintf("[%s] %s at %s", ce.Category, ce.Message, ce.GoSrcFile)
					}
				}
			}
			if missing > 0 {
				c.Violation("c07.cli-omits-errors", fmt.Sprintf("package %s: the library reports %d conversion errors, the goose command does not print %d of them (first: %s): every offending declaration must be reported", info.name, len(res.errs), missing, firstMissing),
					map[string]string{"gen.go": info.src, "stderr.txt": gout.stderr})
			}
		}
		if res.nonConversion != "" {
			c.Violation("c07.error-type", fmt.Sprintf("package %s: an error that is not a ConversionError: %s", info.name, res.nonConversion), map[string]string{"gen.go": info.src})
		}
		for _, g := range mustTranslate[info.name] {
			if !defined[g] {
				c.Violation("c07.translatable-not-translated", fmt.Sprintf("package %s: declaration %s is in the subset (it translates when it stands alone) but was not translated after %d untranslatable declarations of the same package: an error in one declaration must not stop the others", info.name, g, 120),
					map[string]string{"gen.go": info.src, "emitted.v": res.text})
				break
			}
		}
		for _, d := range ds {
			ndecls++
			hasErr := false
			for ln := range errLines {
				if ln >= d.start && ln <= d.end {
					hasErr = true
				}
			}
			if hasErr {
				continue
			}
			for _, nm := range d.names {
				if nm == "_" || defined[nm] {
					continue
				}
				key := "c07.dropped"
				if k, ok := info.keys[nm]; ok {
					key = "c07.dropped." + k
				}
				c.Report(key, fmt.Sprintf("package %s: declaration %s (lines %d-%d) is neither reported with an error nor translated: an error elsewhere must not hide it, and nothing may be dropped silently", info.name, nm, d.start, d.end),
					map[string]string{"gen.go": info.src, "emitted.v": res.text})
			}
		}
		if c.NViolations() > 6 {
			break
		}
	}
	c.Set("packages", len(infos))
	c.Set("errors_inspected", nerrs)
	c.Set("declarations_decided", ndecls)
	c.Set("evaluations", len(infos))
	c.Set("distinct_nontrivial", len(infos))
	c.Set("rule", "packages = generated base + 4-11 catalogue constructs (80 out-of-subset/look-alike + 25 far-outside); every package is distinct (seeded) and non-trivial (contains rejected constructs)")
	c.Sample(map[string]any{"package": infos[0].src})
}

type c07Err struct{ Category, Message, GoSrcFile string }
type c07Res struct {
	text          string
	errs          []c07Err
	nonConversion string
}

func c07Translate(tr goose.TranslationConfig, root, pkg string) (res c07Res, panicked string) {
	defer func() {
		if r := recover(); r != nil {
			panicked = fmt.Sprint(r)
		}
	}()
	files, errs, perr := tr.TranslatePackages(root, "./"+pkg)
	if perr != nil {
		res.nonConversion = perr.Error()
		return
	}
	for i, f := range files {
		var sb strings.Builder
		f.Write(&sb)
		res.text = sb.String()
		if errs[i] == nil {
			continue
		}
		cause := errors.Cause(errs[i])
		if me, ok := cause.(goose.MultipleErrors); ok {
			for _, e := range me {
				if ce, ok := e.(*goose.ConversionError); ok {
					res.errs = append(res.errs, c07Err{ce.Category, ce.Message, ce.GoSrcFile})
				} else {
					res.nonConversion = e.Error()
				}
			}
		} else {
			res.nonConversion = errs[i].Error()
		}
	}
	return
}

// c07Culprit finds which single catalogue construct makes goose crash by translating each declaration group alone.
func c07Culprit(c *ev.Ctx, modDir, src string, keys map[string]string) string {
	seen := map[string]bool{}
	for _, k := range keys {
		if seen[k] {
			continue
		}
		seen[k] = true
		for _, it := range append(append([]goosegen.Item{}, goosegen.Catalogue...), goosegen.FarOutside...) {
			if it.Key != k {
				continue
			}
			decls, entry := it.Instantiate(9, "centry9")
			s := "package gen\n\n"
			if strings.Contains(decls+entry, "machine.") {
				s += "import \"github.com/goose-lang/goose/machine\"\n\n"
			}
			s += decls + "\n" + entry
			d := filepath.Join(modDir, "culprit")
			_ = os.RemoveAll(d)
			_ = os.MkdirAll(d, 0755)
			_ = os.WriteFile(filepath.Join(d, "gen.go"), []byte(s), 0644)
			one := &genModule{dir: modDir, pkgs: []string{"culprit"}}
			g := one.runGoose(c, "-ignore-errors")
			_ = os.RemoveAll(d)
			if g.exit != 0 && g.exit != 1 || strings.Contains(g.stderr, "goroutine ") {
				return k
			}
		}
	}
	return ""
}

func buildOnly(m *genModule) (map[string]bool, map[string]string, error) {
	cmd := execCommand("go", "build", "./...")
	cmd.Dir, cmd.Env = m.dir, goEnv()
	out, err := cmd.CombinedOutput()
	broken := map[string]string{}
	if err != nil {
		for _, p := range m.pkgs {
			if strings.Contains(string(out), p+"/gen.go") {
				broken[p] = string(out)
			}
		}
		if len(broken) == 0 {
			return nil, nil, fmt.Errorf("go build failed: %s", firstLines(string(out), 10))
		}
	}
	return nil, broken, nil
}

func sortedLines(t string) string {
	ls := strings.Split(t, "\n")
	sort.Strings(ls)
	return strings.Join(ls, "\n")
}

// diffLines lists lines that occur in only one of the two texts.
func diffLines(a, b string) string {
	ca, cb := map[string]int{}, map[string]int{}
	for _, l := range strings.Split(a, "\n") {
		ca[l]++
	}
	for _, l := range strings.Split(b, "\n") {
		cb[l]++
	}
	var out []string
	for l, n := range ca {
		if cb[l] != n {
			out = append(out, "- "+l)
		}
	}
	for l, n := range cb {
		if ca[l] != n {
			out = append(out, "+ "+l)
		}
	}
	sort.Strings(out)
	return strings.Join(out, "\n")
}
