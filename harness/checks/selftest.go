package checks

import (
	"encoding/json"
	"fmt"
	"math/big"
	"os"
	"path/filepath"
	"strings"
	"time"

	"verif/ev"
	"verif/tlc"
)

func init() {
	Registry["selftest-word"] = func(c *ev.Ctx) {
		c.Level = "other"
		wordSelfTest(c)
		c.Set("explanation", "Word.tla vs Go native arithmetic")
	}
}

func limbsOf(x uint64, n int) []int {
	w := make([]int, n)
	for i := 0; i < n; i++ {
		w[i] = int(x >> (8 * i) & 0xff)
	}
	return w
}

func tlaSeq(w []int) string {
	var xs []string
	for _, b := range w {
		xs = append(xs, fmt.Sprint(b))
	}
	return "<<" + strings.Join(xs, ", ") + ">>"
}

// wordSelfTest: calibration of the trusted base (Word.tla) against Go arithmetic.
func wordSelfTest(c *ev.Ctx) bool {
	dir, err := c.SpecDir("spec-word", "common")
	if err != nil {
		c.Inconclusive("copy specs: %v", err)
		return false
	}
	rr := rng(c, 64)
	type pair struct {
		a, b uint64
		n    int
	}
	var ps []pair
	bnd := []uint64{0, 1, 2, 7, 8, 9, 10, 63, 64, 65, 127, 128, 255, 256, 257, 0xffff, 0x10000, 0xffffffff, 0x100000000, 1 << 63, ^uint64(0), ^uint64(0) - 1, 0x8000000000000001, 1000000007, 10000000000000000000}
	for _, n := range []int{8, 4, 1} {
		mask := ^uint64(0)
		if n < 8 {
			mask = (uint64(1) << (8 * n)) - 1
		}
		for _, a := range bnd {
			for _, b := range bnd {
				if len(ps)%3 == int(c.Seed%3) || a == b || b < 70 {
					ps = append(ps, pair{a & mask, b & mask, n})
				}
			}
		}
		for i := 0; i < c.Pick(120, 1500); i++ {
			a, b := rr.Uint64()&mask, rr.Uint64()&mask
			switch i % 4 {
			case 1:
				b = b % 70
			case 2:
				b = b >> uint(rr.IntN(8*n))
			case 3:
				a = a >> uint(rr.IntN(8*n))
			}
			ps = append(ps, pair{a, b, n})
		}
	}
	var vec []string
	for _, p := range ps {
		vec = append(vec, "<<"+tlaSeq(limbsOf(p.a, p.n))+", "+tlaSeq(limbsOf(p.b, p.n))+">>")
	}
	mod := "---- MODULE WordTestRun ----\nEXTENDS WordTest\nGenVec == <<" + strings.Join(vec, ",\n") + ">>\n====\n"
	_ = os.WriteFile(filepath.Join(dir, "WordTestRun.tla"), []byte(mod), 0644)
	_ = os.WriteFile(filepath.Join(dir, "WordTestRun.cfg"), []byte("CONSTANT Vec <- GenVec\nINIT Init\nNEXT Next\nINVARIANT Emit\n"), 0644)
	r := tlc.Run{Dir: dir, Module: "WordTestRun", Workers: 8, Timeout: 10 * time.Minute, StackMB: 64}.Do()
	if !c.CheckTLC("WordTest", r) {
		return false
	}
	type res struct {
		A, B, Add, Sub, Mul, Band, Bor, Bxor, Bnot, Shl, Shr, Quot, Rem, Dec []int
		Lt                                                                   int
	}
	toU := func(w []int) uint64 {
		var x uint64
		for i := len(w) - 1; i >= 0; i-- {
			x = x<<8 | uint64(w[i])
		}
		return x
	}
	bad := 0
	for _, p := range r.Prints {
		var x res
		if err := json.Unmarshal([]byte(p), &x); err != nil {
			c.Inconclusive("wordtest json: %v", err)
			return false
		}
		n := len(x.A)
		mask := ^uint64(0)
		if n < 8 {
			mask = (uint64(1) << (8 * n)) - 1
		}
		a, b := toU(x.A), toU(x.B)
		chk := func(name string, got []int, want uint64) {
			if toU(got) != want&mask || len(got) != n {
				bad++
				if bad < 5 {
					c.Inconclusive("Word.tla disagrees with Go: %s(%d, %d) width %d = %d, Go says %d", name, a, b, 8*n, toU(got), want&mask)
				}
			}
		}
		chk("add", x.Add, a+b)
		chk("sub", x.Sub, a-b)
		chk("mul", x.Mul, a*b)
		chk("and", x.Band, a&b)
		chk("or", x.Bor, a|b)
		chk("xor", x.Bxor, a^b)
		chk("not", x.Bnot, ^a)
		sh := b
		if sh >= uint64(8*n) {
			chk("shl", x.Shl, 0)
			chk("shr", x.Shr, 0)
		} else {
			chk("shl", x.Shl, a<<sh)
			chk("shr", x.Shr, (a&mask)>>sh)
		}
		if b != 0 {
			chk("quot", x.Quot, a/b)
			chk("rem", x.Rem, a%b)
		}
		if (x.Lt == 1) != (a < b) {
			bad++
			c.Inconclusive("Word.tla disagrees with Go: lt(%d, %d)", a, b)
		}
		var sb strings.Builder
		for _, d := range x.Dec {
			sb.WriteByte(byte('0' + d))
		}
		if sb.String() != new(big.Int).SetUint64(a).String() {
			bad++
			c.Inconclusive("Word.tla Dec(%d) = %s", a, sb.String())
		}
	}
	if len(r.Prints) != len(ps) {
		c.Inconclusive("wordtest: %d results for %d vectors", len(r.Prints), len(ps))
		return false
	}
	c.Set("word_selftest_vectors", len(ps))
	return bad == 0
}
