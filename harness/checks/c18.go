package checks

import (
	"encoding/json"
	"fmt"
	"os"
	"os/exec"
	"path/filepath"
	"regexp"
	"sort"
	"strings"
	"time"

	"verif/ev"
	"verif/tlc"
)

func init() { Registry["C18"] = C18 }

type tgLine struct {
	Class string `json:"class"`
	N     string `json:"n"`
}
type tgFile struct {
	Kind  string   `json:"kind"`
	Name  string   `json:"name"`
	Lines []tgLine `json:"lines"`
}

var tgClasses = []string{"test", "failing", "oneline", "bracecomment", "failingoneline", "underscore", "unicode", "bigcomment", "disabled", "helper", "method", "captest", "commented", "blockline", "indented", "onelinecomment"}
var tgKinds = []string{"src", "testish", "gotest", "exttest", "gold", "backup", "symsrc", "subdir"}

func tgFileName(kind string, i int) string {
	base := string(rune('a'+i)) + "file"
	switch kind {
	case "src", "symsrc":
		return base + ".go"
	case "testish":
		return base + "_tests.go"
	case "gotest", "exttest":
		return base + "_test.go"
	case "gold":
		return base + ".gold.v"
	case "subdir":
		return base + "dir" // a sub-directory (nested package / test data) holding inner.go
	}
	return base + ".go~"
}

// the name that must appear in the generated tests for a line
func tgTestName(l tgLine) string {
	switch l.Class {
	case "underscore":
		return "_" + l.N
	case "unicode":
		return "UNI" + l.N // (TLC's JSON output mangles non-ASCII text; the harness maps Ä <-> UNI)
	}
	return l.N
}

func tgRender(f tgFile, pkg string) string {
	var sb strings.Builder
	if f.Kind == "gold" {
		sb.WriteString("(* gold *)\n")
	} else if f.Kind == "exttest" {
		sb.WriteString("package " + pkg + "_test\n\n")
	} else if f.Kind == "subdir" {
		sb.WriteString("package inner\n\n")
	} else {
		sb.WriteString("package " + pkg + "\n\n")
	}
	needT := false
	for _, l := range f.Lines {
		switch l.Class {
		case "test":
			fmt.Fprintf(&sb, "func test%s() bool {\n\treturn true\n}\n\n", l.N)
		case "failing":
			fmt.Fprintf(&sb, "func failing_test%s() bool {\n\treturn true\n}\n\n", l.N)
		case "oneline":
			fmt.Fprintf(&sb, "func test%s() bool { return true }\n\n", l.N)
		case "bracecomment":
			fmt.Fprintf(&sb, "func test%s() bool { // always\n\treturn true\n}\n\n", l.N)
		case "failingoneline":
			fmt.Fprintf(&sb, "func failing_test%s() bool { return true }\n\n", l.N)
		case "underscore":
			fmt.Fprintf(&sb, "func test_%s() bool {\n\treturn true\n}\n\n", l.N)
		case "unicode":
			fmt.Fprintf(&sb, "func testÄ%s() bool {\n\treturn true\n}\n\n", l.N)
		case "bigcomment":
			for k := 0; k < 70; k++ {
				fmt.Fprintf(&sb, "// padding %s line %02d: a long comment line so that the file is several buffers long ....\n", l.N, k)
			}
			sb.WriteString("\n")
		case "disabled":
			fmt.Fprintf(&sb, "func disabled_test%s() bool {\n\treturn true\n}\n\n", l.N)
		case "helper":
			fmt.Fprintf(&sb, "func helper%s() bool {\n\treturn true\n}\n\n", l.N)
		case "method":
			needT = true
			fmt.Fprintf(&sb, "func (r *recvT%s) test%s() bool {\n\treturn true\n}\n\n", strings.TrimSuffix(f.Name, filepath.Ext(f.Name)), l.N)
		case "captest":
			fmt.Fprintf(&sb, "func Test%s() bool {\n\treturn true\n}\n\n", l.N)
		case "commented":
			fmt.Fprintf(&sb, "// func test%s() bool {\n\n", l.N)
		case "blockline":
			fmt.Fprintf(&sb, "/*\nfunc test%s() bool {\n\treturn true\n}\n*/\n\n", l.N)
		case "indented":
			fmt.Fprintf(&sb, "/*\n\tfunc test%s() bool {\n\t\treturn true\n\t}\n*/\n\n", l.N)
		case "onelinecomment":
			fmt.Fprintf(&sb, "/* helpers %s */\n\n", l.N)
		}
	}
	if needT {
		fmt.Fprintf(&sb, "type recvT%s struct{}\n", strings.TrimSuffix(f.Name, filepath.Ext(f.Name)))
	}
	return sb.String()
}

func tlaStr(s string) string { return `"` + s + `"` }

func C18(c *ev.Ctx) {
	c.Level = "model_checking"
	c.Assume("directories are built from gofmt-shaped top-level lines of 12 classes in files of 5 kinds (TestGen.tla); file names sort in the order os.ReadDir returns",
		"test names are alphanumeric (plus the underscore / non-ASCII variants that are their own classes)")
	dir, err := c.SpecDir("spec-tg", "translator")
	if err != nil {
		c.Inconclusive("copy specs: %v", err)
		return
	}
	rr := rng(c, 18)
	var cases [][]tgFile
	nn := 0
	// names start with an upper- or a lower-case letter in turn (test functions are named testFoo as well as testfoo)
	name := func() string {
		nn++
		if nn%3 == 0 {
			return fmt.Sprintf("n%d", nn)
		}
		return fmt.Sprintf("N%d", nn)
	}
	// systematic: every (file kind, line class) alone and next to a plain test
	for _, k := range tgKinds {
		for _, cl := range tgClasses {
			cases = append(cases, []tgFile{{Kind: k, Name: tgFileName(k, 0), Lines: []tgLine{{cl, name()}}}})
			cases = append(cases, []tgFile{{Kind: k, Name: tgFileName(k, 0), Lines: []tgLine{{cl, name()}, {"test", name()}, {"failing", name()}}}})
		}
	}
	// an external test file (package <pkg>_test) that sorts before the sources, carrying no tests itself
	for _, cl := range []string{"helper", "onelinecomment"} {
		cases = append(cases, []tgFile{{Kind: "exttest", Name: tgFileName("exttest", 0), Lines: []tgLine{{cl, name()}}},
			{Kind: "src", Name: tgFileName("src", 1), Lines: []tgLine{{"test", name()}, {"failing", name()}, {"oneline", name()}}}})
	}
	// two test functions whose names differ only in the case of the first letter after "test"
	cases = append(cases, []tgFile{{Kind: "src", Name: tgFileName("src", 0), Lines: []tgLine{{"test", "u32Wraps"}, {"test", "U32Wraps"}, {"failing", "xY"}, {"failing", "XY"}}}})
	// files longer than a read buffer: tests before, between and after the padding
	cases = append(cases, []tgFile{{Kind: "src", Name: tgFileName("src", 0), Lines: []tgLine{{"test", name()}, {"failing", name()}, {"bigcomment", name()}, {"test", name()}, {"bigcomment", name()}, {"failing", name()}, {"oneline", name()}}}})
	cases = append(cases, []tgFile{{Kind: "src", Name: tgFileName("src", 0), Lines: []tgLine{{"bigcomment", name()}, {"test", name()}}},
		{Kind: "src", Name: tgFileName("src", 1), Lines: []tgLine{{"test", name()}, {"bigcomment", name()}, {"bigcomment", name()}, {"failing", name()}}}})
	// random directories: 1-3 files, 0-4 lines each
	for i := 0; i < c.Pick(60, 6000); i++ {
		var d []tgFile
		nf := 1 + rr.IntN(3)
		for j := 0; j < nf; j++ {
			k := tgKinds[rr.IntN(len(tgKinds))]
			if rr.IntN(3) == 0 {
				k = "src"
			}
			f := tgFile{Kind: k, Name: tgFileName(k, j)}
			for l := 0; l < rr.IntN(5); l++ {
				cl := tgClasses[rr.IntN(len(tgClasses))]
				if rr.IntN(3) == 0 {
					cl = []string{"test", "failing"}[rr.IntN(2)]
				}
				f.Lines = append(f.Lines, tgLine{cl, name()})
			}
			d = append(d, f)
		}
		sort.Slice(d, func(a, b int) bool { return d[a].Name < d[b].Name })
		cases = append(cases, d)
	}
	// TLC evaluates the specification on every case
	var sb strings.Builder
	sb.WriteString("---- MODULE TestGenRun ----\nEXTENDS TestGen\nGenCases == <<\n")
	for i, d := range cases {
		var fs []string
		for _, f := range d {
			var ls []string
			for _, l := range f.Lines {
				ls = append(ls, fmt.Sprintf("[class |-> %s, n |-> %s]", tlaStr(l.Class), tlaStr(tgTestName(l))))
			}
			fs = append(fs, fmt.Sprintf("[kind |-> %s, name |-> %s, lines |-> <<%s>>]", tlaStr(strings.Replace(f.Kind, "exttest", "gotest", 1)), tlaStr(f.Name), strings.Join(ls, ", ")))
		}
		sep := ","
		if i == len(cases)-1 {
			sep = ""
		}
		fmt.Fprintf(&sb, "  <<%s>>%s\n", strings.Join(fs, ", "), sep)
	}
	sb.WriteString(">>\n====\n")
	_ = os.WriteFile(filepath.Join(dir, "TestGenRun.tla"), []byte(sb.String()), 0644)
	_ = os.WriteFile(filepath.Join(dir, "TestGenRun.cfg"), []byte("CONSTANT Cases <- GenCases\nINIT Init\nNEXT Next\nINVARIANTS CountOK Emit\n"), 0644)
	r := tlc.Run{Dir: dir, Module: "TestGenRun", Workers: 4, Timeout: 10 * time.Minute}.Do()
	if !c.CheckTLC("TestGen", r) {
		return
	}
	type exp struct {
		I     int `json:"i"`
		Tests []struct {
			N    string `json:"n"`
			Fail int    `json:"fail"`
		} `json:"tests"`
	}
	want := map[int]exp{}
	for _, p := range r.Prints {
		var e exp
		if json.Unmarshal([]byte(p), &e) == nil {
			want[e.I] = e
		}
	}
	if len(want) != len(cases) {
		c.Inconclusive("TLC evaluated %d of %d cases", len(want), len(cases))
		return
	}
	reGo := regexp.MustCompile(`(?m)^func \(suite \*GoTestSuite\) Test(\S*?)\(\) \{\n(?:.*\n){2}\tsuite\.Equal\(true, (failing_)?test(\S*?)\(\)\)`)
	reCoq := regexp.MustCompile(`(?m)^(Fail )?Example (\S+)_ok : (\S+) #\(\) ~~> #true := t\.$`)
	tg := filepath.Join(c.Bin, "test_gen")
	nontriv := 0
	compiled := 0
	outRuns := 0
	for i, d := range cases {
		// the directory name is not always a plain word: brackets, stars and question marks are legal in file names
		dirName := "semantics"
		if i%4 == 3 {
			dirName = []string{"semantics[v2]", "sem*ntics", "sem?ntics", "{semantics}"}[(i/4)%4]
		}
		root := filepath.Join(c.Scratch, "tgdir", dirName)
		_ = os.RemoveAll(filepath.Dir(root))
		_ = os.MkdirAll(root, 0755)
		for _, f := range d {
			if f.Kind == "symsrc" {
				// the source lives elsewhere; the package directory holds a symbolic link to it
				sh := filepath.Join(filepath.Dir(root), "shared")
				_ = os.MkdirAll(sh, 0755)
				_ = os.WriteFile(filepath.Join(sh, f.Name), []byte(tgRender(f, "semantics")), 0644)
				_ = os.Symlink(filepath.Join(sh, f.Name), filepath.Join(root, f.Name))
				continue
			}
			if f.Kind == "subdir" {
				_ = os.MkdirAll(filepath.Join(root, f.Name), 0755)
				_ = os.WriteFile(filepath.Join(root, f.Name, "inner.go"), []byte(tgRender(f, "semantics")), 0644)
				continue
			}
			_ = os.WriteFile(filepath.Join(root, f.Name), []byte(tgRender(f, "semantics")), 0644)
		}
		// the package directory may be named through a symbolic link
		arg := root
		if i%5 == 2 {
			arg = filepath.Join(c.Scratch, "tgdir", "link-to-package")
			_ = os.Symlink(root, arg)
		}
		run := func(mode string) (string, error) {
			out, err := exec.Command(tg, mode, arg).CombinedOutput()
			return string(out), err
		}
		goOut, err1 := run("-go")
		coqOut, err2 := run("-coq")
		if err1 != nil || err2 != nil {
			c.Violation("testgen.crash", fmt.Sprintf("test_gen failed on a directory: %v %v\n%s", err1, err2, firstLines(goOut+coqOut, 10)), map[string]string{"dir.json": jsonStr(d)})
			continue
		}
		var gotGo, gotCoq, wantL []string
		for _, m := range reGo.FindAllStringSubmatch(goOut, -1) {
			f := ""
			if m[2] != "" {
				f = "!"
			}
			if m[1] != m[3] {
				f += "<name-mismatch>"
			}
			gotGo = append(gotGo, f+strings.ReplaceAll(m[3], "Ä", "UNI"))
		}
		for _, m := range reCoq.FindAllStringSubmatch(coqOut, -1) {
			f := ""
			if m[1] != "" {
				f = "!"
			}
			nm := strings.TrimPrefix(m[2], "test")
			if (f == "!") != strings.HasPrefix(m[3], "failing_") || strings.TrimPrefix(m[3], "failing_") != m[2] {
				f += "<inconsistent>"
			}
			gotCoq = append(gotCoq, f+strings.ReplaceAll(nm, "Ä", "UNI"))
		}
		for _, t := range want[i+1].Tests {
			f := ""
			if t.Fail == 1 {
				f = "!"
			}
			wantL = append(wantL, f+t.N)
		}
		if len(wantL) > 0 {
			nontriv++
		}
		if i < 2 {
			c.Sample(map[string]any{"dir": d, "expected": wantL})
		}
		eq := func(a, b []string) bool { return strings.Join(a, ",") == strings.Join(b, ",") }
		if !eq(gotGo, wantL) || !eq(gotCoq, wantL) {
			key := tgFindingKey(d, gotGo, gotCoq, wantL)
			c.Report(key, fmt.Sprintf("test_gen on directory %s: expected tests %v (TestGen.tla), -go gives %v, -coq gives %v ('!' = failing)", tgDescribe(d), wantL, gotGo, gotCoq),
				map[string]string{"dir.json": jsonStr(d), "go.out": goOut, "coq.out": coqOut})
			continue
		}
		// -out FILE gives the same bytes as standard output, whatever FILE held before (sampled)
		if len(wantL) > 0 && outRuns < c.Pick(4, 150) {
			outRuns++
			for _, mode := range []string{"-go", "-coq"} {
				wantOut := goOut
				if mode == "-coq" {
					wantOut = coqOut
				}
				for what, prior := range map[string][]byte{"absent": nil, "a longer file": []byte(wantOut + strings.Repeat("// stale tail\n", 40)), "a shorter file": []byte("x\n"), "the same content": []byte(wantOut)} {
					f := filepath.Join(c.Scratch, "tgdir", "out.gen")
					_ = os.Remove(f)
					if prior != nil {
						_ = os.WriteFile(f, prior, 0644)
					}
					o, err := exec.Command(tg, mode, "-out", f, root).CombinedOutput()
					got, _ := os.ReadFile(f)
					if err != nil || string(got) != wantOut {
						c.Violation("testgen.out-file", fmt.Sprintf("test_gen %s -out FILE where FILE was %s: the file differs from what the same run prints to standard output (%d vs %d bytes, err %v)\n%s", mode, what, len(got), len(wantOut), err, firstLines(string(o), 4)),
							map[string]string{"dir.json": jsonStr(d), "got.txt": string(got), "want.txt": wantOut})
						break
					}
				}
			}
		}
		// the generated Go file compiles against the package (sampled)
		if len(wantL) > 0 && (compiled < c.Pick(3, 60) || tgMustCompile(d)) && tgCompilable(d) && dirName == "semantics" {
			compiled++
			if msg := tgCompile(c, root, goOut); msg != "" {
				c.Violation("testgen.compile", "the generated Go test file does not compile against the package:\n"+msg, map[string]string{"dir.json": jsonStr(d), "go.out": goOut})
			}
		}
	}
	// a directory with more source files than the process may have open at once (the generators never needed to keep
	// files open): either the run fails, or it succeeds with every test
	{
		root := filepath.Join(c.Scratch, "tgdir", "manyfiles")
		_ = os.RemoveAll(filepath.Dir(root))
		_ = os.MkdirAll(root, 0755)
		const nFiles = 120
		for k := 0; k < nFiles; k++ {
			_ = os.WriteFile(filepath.Join(root, fmt.Sprintf("f%03d.go", k)), []byte(fmt.Sprintf("package semantics\n\nfunc testMany%d() bool {\n\treturn true\n}\n", k)), 0644)
		}
		for _, mode := range []string{"-go", "-coq"} {
			out, err := exec.Command("bash", "-c", "ulimit -n 40; exec \"$0\" \"$1\" \"$2\"", tg, mode, root).CombinedOutput()
			n := strings.Count(string(out), "testMany")
			per := map[string]int{"-go": 1, "-coq": 2}[mode]
			if err == nil && n < nFiles*per {
				c.Violation("testgen.silently-incomplete", fmt.Sprintf("test_gen %s on a directory of %d one-test files, run with at most 40 open files: exit 0 but only %d of %d mentions of the test functions: tests are missing from a run that reports success", mode, nFiles, n, nFiles*per), map[string]string{"out.txt": firstLines(string(out), 40)})
			}
		}
		c.Set("many_files_under_descriptor_limit", nFiles)
	}
	c.AddTraces(len(cases))
	c.Set("evaluations", len(cases))
	c.Set("distinct_nontrivial", nontriv)
	c.Set("compiled_samples", compiled)
	c.Set("out_file_prior_state_samples", outRuns)
	c.Set("rule", "directories = systematic (file kind x line class, alone and next to a test and a failing test) + seeded random (1-3 files, 0-4 lines); non-trivial = at least one test expected")
}

func tgDescribe(d []tgFile) string {
	var fs []string
	for _, f := range d {
		var ls []string
		for _, l := range f.Lines {
			ls = append(ls, l.Class)
		}
		fs = append(fs, f.Name+"["+strings.Join(ls, " ")+"]")
	}
	return strings.Join(fs, " ")
}

// tgFindingKey names the cause of a disagreement by the lines whose tests differ (expected but not generated, or
// generated but not expected, by either generator): the class / file kind of the first such line in the priority order
// below. A difference that involves an ordinary test line of a file that is read, or a name that is in no line of the
// directory, is "testgen.other" (never a known finding).
func tgFindingKey(d []tgFile, gotGo, gotCoq, want []string) string {
	count := func(xs []string) map[string]int {
		m := map[string]int{}
		for _, x := range xs {
			m[strings.TrimPrefix(x, "!")]++
		}
		return m
	}
	w, g1, g2 := count(want), count(gotGo), count(gotCoq)
	differs := map[string]bool{}
	flagOnly := false
	for _, m := range []map[string]int{g1, g2} {
		for n, k := range m {
			if w[n] != k {
				differs[n] = true
			}
		}
		for n, k := range w {
			if m[n] != k {
				differs[n] = true
			}
		}
	}
	if len(differs) == 0 {
		flagOnly = true // same names, different order or failing marks
	}
	type lk struct{ kind, class string }
	var hit []lk
	found := map[string]bool{}
	for _, f := range d {
		for _, l := range f.Lines {
			if differs[tgTestName(l)] || differs[l.N] {
				hit = append(hit, lk{f.Kind, l.Class})
				found[tgTestName(l)], found[l.N] = true, true
			}
		}
	}
	for n := range differs {
		if !found[n] {
			return "testgen.other"
		}
	}
	if flagOnly {
		return "testgen.other"
	}
	ordinary := map[string]bool{"test": true, "failing": true, "oneline": true, "bracecomment": true, "failingoneline": true}
	for _, h := range hit {
		if ordinary[h.class] && (h.kind == "src" || h.kind == "testish" || h.kind == "symsrc") {
			return "testgen.other"
		}
	}
	for _, h := range hit {
		if (h.kind == "gotest" || h.kind == "exttest" || h.kind == "gold") && (ordinary[h.class] || h.class == "blockline") {
			return "testgen.go-reads-" + strings.Replace(h.kind, "exttest", "gotest", 1)
		}
	}
	for _, cl := range []string{"blockline", "underscore", "unicode", "indented", "onelinecomment", "method", "captest", "commented", "disabled"} {
		for _, h := range hit {
			if h.class == cl {
				return "testgen." + cl
			}
		}
	}
	for _, h := range hit {
		if h.kind == "subdir" || h.kind == "backup" {
			return "testgen." + h.kind
		}
	}
	return "testgen.other"
}

func tgCompilable(d []tgFile) bool {
	for _, f := range d {
		if f.Kind == "gotest" || f.Kind == "exttest" {
			for _, l := range f.Lines {
				if l.Class != "helper" && l.Class != "onelinecomment" && l.Class != "commented" {
					return false
				}
			}
		}
	}
	return true
}

// tgMustCompile: directories whose generated file is always compiled (an external test file sorts first)
func tgMustCompile(d []tgFile) bool {
	return len(d) > 1 && d[0].Kind == "exttest" && tgCompilable(d)
}

func tgCompile(c *ev.Ctx, root, goOut string) string {
	mod := filepath.Dir(root)
	gomod := fmt.Sprintf("module example.com/tg\n\ngo 1.22\n\nrequire (\n\tgithub.com/goose-lang/goose v0.0.0\n\tgithub.com/stretchr/testify v1.9.0\n)\n\nreplace github.com/goose-lang/goose => %s\n", c.Repo)
	_ = os.WriteFile(filepath.Join(mod, "go.mod"), []byte(gomod), 0644)
	sum, _ := os.ReadFile(filepath.Join(c.Repo, "go.sum"))
	_ = os.WriteFile(filepath.Join(mod, "go.sum"), sum, 0644)
	_ = os.WriteFile(filepath.Join(root, "generated_test.go"), []byte(goOut), 0644)
	cmd := exec.Command("go", "vet", "./semantics/")
	cmd.Dir, cmd.Env = mod, goEnv()
	out, err := cmd.CombinedOutput()
	if err != nil && (strings.Contains(string(out), "undefined") || strings.Contains(string(out), "syntax error") || strings.Contains(string(out), "redeclared")) {
		return firstLines(string(out), 10)
	}
	return ""
}
