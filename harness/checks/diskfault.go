package checks

import (
	"bytes"
	"encoding/json"
	"fmt"
	"os"
	"os/exec"
	"path/filepath"
	"runtime"
	"strings"
	"sync"
	"sync/atomic"
	"syscall"
	"time"

	"github.com/goose-lang/goose/machine/disk"

	"verif/ev"
	"verif/tlc"
)

func init() {
	Registry["C11"] = C11
	children["disk-script"] = diskScriptChild
	children["disk-barriers"] = diskBarriersChild
}

type fdOp struct {
	Op   string `json:"op"`
	A    int    `json:"a"`
	V    int    `json:"v"`
	Fail string `json:"fail"`
	R    int    `json:"r"`
}

type fdBehaviour struct {
	Prior int    `json:"prior"`
	H     []fdOp `json:"h"`
}

type diskScript struct {
	Path string `json:"path"`
	Ops  []fdOp `json:"ops"`
	Base int    `json:"base"` // index of the first op in the whole behaviour (for markers)
}

func marker(s string) { _, _ = syscall.Write(999, []byte(s)) }

const modelBS = 4

// classifyFileBlock: value id, 0, -7 (buffer untouched = stale), -5 (prefix of the prior pattern then zeros), -9 other
func classifyFileBlock(b []byte, dirty byte) int {
	if v := classifyFast(b); v != rTORN {
		return v
	}
	stale := true
	for _, x := range b {
		if x != dirty {
			stale = false
			break
		}
	}
	if stale {
		return -7
	}
	for v := 1; v <= 8; v++ {
		p := pattern(v)
		k := 0
		for k < len(b) && b[k] == p[k] {
			k++
		}
		if k > 0 && k < len(b) {
			rest := true
			for _, x := range b[k:] {
				if x != 0 {
					rest = false
					break
				}
			}
			if rest {
				return -5
			}
		}
	}
	return -9
}

// diskScriptChild executes a script against FileDisk; every API call is preceded by a marker.
func diskScriptChild(args []string) int {
	runtime.LockOSThread() // all system calls of the script come from one thread (strace counts per thread)
	b, err := os.ReadFile(args[0])
	if err != nil {
		return 4
	}
	var sc diskScript
	if json.Unmarshal(b, &sc) != nil {
		return 4
	}
	var d disk.Disk
	out := func(f string, a ...any) { _, _ = syscall.Write(1, []byte(fmt.Sprintf(f, a...)+"\n")) }
	for i, op := range sc.Ops {
		k := sc.Base + i
		marker(fmt.Sprintf("op %d %s %d", k, op.Op, op.A))
		panicked := false
		msg := ""
		res := 0
		func() {
			defer func() {
				if e := recover(); e != nil {
					panicked, msg = true, fmt.Sprint(e)
				}
			}()
			switch op.Op {
			case "open":
				fd, err := disk.NewFileDisk(sc.Path, uint64(op.A))
				if err != nil {
					res, msg = -1, err.Error()
					return
				}
				d = fd
			case "write":
				d.Write(uint64(op.A), pattern(op.V))
			case "read":
				buf := bytes.Repeat([]byte{0xEE}, 4096)
				d.ReadTo(uint64(op.A), buf)
				res = classifyFileBlock(buf, 0xEE)
			case "barrier":
				d.Barrier()
				// a garbage collection (with finalizers) may happen at any point of a program; make one happen here
				runtime.GC()
				time.Sleep(2 * time.Millisecond)
				runtime.GC()
			case "close":
				d.Close()
			case "size":
				res = int(d.Size())
			case "kill":
				_ = syscall.Kill(os.Getpid(), syscall.SIGKILL)
				time.Sleep(time.Second)
			}
		}()
		if panicked {
			out("PANIC %d %s", k, strings.ReplaceAll(msg, "\n", " "))
			return 3
		}
		out("RET %d %d %s", k, res, strings.ReplaceAll(msg, "\n", " "))
		if op.Op == "open" && res == -1 {
			// NewFileDisk returned an error: nothing to operate on until the next open
			d = nil
		}
	}
	return 0
}

func writePriorImage(path string, prior int) error {
	_ = os.Remove(path)
	if prior == 99 {
		return nil
	}
	q, r := prior/modelBS, prior%modelBS
	var b []byte
	for i := 0; i < q; i++ {
		b = append(b, pattern(i+1)...)
	}
	b = append(b, pattern(q + 1)[:r]...)
	return os.WriteFile(path, b, 0644)
}

// every errno below is a failed call; none may be swallowed
var faultErrnos = []string{"EIO", "EINTR", "ENOSPC", "EBADF", "EDQUOT", "EAGAIN", "EROFS", "EPERM", "EINVAL", "EOPNOTSUPP", "EFBIG", "ENOMEM"}

var failSyscall = map[string][]string{"open": {"openat", "open"}, "fstat": {"fstat", "newfstatat"}, "ftruncate": {"ftruncate"},
	"pwrite64": {"pwrite64"}, "pread64": {"pread64"}, "fsync": {"fsync"}}

// parseChildOut maps "RET k r" / "PANIC k" lines to per-op outcomes.
func parseChildOut(s string) map[int][2]int { // k -> {kind (0 ret, 1 panic), r}
	m := map[int][2]int{}
	for _, ln := range strings.Split(s, "\n") {
		var k, r int
		if n, _ := fmt.Sscanf(ln, "RET %d %d", &k, &r); n == 2 {
			m[k] = [2]int{0, r}
		} else if n, _ := fmt.Sscanf(ln, "PANIC %d", &k); n == 1 {
			m[k] = [2]int{1, 0}
		}
	}
	return m
}

func C11(c *ev.Ctx) {
	c.Level = "fault_enumeration"
	c.Assume("strace -f -e inject=... makes exactly one chosen system call fail with EIO (occurrence index calibrated in a run without injection; the driver pins its goroutine to one thread)",
		"a process crash is kill -9 between two API calls; power loss is not observable here",
		"model block = 4 model bytes; model length q*4+r is realised as q*4096+r bytes",
		"short transfer counts without an error are outside the claim (the property speaks of failed calls)")
	dir, err := c.SpecDir("spec-disk", "disk")
	if err != nil {
		c.Inconclusive("copy specs: %v", err)
		return
	}
	r := tlc.Run{Dir: dir, Module: "FileDisk", Workers: 8, Timeout: 10 * time.Minute}.Do()
	if !c.CheckTLC("FileDisk exhaustive", r) {
		return
	}
	orig := tlc.Run{Dir: dir, Module: "FileDisk", Cfg: "FileDisk_asOriginallyWritten.cfg", Workers: 4, Timeout: 5 * time.Minute}.Do()
	c.AddTLC(orig)
	if orig.Violated != "SizeExact" {
		c.Inconclusive("FileDisk_asOriginallyWritten: expected SizeExact violated (bytes compared with blocks), got %q", orig.Violated)
		return
	}
	c.Set("design_model", "FileDisk.tla: BS=4, N<=3, prior lengths {absent,0,1,2,3,4,5,8,9,12,13} model bytes, <=5 operations, <=1 injected failure; invariants SizeExact ReadPromised NoSilentFailure; the configuration with the original size comparison (bytes vs blocks) violates SizeExact")

	// behaviours from the specification
	nb := c.Pick(260, 5000)
	cfg := fmt.Sprintf("CONSTANTS\n BS = 4\n MaxN = 3\n Val = {0, 1, 2, 3}\n OpenCmp = \"bytes\"\n PriorLens = {99, 0, 1, 2, 3, 4, 5, 8, 9, 12, 13}\n MaxOps = 7\n MaxFaults = 1\n D = 7\nINIT Init\nNEXT Next\nINVARIANTS EmitHist\nCHECK_DEADLOCK FALSE\n")
	_ = os.WriteFile(filepath.Join(dir, "SimFileDisk.cfg"), []byte(cfg), 0644)
	sr := tlc.Run{Dir: dir, Module: "FileDisk", Cfg: "SimFileDisk.cfg", Workers: 1, Timeout: 10 * time.Minute,
		Args: []string{"-simulate", fmt.Sprintf("num=%d", nb*2), "-depth", "9", "-seed", fmt.Sprint(c.Seed)}}.Do()
	c.AddTLC(sr)
	if sr.TLCError || len(sr.Prints) == 0 {
		c.Inconclusive("simulation produced no behaviours:\n%s", tlc.Tail(sr.Out, 20))
		return
	}
	rr := rng(c, 11)
	// prefer behaviours that contain a fault, a kill or an interesting prior length; dedupe
	seen := map[string]bool{}
	var behs []fdBehaviour
	for _, p := range sr.Prints {
		if seen[p] {
			continue
		}
		seen[p] = true
		var b fdBehaviour
		if json.Unmarshal([]byte(p), &b) == nil && len(b.H) > 0 && b.H[0].Op == "open" {
			behs = append(behs, b)
		}
	}
	rr.Shuffle(len(behs), func(i, j int) { behs[i], behs[j] = behs[j], behs[i] })
	// systematic prior-length x N table first (the reopen clause), then sampled behaviours
	var table []fdBehaviour
	for _, prior := range []int{99, 0, 1, 2, 3, 4, 5, 8, 9, 12, 13} {
		for n := 0; n <= 3; n++ {
			h := []fdOp{{Op: "open", A: n, Fail: "none"}}
			for a := 0; a < n; a++ {
				h = append(h, fdOp{Op: "read", A: a, Fail: "none", R: -100}) // expected value computed below
			}
			h = append(h, fdOp{Op: "size", R: n}, fdOp{Op: "close"})
			table = append(table, fdBehaviour{Prior: prior, H: h})
		}
	}
	var failTable []fdBehaviour
	for _, prior := range []int{1, 3, 4, 5, 8, 9, 12, 13} {
		for n := 0; n <= 3; n++ {
			for _, f := range []string{"ftruncate", "fstat"} {
				failTable = append(failTable, fdBehaviour{Prior: prior, H: []fdOp{{Op: "open", A: n, Fail: f, R: -1}}})
			}
		}
	}
	// every errno for a failing resize of a LARGER image (the rotation below walks through faultErrnos)
	for k := 0; k < len(faultErrnos); k++ {
		failTable = append(failTable, fdBehaviour{Prior: 12, H: []fdOp{{Op: "open", A: 1 + k%2, Fail: "ftruncate", R: -1}}})
	}
	// a failing flush, for every errno (the rotation alone may skip one in a short run)
	for k := 0; k < len(faultErrnos); k++ {
		failTable = append(failTable, fdBehaviour{Prior: 99, H: []fdOp{{Op: "open", A: 2, Fail: "none"}, {Op: "write", A: 1, V: 1 + k%3, Fail: "none"}, {Op: "barrier", Fail: "fsync", R: -1}}})
	}
	// a block is written and then overwritten with zeros: on the same handle and after reopen it reads as zero
	for _, prior := range []int{99, 0, 4, 8} {
		for _, a := range []int{0, 1, 2} {
			table = append(table, fdBehaviour{Prior: prior, H: []fdOp{{Op: "open", A: 3, Fail: "none"},
				{Op: "write", A: a, V: 2, Fail: "none"}, {Op: "write", A: a, V: 0, Fail: "none"}, {Op: "read", A: a, Fail: "none", R: 0},
				{Op: "close"}, {Op: "open", A: 3, Fail: "none"}, {Op: "read", A: a, Fail: "none", R: 0}, {Op: "close"}}})
		}
	}
	if len(behs) > nb {
		behs = behs[:nb]
	}
	imgPath := filepath.Join(c.Scratch, "fault.img")
	scriptPath := filepath.Join(c.Scratch, "script.json")
	evaluations, reached := 0, map[string]bool{}
	nInject := int(c.Seed)
	var sysEvs []map[string]any
	runSegment := func(b fdBehaviour, from, to int, inject []string) straceRun {
		sc := diskScript{Path: imgPath, Ops: b.H[from:to], Base: from}
		sb, _ := json.Marshal(sc)
		_ = os.WriteFile(scriptPath, sb, 0644)
		return runStraced(c.Scratch, inject, "disk-script", scriptPath)
	}
	expectedPrior := func(prior, n, a int) int {
		L := prior
		if L == 99 {
			L = 0
		}
		switch {
		case (a+1)*modelBS <= L:
			return a + 1
		case a*modelBS >= L:
			return 0
		}
		return -5
	}
	check := func(b fdBehaviour, fromTable bool) {
		if err := writePriorImage(imgPath, b.Prior); err != nil {
			c.Inconclusive("prior image: %v", err)
			return
		}
		// split into process lifetimes at kill
		from := 0
		for from < len(b.H) {
			to := from
			for to < len(b.H) && b.H[to].Op != "kill" {
				to++
			}
			if to < len(b.H) {
				to++ // include the kill
			}
			// fault inside this segment?
			var inject []string
			for i := from; i < to; i++ {
				if f := b.H[i].Fail; f != "none" && f != "" {
					cal := runSegment(b, from, to, nil)
					if cal.Err != nil {
						c.Inconclusive("strace calibration: %v", cal.Err)
						return
					}
					// calibration run changed the image: restore by replaying is complex; instead rebuild image state:
					// calibration executes the same operations without the fault, so re-create the prior image and
					// re-run earlier segments is needed. To keep it simple faults are only injected in the FIRST segment.
					when, name := occurrenceAfterMarker(cal.Lines, fmt.Sprintf("op %d ", i), failSyscall[f]...)
					if when == 0 {
						// the call is not made in this history (e.g. no ftruncate needed): nothing to inject
						inject = nil
						b.H[i].Fail = "notreached"
					} else {
						errno := faultErrnos[nInject%len(faultErrnos)]
						nInject++
						inject = []string{fmt.Sprintf("%s:error=%s:when=%d", name, errno, when)}
						reached[fmt.Sprintf("%s@%d:%s", name, when, errno)] = true
					}
					if from == 0 {
						_ = writePriorImage(imgPath, b.Prior)
					}
				}
			}
			run := runSegment(b, from, to, inject)
			if run.Err != nil {
				c.Inconclusive("strace run: %v", run.Err)
				return
			}
			evaluations++
			outc := parseChildOut(run.Stdout)
			// syscall-level trace for DiskSyscallTrace
			sysEvs = append(sysEvs, map[string]any{"ev": "reset"})
			for _, l := range run.Lines {
				switch {
				case l.Marker != "":
					var k, a int
					var name string
					fmt.Sscanf(l.Marker, "op %d %s %d", &k, &name, &a)
					sysEvs = append(sysEvs, map[string]any{"ev": "op", "k": k, "name": name, "a": a})
				case strings.HasPrefix(l.Stdout, "RET "):
					var k, rv int
					fmt.Sscanf(l.Stdout, "RET %d %d", &k, &rv)
					sysEvs = append(sysEvs, map[string]any{"ev": "ret", "r": rv})
				case l.Name == "pwrite64" || l.Name == "pread64" || l.Name == "fsync" || l.Name == "ftruncate":
					e := map[string]any{"ev": "sys", "name": l.Name, "len": 0, "off": 0, "ret": l.Ret}
					parts := strings.Split(l.Args, ", ")
					if len(parts) >= 2 && (l.Name == "pwrite64" || l.Name == "pread64") {
						fmt.Sscan(parts[len(parts)-2], new(int))
						var ln, off int
						fmt.Sscan(parts[len(parts)-2], &ln)
						fmt.Sscan(parts[len(parts)-1], &off)
						e["len"], e["off"] = ln, off
					}
					sysEvs = append(sysEvs, e)
				}
			}
			for i := from; i < to; i++ {
				op := b.H[i]
				if op.Op == "kill" {
					continue
				}
				o, ok := outc[i]
				want := op.R
				if fromTable && op.Op == "read" && op.R == -100 {
					want = expectedPrior(b.Prior, b.H[0].A, op.A)
				}
				failing := op.Fail != "none" && op.Fail != "" && op.Fail != "notreached"
				what := ""
				switch {
				case !ok && !failing:
					what = "operation produced no outcome (child died?)"
				case failing && op.Op == "open" && !(ok && o[0] == 0 && o[1] == -1):
					what = fmt.Sprintf("NewFileDisk did not return an error although %s failed", op.Fail)
				case failing && op.Op != "open" && !(ok && o[0] == 1):
					what = fmt.Sprintf("%s returned normally although %s failed (errno injected with strace)", op.Op, op.Fail)
				case !failing && ok && o[0] == 1:
					what = "operation panicked without any failure"
				case !failing && (op.Op == "read" || op.Op == "size") && ok && o[1] != want && want != -5:
					what = fmt.Sprintf("%s returned %d, specification (FileDisk.tla) says %d (0 zero block, k pattern of block k-1 of the prior image or written value, -7 stale caller buffer, -5 partial block, -9 other)", op.Op, o[1], want)
				case !failing && op.Op == "read" && ok && want == -5 && o[1] != -5:
					what = fmt.Sprintf("read of a partially present block returned class %d, want retained bytes followed by zeros", o[1])
				}
				if what != "" {
					hb, _ := json.MarshalIndent(b, "", " ")
					key := "filedisk." + op.Op
					if op.Fail != "none" && op.Fail != "" {
						key += "." + op.Fail
					}
					c.Report(key, fmt.Sprintf("prior image %d model bytes, step %d %+v: %s\nchild output:\n%s", b.Prior, i+1, op, what, run.Stdout),
						map[string]string{"behaviour.json": string(hb), "strace.log": run.Log})
					return
				}
				if failing && op.Op == "open" && i == 0 && len(b.H) == 1 && b.Prior != 99 && b.Prior > 0 {
					// FileDisk.tla: a failed open leaves the image as it was. Reopen it (new process, no fault) with the
					// number of blocks the prior image covers and compare every block with the prior content.
					nOld := (b.Prior + modelBS - 1) / modelBS
					after := fdBehaviour{Prior: b.Prior, H: []fdOp{{Op: "open", A: nOld, Fail: "none"}}}
					for a := 0; a < nOld; a++ {
						after.H = append(after.H, fdOp{Op: "read", A: a, Fail: "none"})
					}
					after.H = append(after.H, fdOp{Op: "close"})
					ar := runSegment(after, 0, len(after.H), nil)
					ao := parseChildOut(ar.Stdout)
					evaluations++
					for k, aop := range after.H {
						if aop.Op != "read" {
							continue
						}
						want := expectedPrior(b.Prior, nOld, aop.A)
						got, ok := ao[k]
						if !ok || got[0] == 1 || (want != -5 && got[1] != want) || (want == -5 && got[1] != -5) {
							hb, _ := json.MarshalIndent(b, "", " ")
							c.Report("filedisk.open."+op.Fail+".image-lost", fmt.Sprintf("prior image %d model bytes: NewFileDisk(%d blocks) failed (%s injected) and afterwards the image no longer holds its content: block %d reads as class %v, want %d (a failed open must leave the image as it was)\nchild output:\n%s", b.Prior, op.A, op.Fail, aop.A, got, want, ar.Stdout),
								map[string]string{"behaviour.json": string(hb), "strace.log": ar.Log})
							return
						}
					}
				}
				if failing {
					return // the process panicked / open failed: rest of the behaviour is moot
				}
			}
			from = to
		}
	}
	// addresses far out of range whose BYTE offset a*4096 wraps around 2^64 onto a block that exists: refused like any
	// other out-of-range address, and after a reopen every block still equals the last value written to it
	for wi, w := range []int{1<<52 + 1, 1 << 52, 1<<53 + 2, 3<<52 + 1} {
		kind := []string{"write", "read"}[wi%2]
		if err := writePriorImage(imgPath, 99); err != nil {
			c.Inconclusive("prior image: %v", err)
			break
		}
		b := fdBehaviour{Prior: 99, H: []fdOp{{Op: "open", A: 3, Fail: "none"}, {Op: "write", A: 0, V: 1, Fail: "none"}, {Op: "write", A: 1, V: 2, Fail: "none"}, {Op: "write", A: 2, V: 3, Fail: "none"},
			{Op: kind, A: w, V: 5, Fail: "none"}, {Op: "close"}}}
		run := runSegment(b, 0, len(b.H), nil)
		if run.Err != nil {
			c.Inconclusive("strace: %v", run.Err)
			break
		}
		o, ok := parseChildOut(run.Stdout)[4]
		after := fdBehaviour{Prior: 99, H: []fdOp{{Op: "open", A: 3, Fail: "none"}, {Op: "read", A: 0, Fail: "none"}, {Op: "read", A: 1, Fail: "none"}, {Op: "read", A: 2, Fail: "none"}, {Op: "close"}}}
		ar := runSegment(after, 0, len(after.H), nil)
		ao := parseChildOut(ar.Stdout)
		evaluations += 2
		what := ""
		if !ok || o[0] != 1 {
			what = fmt.Sprintf("%s at address %d (= %d * 2^52 + %d) on a disk of 3 blocks was not refused (outcome %v)", kind, w, w>>52, w&(1<<52-1), o)
		}
		for a := 0; a < 3 && what == ""; a++ {
			if got, ok := ao[1+a]; !ok || got[0] == 1 || got[1] != a+1 {
				what = fmt.Sprintf("after a %s at address %d (= %d * 2^52 + %d) and a reopen, block %d reads as class %v, want the value %d written to it last", kind, w, w>>52, w&(1<<52-1), a, got, a+1)
			}
		}
		if what != "" {
			hb, _ := json.MarshalIndent(b, "", " ")
			c.Violation("filedisk.wrapping-address", what+"\nchild output:\n"+run.Stdout+ar.Stdout, map[string]string{"behaviour.json": string(hb), "strace.log": run.Log})
			break
		}
	}
	for _, b := range table {
		check(b, true)
		if c.NViolations() > 4 {
			break
		}
	}
	for _, b := range failTable {
		check(b, false)
		if c.NViolations() > 4 {
			break
		}
	}
	for i, b := range behs {
		// faults only in the first process lifetime (see calibration note)
		killSeen := false
		okb := true
		for _, op := range b.H {
			if op.Op == "kill" {
				killSeen = true
			}
			if killSeen && op.Fail != "none" && op.Fail != "" {
				okb = false
			}
		}
		if !okb {
			continue
		}
		if i < 2 {
			c.Sample(b)
		}
		check(b, false)
		if c.NViolations() > 4 {
			break
		}
	}
	concurrentBarriers(c)
	// validate all strace logs against DiskSyscallTrace
	if len(sysEvs) > 0 {
		tv := validateTrace(dir, "DiskSyscallTrace", sysEvs, false, 10*time.Minute)
		c.AddTLC(tv.Res)
		switch {
		case tv.Broken:
			c.Inconclusive("DiskSyscallTrace failed to run:\n%s", tlc.Tail(tv.Res.Out, 20))
		case !tv.Accepted:
			at := tv.HighWater - 1
			s := segmentStart(sysEvs, at)
			c.Violation("syscalls", fmt.Sprintf("system-call log of a FileDisk child is rejected by DiskSyscallTrace at event %d %s (an operation returned normally without its successful pwrite64/pread64/fsync, or after a failed call)\n%s",
				at-s+1, jsonStr(sysEvs[at]), window(sysEvs, at, 10, 1)), map[string]string{"trace.ndjson": ndjsonString(sysEvs[s : at+1])})
		default:
			c.AddTraces(evaluations)
		}
	}
	c.Set("evaluations", evaluations)
	c.Set("distinct_nontrivial", len(reached)+len(table))
	c.Set("rule", "evaluations = straced child runs; distinct_nontrivial = distinct (system call, occurrence) injection points whose calibration run actually reached the call + distinct (prior length, numBlocks) reopen cases")
	c.Set("injection_points_reached", keysOf(reached))
}

func keysOf(m map[string]bool) []string {
	var ks []string
	for k := range m {
		ks = append(ks, k)
	}
	sortStrings(ks)
	return ks
}

// diskBarriersChild: several goroutines call Write/Barrier on one FileDisk at the same time; prints how many Barrier
// calls returned normally and how many panicked. Under `strace -e inject=fsync:error=EIO` (every fsync fails) not a
// single Barrier may return normally, whoever issued the system call.
func diskBarriersChild(args []string) int {
	path := args[0]
	d, err := disk.NewFileDisk(path, 8)
	if err != nil {
		fmt.Println("OPENFAIL", err)
		return 3
	}
	var okN, panicN atomic.Int64
	var wg sync.WaitGroup
	for g := 0; g < 6; g++ {
		wg.Add(1)
		go func(g int) {
			defer wg.Done()
			for i := 0; i < 300; i++ {
				if i%3 == 0 {
					catchPanic(func() { d.Write(uint64(g%8), pattern(g+1)) })
				}
				if catchPanic(func() { d.Barrier() }) {
					panicN.Add(1)
				} else {
					okN.Add(1)
				}
			}
		}(g)
	}
	wg.Wait()
	fmt.Printf("BARRIERS ok=%d panicked=%d\n", okN.Load(), panicN.Load())
	return 0
}

// concurrentBarriers runs the child without and with failing fsync.
func concurrentBarriers(c *ev.Ctx) {
	self, _ := os.Executable()
	img := filepath.Join(c.Scratch, "barriers.img")
	for _, failing := range []bool{false, true} {
		_ = os.Remove(img)
		a := []string{"-f", "-qq", "-o", "/dev/null", "-e", "trace=fsync,fdatasync"}
		if failing {
			a = append(a, "-e", "inject=fsync,fdatasync:error=EIO")
		}
		a = append(a, self, "-child", "disk-barriers", img)
		out, err, timedOut := runWithDeadline(exec.Command("strace", a...), 5*time.Minute)
		var okN, pN int
		got := false
		for _, ln := range strings.Split(out, "\n") {
			if n, _ := fmt.Sscanf(ln, "BARRIERS ok=%d panicked=%d", &okN, &pN); n == 2 {
				got = true
			}
		}
		switch {
		case timedOut && hangInside(out, "machine/disk"):
			c.Violation("filedisk.barrier.concurrent-hang", "concurrent Barrier calls never finished (failing fsync="+fmt.Sprint(failing)+")\n"+tlc.Tail(out, 30), nil)
		case !got:
			c.Inconclusive("disk-barriers child gave no result (%v): %s", err, tlc.Tail(out, 10))
		case failing && okN > 0:
			c.Violation("filedisk.barrier.fsync.concurrent", fmt.Sprintf("every fsync fails (EIO injected by strace) and 6 goroutines call Barrier concurrently: %d of %d Barrier calls returned normally (a failed flush must never be reported as success, whoever issued the system call)", okN, okN+pN), nil)
		case !failing && pN > 0:
			c.Violation("filedisk.barrier.concurrent", fmt.Sprintf("%d of %d concurrent Barrier calls panicked although nothing failed", pN, okN+pN), nil)
		}
	}
}
