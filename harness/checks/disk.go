package checks

import (
	"bytes"
	"encoding/binary"
	"encoding/json"
	"fmt"
	"hash/fnv"
	"math/rand/v2"
	"os"
	"os/exec"
	"path/filepath"
	"strings"
	"sync/atomic"
	"syscall"
	"time"

	"github.com/goose-lang/goose/machine/async_disk"
	"github.com/goose-lang/goose/machine/disk"

	"verif/ev"
	"verif/tlc"
)

func init() {
	Registry["C09"] = C09
	children["c09-nostdin"] = c09NoStdinChild
}

// c09NoStdinChild: a process without standard input (a daemon; descriptor 0 is free, so the image gets it). The file
// disk must behave like the register array all the same.
func c09NoStdinChild(args []string) int {
	_ = syscall.Close(0)
	p := filepath.Join(args[0], "nostdin.img")
	_ = os.Remove(p)
	d, err := disk.NewFileDisk(p, 3)
	if err != nil {
		fmt.Println("NOSTDIN-RESULT open-error", err)
		return 0
	}
	what := "ok"
	step := func(name string, f func()) {
		if what == "ok" && catchPanic(f) {
			what = name + " panicked"
		}
	}
	step("Write", func() { d.Write(1, pattern(7)) })
	step("Read", func() {
		if v := classify(d.Read(1), 8); v != 7 {
			what = fmt.Sprintf("Read(1) after Write(1, 7) returned class %d", v)
		}
	})
	step("ReadTo", func() {
		b := bytes.Repeat([]byte{0xEE}, 4096)
		d.ReadTo(2, b)
		if v := classify(b, 8); v != 0 {
			what = fmt.Sprintf("ReadTo(2) of a fresh block returned class %d", v)
		}
	})
	step("Size", func() {
		if d.Size() != 3 {
			what = "Size() != 3"
		}
	})
	step("Barrier", func() { d.Barrier() })
	step("Close", func() { d.Close() })
	fmt.Println("NOSTDIN-RESULT", what)
	return 0
}

const (
	rPANIC = -1
	rOK    = -2
	rTORN  = -9
)

// pattern maps an abstract block value to 4096 bytes; every 8-byte word
// identifies the value, so a mixture of two values is recognisable.
func pattern(v int) []byte {
	b := make([]byte, 4096)
	if v == 0 {
		return b
	}
	for w := 0; w < 512; w++ {
		binary.LittleEndian.PutUint64(b[w*8:], uint64(v)*0x9E3779B97F4A7C15+uint64(w)*0x100000001B3)
	}
	return b
}

var patCache = map[int][]byte{}

func pat(v int) []byte {
	if p, ok := patCache[v]; ok {
		return p
	}
	p := pattern(v)
	patCache[v] = p
	return p
}

// classify maps bytes back to the abstract value, or rTORN.
func classify(b []byte, maxV int) int {
	if len(b) != 4096 {
		return rTORN
	}
	for v := 0; v <= maxV; v++ {
		if bytes.Equal(b, pat(v)) {
			return v
		}
	}
	return rTORN
}

type diskTarget struct {
	name   string
	d      disk.Disk
	global bool
	path   string
}

func (t *diskTarget) read(a uint64) []byte {
	if t.global {
		return disk.Read(a)
	}
	return t.d.Read(a)
}
func (t *diskTarget) readTo(a uint64, b []byte) {
	if t.global {
		disk.Get().ReadTo(a, b)
		return
	}
	t.d.ReadTo(a, b)
}
func (t *diskTarget) write(a uint64, b []byte) {
	if t.global {
		disk.Write(a, b)
		return
	}
	t.d.Write(a, b)
}
func (t *diskTarget) size() uint64 {
	if t.global {
		return disk.Size()
	}
	return t.d.Size()
}
func (t *diskTarget) barrier() {
	if t.global {
		disk.Barrier()
		return
	}
	t.d.Barrier()
}

var diskTargetNames = []string{"mem/disk", "file/disk", "mem/async_disk", "file/async_disk", "mem/global", "file/global"}

func openDiskTarget(name, dir string, n uint64, id int) (*diskTarget, error) {
	t := &diskTarget{name: name}
	p := filepath.Join(dir, fmt.Sprintf("disk-%d.img", id))
	_ = os.Remove(p)
	var err error
	switch name {
	case "mem/disk":
		t.d = disk.NewMemDisk(n)
	case "file/disk":
		t.d, err = disk.NewFileDisk(p, n)
		t.path = p
	case "mem/async_disk":
		t.d = async_disk.NewMemDisk(n)
	case "file/async_disk":
		t.d, err = async_disk.NewFileDisk(p, n)
		t.path = p
	case "mem/global":
		t.d = disk.NewMemDisk(n)
		t.global = true
	case "file/global":
		t.d, err = disk.NewFileDisk(p, n)
		t.global = true
		t.path = p
	}
	if err != nil {
		return nil, err
	}
	if t.global {
		disk.Init(t.d)
	}
	return t, nil
}

func (t *diskTarget) close() {
	func() {
		defer func() { _ = recover() }()
		t.d.Close()
	}()
	if t.path != "" {
		_ = os.Remove(t.path)
	}
}

func logAddr(a uint64) int {
	if a > 1<<30 {
		return -1
	}
	return int(a)
}

// realAddr: the model's "out of range" address (-1) stands for many concrete ones; they are used in turn (not drawn), so
// that a handful of out-of-range operations covers them all: the extremes, and addresses whose byte offset a*4096 wraps
// around 2^64 (or 2^63) to the offset of a block that exists.
var oorTurn atomic.Uint64

func realAddr(a int, r *rand.Rand) uint64 {
	if a >= 0 {
		return uint64(a)
	}
	c := []uint64{^uint64(0), 1 << 63, (1 << 52) + 1, 1 << 52, (1 << 52) + 2, (1 << 53) + 1, 3 << 52, (1 << 51) + 1, (1 << 63) + 1, 1 << 32, (1 << 52) + 3}
	return c[oorTurn.Add(1)%uint64(len(c))]
}

func lenBytes(len string, r *rand.Rand) int {
	switch len {
	case "short":
		return []int{4095, 0, 1, 2048}[r.IntN(4)]
	case "long":
		return []int{4097, 8192, 4096 + 512}[r.IntN(3)]
	}
	return 4096
}

// diskClient executes abstract operations against one target and observes replies.
type diskClient struct {
	t    *diskTarget
	bufs [][]byte // slot -> client owned memory (1-based)
	lens []string
	maxV int
	r    *rand.Rand
}

func newDiskClient(t *diskTarget, nbuf, maxV int, r *rand.Rand) *diskClient {
	c := &diskClient{t: t, bufs: make([][]byte, nbuf+1), lens: make([]string, nbuf+1), maxV: maxV, r: r}
	for i := 1; i <= nbuf; i++ {
		c.bufs[i] = make([]byte, 4096)
		c.lens[i] = "ok"
	}
	return c
}

func catchPanic(f func()) (panicked bool) {
	defer func() {
		if e := recover(); e != nil {
			panicked = true
		}
	}()
	f()
	return
}

// libHang records the first library call of a sequential replay that did not return (a deadlock inside the code under
// test); the check reports it and stops instead of hanging itself.
var libHang atomic.Value

// catchPanicW is catchPanic with a watchdog, for sequential replays: a call that has not returned after 20 s is
// abandoned (its goroutine leaks), recorded in libHang and reported to the caller as "panicked".
func catchPanicW(what string, f func()) (panicked bool) {
	done := make(chan bool, 1)
	go func() { done <- catchPanic(f) }()
	select {
	case p := <-done:
		return p
	case <-time.After(20 * time.Second):
		libHang.CompareAndSwap(nil, what)
		return true
	}
}

// do performs op and returns the observed reply in the encoding of DiskSem.
func (c *diskClient) do(op string, a, i, v int, ln string) int {
	switch op {
	case "read":
		var out []byte
		if catchPanicW("Read", func() { out = c.t.read(realAddr(a, c.r)) }) {
			return rPANIC
		}
		c.bufs[i], c.lens[i] = out, "ok"
		return classify(out, c.maxV)
	case "readto":
		// dirty the buffer first so that a read that transfers nothing is visible
		before := append([]byte(nil), c.bufs[i]...)
		if catchPanicW("ReadTo", func() { c.t.readTo(realAddr(a, c.r), c.bufs[i]) }) {
			if !bytes.Equal(before, c.bufs[i]) {
				return rTORN
			}
			return rPANIC
		}
		return classify(c.bufs[i], c.maxV)
	case "write":
		if catchPanicW("Write", func() { c.t.write(realAddr(a, c.r), c.bufs[i]) }) {
			return rPANIC
		}
		return rOK
	case "mutate":
		if c.lens[i] == ln && ln == "ok" {
			copy(c.bufs[i], pat(v)) // scribble in place: same memory the disk has seen
		} else {
			n := lenBytes(ln, c.r)
			nb := make([]byte, n)
			p := pat(v)
			for k := 0; k < n; k++ {
				nb[k] = p[k%4096]
			}
			c.bufs[i], c.lens[i] = nb, ln
		}
		return rOK
	case "size":
		var s uint64
		if catchPanicW("Size", func() { s = c.t.size() }) {
			return rPANIC
		}
		return logAddr(s)
	case "barrier":
		if catchPanicW("Barrier", func() { c.t.barrier() }) {
			return rPANIC
		}
		return rOK
	}
	panic("unknown op " + op)
}

type diskEv struct {
	Op  string `json:"op"`
	A   int    `json:"a"`
	I   int    `json:"i"`
	V   int    `json:"v"`
	Len string `json:"len"`
	R   int    `json:"r"`
}

func histKey(h []diskEv) uint64 {
	f := fnv.New64a()
	b, _ := json.Marshal(h)
	f.Write(b)
	return f.Sum64()
}

// nontrivialDiskHist: at least one successful write later read back at the same address.
func nontrivialDiskHist(h []diskEv) bool {
	w := map[int]bool{}
	for _, e := range h {
		if e.Op == "write" && e.R == rOK {
			w[e.A] = true
		}
		if (e.Op == "read" || e.Op == "readto") && w[e.A] {
			return true
		}
	}
	return false
}

// C09: disks are arrays of independent registers; Mem == File, all access paths.
func C09(c *ev.Ctx) {
	c.Level = "model_checking"
	c.Assume("ReadTo buffers are exactly 4096 bytes", "no operation after Close", "global wrappers used after Init",
		"TLC 1.8.0", "block patterns: 512 distinct 8-byte words per value; any other content is TORN")
	dir, err := c.SpecDir("spec-disk", "disk")
	if err != nil {
		c.Inconclusive("copy specs: %v", err)
		return
	}
	// (1) design: exhaustive check of the L1 specification
	r := tlc.Run{Dir: dir, Module: "MCDisk", Workers: 8, Timeout: 5 * time.Minute, Coverage: !c.Quick()}.Do()
	if !c.CheckTLC("MCDisk exhaustive", r) {
		return
	}
	c.Set("design_model", "MCDisk: N=2, |Val|=3, 2 buffers, probe addresses {-1,0..3}; invariants TypeOK ReadLatest ReadReturnsLatest; action properties WriteFrame SizeConst NoAlias Refusals")
	c.Set("exhaustive", true)
	imgDir := mustMkdir(filepath.Join(c.Scratch, "img"))

	// (2) spec -> code: TLC-simulated behaviours replayed on all six targets
	nb := c.Pick(400, 15000)
	depth := c.Pick(30, 60)
	cfg := fmt.Sprintf("CONSTANTS\n  N = 3\n  Val = {0, 1, 2, 3}\n  NBuf = 3\n  Probe <- MCProbe\n  D = %d\nINIT Init\nNEXT Next\nINVARIANTS EmitHist\n", depth)
	_ = os.WriteFile(filepath.Join(dir, "SimDisk.cfg"), []byte(cfg), 0644)
	sr := tlc.Run{Dir: dir, Module: "MCDisk", Cfg: "SimDisk.cfg", Workers: 1, Timeout: 10 * time.Minute,
		Args: []string{"-simulate", fmt.Sprintf("num=%d", nb), "-depth", fmt.Sprint(depth + 1), "-seed", fmt.Sprint(c.Seed)}}.Do()
	c.AddTLC(sr)
	if len(sr.Prints) == 0 || sr.TLCError {
		c.Inconclusive("simulation produced no behaviours:\n%s", tlc.Tail(sr.Out, 20))
		return
	}
	rr := rng(c, 9)
	distinct := map[uint64]bool{}
	nontriv := 0
	replayed := 0
	for bi, p := range sr.Prints {
		var h []diskEv
		if err := json.Unmarshal([]byte(p), &h); err != nil {
			c.Inconclusive("bad behaviour json: %v", err)
			return
		}
		k := histKey(h)
		if !distinct[k] {
			distinct[k] = true
			if nontrivialDiskHist(h) {
				nontriv++
			}
		}
		if bi < 2 {
			c.Sample(map[string]any{"kind": "spec->code behaviour", "history": h})
		}
		for ti, tn := range diskTargetNames {
			t, err := openDiskTarget(tn, imgDir, 3, ti)
			if err != nil {
				c.Inconclusive("open %s: %v", tn, err)
				return
			}
			cl := newDiskClient(t, 3, 3, rr)
			for si, e := range h {
				got := cl.do(e.Op, e.A, e.I, e.V, e.Len)
				if hw := libHang.Load(); hw != nil {
					hb, _ := json.MarshalIndent(h[:si+1], "", " ")
					c.Violation("disk.hang."+tn, fmt.Sprintf("target %s: %v (step %d of the behaviour) did not return within 20 s: an earlier operation of this sequence left the disk unusable (deadlock)", tn, hw, si+1), map[string]string{"history.json": string(hb)})
					return
				}
				if got != e.R {
					hb, _ := json.MarshalIndent(h[:si+1], "", " ")
					c.Violation("replay-"+tn, fmt.Sprintf("target %s step %d %+v: specification reply %d, implementation reply %d (-1 panic, -2 ok, -9 torn/other)", tn, si+1, e, e.R, got),
						map[string]string{"history.json": string(hb), "target.txt": tn})
					break
				}
			}
			t.close()
			replayed++
		}
		if c.NViolations() > 3 {
			break
		}
	}
	c.AddTraces(replayed)
	c.Set("replayed_behaviours", replayed)

	// (2b) a file-backed disk over an image that already exists: blocks beyond the previous size are new registers and
	// read as zero, whatever the image held in an even earlier, larger incarnation; the global Size() follows Init
	for _, mk := range []struct {
		name string
		open func(p string, n uint64) (disk.Disk, error)
	}{{"file/disk", func(p string, n uint64) (disk.Disk, error) { return disk.NewFileDisk(p, n) }},
		{"file/async_disk", func(p string, n uint64) (disk.Disk, error) { return async_disk.NewFileDisk(p, n) }}} {
		for _, sz := range [][3]uint64{{4, 1, 4}, {6, 0, 3}, {5, 2, 7}, {3, 3, 5}} {
			p := filepath.Join(imgDir, "reinc.img")
			_ = os.Remove(p)
			bad := ""
			d1, err := mk.open(p, sz[0])
			if err != nil {
				c.Inconclusive("open: %v", err)
				break
			}
			for a := uint64(0); a < sz[0]; a++ {
				d1.Write(a, pattern(int(a)+1))
			}
			d1.Close()
			d2, err := mk.open(p, sz[1])
			if err == nil {
				if d2.Size() != sz[1] {
					bad = fmt.Sprintf("second incarnation has Size() %d, want %d", d2.Size(), sz[1])
				}
				d2.Close()
			}
			d3, err := mk.open(p, sz[2])
			if err != nil {
				c.Inconclusive("open: %v", err)
				break
			}
			disk.Init(d3)
			if disk.Size() != sz[2] || d3.Size() != sz[2] {
				bad = fmt.Sprintf("third incarnation: Size() %d, global Size() %d, want %d", d3.Size(), disk.Size(), sz[2])
			}
			for a := uint64(0); a < sz[2] && bad == ""; a++ {
				want := 0
				if a < sz[1] && a < sz[0] {
					want = int(a) + 1
				}
				if got := classify(d3.Read(a), 16); got != want {
					bad = fmt.Sprintf("third incarnation: block %d reads as value %d, want %d (0 = zero block: it did not exist in the second incarnation)", a, got, want)
				}
			}
			d3.Close()
			_ = os.Remove(p)
			replayed++
			if bad != "" {
				c.Violation("disk.reincarnation."+mk.name, fmt.Sprintf("%s over one image opened with %d, then %d, then %d blocks: %s", mk.name, sz[0], sz[1], sz[2], bad), nil)
				break
			}
		}
	}
	// the global Size() reports the disk installed by the LAST Init
	for _, n := range []uint64{3, 0, 9, 1} {
		d := disk.NewMemDisk(n)
		disk.Init(d)
		if disk.Size() != n {
			c.Violation("disk.global-size", fmt.Sprintf("after Init(NewMemDisk(%d)) the global Size() is %d", n, disk.Size()), nil)
			break
		}
	}
	// (3) code -> spec: random driver histories validated by DiskTrace.tla
	nh := c.Pick(60, 3000)
	steps := c.Pick(80, 200)
	var evs []map[string]any
	segTarget := map[int]string{}
	sizes := []uint64{0, 1, 2, 7, 100, 15, 16, 17, 32, 48, 64, 128, 255, 256, 1000}
	for hi := 0; hi < nh; hi++ {
		n := sizes[rr.IntN(len(sizes))]
		tn := diskTargetNames[hi%len(diskTargetNames)]
		t, err := openDiskTarget(tn, imgDir, n, 100+hi%7)
		if err != nil {
			c.Inconclusive("open %s: %v", tn, err)
			return
		}
		const nbuf, maxV = 3, 7
		cl := newDiskClient(t, nbuf, maxV, rr)
		segTarget[len(evs)] = tn
		evs = append(evs, map[string]any{"ev": "reset", "n": int(n), "nbuf": nbuf, "target": tn})
		hot := []int{0, 1, int(n) - 1, int(n), int(n) + 1, -1}
		var h []diskEv
		for s := 0; s < steps; s++ {
			a := hot[rr.IntN(len(hot))]
			if rr.IntN(4) == 0 && n > 0 {
				a = rr.IntN(int(n))
			}
			if a < -1 {
				a = 0
			}
			i := 1 + rr.IntN(nbuf)
			var e map[string]any
			switch x := rr.IntN(100); {
			case x < 22:
				e = map[string]any{"ev": "read", "a": a, "i": i, "r": cl.do("read", a, i, 0, "")}
			case x < 40 && cl.lens[i] == "ok":
				e = map[string]any{"ev": "readto", "a": a, "i": i, "r": cl.do("readto", a, i, 0, "")}
			case x < 65:
				e = map[string]any{"ev": "write", "a": a, "i": i, "r": cl.do("write", a, i, 0, "")}
			case x < 90:
				v := rr.IntN(maxV + 1)
				ln := "ok"
				if y := rr.IntN(10); y == 0 {
					ln = "short"
				} else if y == 1 {
					ln = "long"
				}
				cl.do("mutate", 0, i, v, ln)
				e = map[string]any{"ev": "mutate", "i": i, "v": v, "len": ln}
			case x < 95:
				e = map[string]any{"ev": "size", "r": cl.do("size", 0, 0, 0, "")}
			default:
				e = map[string]any{"ev": "barrier", "r": cl.do("barrier", 0, 0, 0, "")}
			}
			if hw := libHang.Load(); hw != nil {
				c.Violation("disk.hang."+tn, fmt.Sprintf("target %s: %v did not return within 20 s after the operations\n%s", tn, hw, window(evs, len(evs)-1, 10, 0)), nil)
				return
			}
			evs = append(evs, e)
			r, _ := e["r"].(int)
			aa, _ := e["a"].(int)
			h = append(h, diskEv{Op: e["ev"].(string), A: aa, R: r})
		}
		k := histKey(h)
		if !distinct[k] {
			distinct[k] = true
			if nontrivialDiskHist(h) {
				nontriv++
			}
		}
		t.close()
	}
	c.Sample(map[string]any{"kind": "code->spec trace prefix", "events": evs[:12]})
	tv := validateTrace(dir, "DiskTrace", evs, false, 10*time.Minute)
	c.AddTLC(tv.Res)
	switch {
	case tv.Broken:
		c.Inconclusive("DiskTrace validation failed to run:\n%s", tlc.Tail(tv.Res.Out, 20))
	case !tv.Accepted:
		at := tv.HighWater - 1
		s := segmentStart(evs, at)
		c.Violation("trace-"+segTarget[s], fmt.Sprintf("history recorded from %s is not a behaviour of the register-array specification: event %d %s is not the specified reply\n%s",
			segTarget[s], at-s+1, jsonStr(evs[at]), window(evs, at, 8, 1)),
			map[string]string{"trace.ndjson": ndjsonString(evs[s : at+1]), "target.txt": segTarget[s]})
	default:
		c.AddTraces(nh)
	}
	c.Set("validated_histories", nh)
	c.Set("evaluations", replayed+nh)
	c.Set("distinct_nontrivial", nontriv)
	// the same in a process whose descriptor 0 is free
	{
		self, _ := os.Executable()
		out, _, timedOut := runWithDeadline(exec.Command(self, "-child", "c09-nostdin", imgDir), 60*time.Second)
		switch {
		case timedOut:
			c.Violation("file-disk-without-stdin", "a process that closed its standard input: the file disk driver never finished\n"+firstLines(out, 10), nil)
		case strings.Contains(out, "NOSTDIN-RESULT ok"):
			c.Set("process_without_stdin", "ok")
		case strings.Contains(out, "NOSTDIN-RESULT open-error"):
			c.Set("process_without_stdin", "NewFileDisk returned an error: "+firstLines(out, 1))
		default:
			c.Violation("file-disk-without-stdin", "a process that closed its standard input before opening the disk (the image gets descriptor 0): the file disk does not behave like the in-memory disk: "+firstLines(out, 6), nil)
		}
	}
	c.Set("rule", "distinct operation histories (hash of the op/address/reply sequence) that contain a successful write later read back at the same address; generated by TLC simulation of Disk.tla (replayed on 6 targets) and by the seeded Go driver (validated by DiskTrace.tla)")
}
