package checks

import (
	"bytes"
	"encoding/json"
	"fmt"
	"os"
	"os/exec"
	"path/filepath"
	"regexp"
	"sort"
	"strings"
	"time"

	"verif/ev"
	"verif/tlc"
)

func init() { Registry["C08"] = C08 }

type ffiLeaf struct {
	name, path, goPkg, ffi, use string
	builtin                     bool
}

var ffiLeaves = []ffiLeaf{
	{"mdisk", "github.com/goose-lang/goose/machine/disk", "disk", "disk", "disk.BlockSize", true},
	{"masync", "github.com/goose-lang/goose/machine/async_disk", "async_disk", "async_disk", "async_disk.BlockSize", true},
	{"pdisk", "github.com/goose-lang/primitive/disk", "disk", "disk", "disk.BlockSize", true},
	{"pasync", "github.com/goose-lang/primitive/async_disk", "async_disk", "async_disk", "async_disk.BlockSize", true},
	{"grove", "github.com/mit-pdos/gokv/grove_ffi", "grove_ffi", "grove", "grove_ffi.Magic()", true},
}
var plainBuiltins = []ffiLeaf{
	{"sync", "sync", "sync", "none", "", true},
	{"fmt", "fmt", "fmt", "none", "", true},
	{"machine", "github.com/goose-lang/goose/machine", "machine", "none", "machine.RandomUint64()", true},
}

type c08User struct {
	name    string   // u1, u2, u3
	dir     string   // directory below the case dir (may contain '.', '-', "trusted_")
	leaves  []string // FFI leaves imported (<= 2)
	users   []string // user packages imported
	builtin []string // plain builtins imported
	fileB   []string // imports repeated in the second file (subset of everything imported)
	order   []string // collection order of file a
}

type c08Case struct {
	users    []c08User
	groveDep bool // the grove_ffi stub itself imports machine/disk (hidden behind an FFI)
}

func bytesOf(s string) string {
	var xs []string
	for _, b := range []byte(s) {
		xs = append(xs, fmt.Sprint(int(b)))
	}
	return "<<" + strings.Join(xs, ", ") + ">>"
}

func tlaStrSeq(xs []string) string {
	var q []string
	for _, x := range xs {
		q = append(q, `"`+x+`"`)
	}
	return "<<" + strings.Join(q, ", ") + ">>"
}

// the two generated modules differ in their module path as well: a dotted host-like path and a path whose first
// element has no dot (legal for local modules; looks like a standard-library path to naive heuristics)
var c08Mods = map[bool]string{false: "example.com/c08-mod.x", true: "c08app/sub-m.z"}

func (cs c08Case) userPath(k int, u c08User) string {
	return fmt.Sprintf("%s/k%d/%s", c08Mods[cs.groveDep], k, u.dir)
}

// importsInOrder: the sequence of imports as goose collects them (file a then file b)
func (u c08User) importsInOrder() []string { return append(append([]string{}, u.order...), u.fileB...) }

func (cs c08Case) tla(k int) string {
	var fields []string
	for _, l := range ffiLeaves {
		imps := "<<>>"
		if l.name == "masync" {
			imps = `<<"mdisk">>` // machine/async_disk really imports machine/disk
		}
		if l.name == "pasync" {
			imps = `<<"pdisk">>`
		}
		if l.name == "grove" && cs.groveDep {
			imps = `<<"mdisk">>`
		}
		fields = append(fields, fmt.Sprintf("%s |-> [path |-> %s, imports |-> %s, ffi |-> \"%s\", builtin |-> TRUE]", l.name, bytesOf(l.path), imps, l.ffi))
	}
	for _, l := range plainBuiltins {
		fields = append(fields, fmt.Sprintf("%s |-> [path |-> %s, imports |-> <<>>, ffi |-> \"none\", builtin |-> TRUE]", l.name, bytesOf(l.path)))
	}
	var top []string
	for _, u := range cs.users {
		fields = append(fields, fmt.Sprintf("%s |-> [path |-> %s, imports |-> %s, ffi |-> \"none\", builtin |-> FALSE]", u.name, bytesOf(cs.userPath(k, u)), tlaStrSeq(u.importsInOrder())))
		top = append(top, u.name)
	}
	return fmt.Sprintf("[pkgs |-> [%s], top |-> %s]", strings.Join(fields, ",\n      "), tlaStrSeq(top))
}

// c08PkgName: the Go package name of the package in dir: its last element, or for a major-version directory (v2, v3,
// ...) the element before it, as Go modules do (import ".../kv/v2" declares package kv).
func c08PkgName(dir string) string {
	base := filepath.Base(dir)
	if regexp.MustCompile(`^v[0-9]+$`).MatchString(base) && filepath.Dir(dir) != "." {
		base = filepath.Base(filepath.Dir(dir))
	}
	return strings.NewReplacer(".", "_", "-", "_").Replace(base)
}

func leafByName(n string) (ffiLeaf, bool) {
	for _, l := range append(append([]ffiLeaf{}, ffiLeaves...), plainBuiltins...) {
		if l.name == n {
			return l, true
		}
	}
	return ffiLeaf{}, false
}

// write the Go sources of one case
func (cs c08Case) materialize(root string, k int) error {
	for _, u := range cs.users {
		d := filepath.Join(root, fmt.Sprintf("k%d", k), u.dir)
		if err := os.MkdirAll(d, 0755); err != nil {
			return err
		}
		pkgName := c08PkgName(u.dir)
		write := func(file string, imps []string, tag string) error {
			var sb strings.Builder
			fmt.Fprintf(&sb, "package %s\n\n", pkgName)
			if len(imps) > 0 {
				sb.WriteString("import (\n")
				// an import path is a string literal: double-quoted or raw (back-quoted), both survive gofmt
				for j, im := range imps {
					q := "\""
					if (k+j)%3 == 1 {
						q = "`"
					}
					if l, ok := leafByName(im); ok {
						fmt.Fprintf(&sb, "\t%s%s%s\n", q, l.path, q)
					} else {
						for _, v := range cs.users {
							if v.name == im {
								fmt.Fprintf(&sb, "\t%s%s%s\n", q, cs.userPath(k, v), q)
							}
						}
					}
				}
				sb.WriteString(")\n\n")
			}
			for j, im := range imps {
				fn := fmt.Sprintf("use%s%d", tag, j)
				if l, ok := leafByName(im); ok {
					switch l.name {
					case "sync":
						fmt.Fprintf(&sb, "func %s() *sync.Mutex {\n\treturn new(sync.Mutex)\n}\n\n", fn)
					case "fmt":
						fmt.Fprintf(&sb, "func %s() {\n\tfmt.Println(\"x\")\n}\n\n", fn)
					default:
						fmt.Fprintf(&sb, "func %s() uint64 {\n\treturn %s\n}\n\n", fn, l.use)
					}
				} else {
					for _, v := range cs.users {
						if v.name == im {
							vp := c08PkgName(v.dir)
							fmt.Fprintf(&sb, "func %s() uint64 {\n\treturn %s.Val()\n}\n\n", fn, vp)
						}
					}
				}
			}
			if tag == "A" {
				sb.WriteString("func Val() uint64 {\n\treturn 7\n}\n")
			}
			return os.WriteFile(filepath.Join(d, file), []byte(sb.String()), 0644)
		}
		if err := write("a.go", u.order, "A"); err != nil {
			return err
		}
		if len(u.fileB) > 0 {
			if err := write("b.go", u.fileB, "B"); err != nil {
				return err
			}
		}
	}
	return nil
}

func C08(c *ev.Ctx) {
	c.Level = "model_checking"
	c.Assume("FFI packages have fixed import paths: machine/disk, machine/async_disk (imports machine/disk), primitive/disk, primitive/async_disk, and a local stub of mit-pdos/gokv/grove_ffi (importing nothing / importing machine/disk) supplied through a replace directive",
		"two packages with the same Go package name (machine/disk and primitive/disk) are imported from different files of a package",
		"a package expected to be refused is translated in an invocation of its own (the pinned tree refuses by panicking, which takes co-translated packages down: judged by C06/C07)")
	dir, err := c.SpecDir("spec-ffi", "translator")
	if err != nil {
		c.Inconclusive("copy specs: %v", err)
		return
	}
	rr := rng(c, 8)
	// ---- cases ----
	leafSets := [][]string{{}}
	for i := range ffiLeaves {
		leafSets = append(leafSets, []string{ffiLeaves[i].name})
		for j := i + 1; j < len(ffiLeaves); j++ {
			if ffiLeaves[i].goPkg == ffiLeaves[j].goPkg || true {
				leafSets = append(leafSets, []string{ffiLeaves[i].name, ffiLeaves[j].name})
			}
		}
	}
	dirs := [][]string{{"u1", "sub.dir/u2", "trusted_u3"}, {"a-b/u1", "u2", "x.y-z/u3"}, {"u1", "trusted_u2", "dash-ed/u3"},
		// sibling paths whose order as Go paths differs from the order of their mapped Coq names ('-' < '/' but '.' < '_')
		{"a-b/u1", "a/u2", "a.b/u3"},
		// a directory (not the package) named trusted_*: only the LAST element decides the trusted namespace
		{"u1", "trusted_x/u2", "trusted_y/trusted_u3"}, {"trusted_x/u1", "trusted_x/sub/u2", "u3"},
		// major-version directories: the import path ends in vN, the package is named after the element before it
		{"u1/v2", "lib-x/v3", "u3"}, {"u1", "u2/v2", "deep/er/u3/v10"}}
	mk := func(n int, pick func(opts int) int) c08Case {
		cs := c08Case{groveDep: pick(2) == 1}
		dset := dirs[pick(len(dirs))]
		for ui := 0; ui < n; ui++ {
			u := c08User{name: fmt.Sprintf("u%d", ui+1), dir: dset[ui]}
			u.leaves = leafSets[pick(len(leafSets))]
			for vj := ui + 1; vj < n; vj++ {
				if pick(2) == 1 {
					u.users = append(u.users, fmt.Sprintf("u%d", vj+1))
				}
			}
			for _, b := range plainBuiltins {
				if pick(3) == 0 {
					u.builtin = append(u.builtin, b.name)
				}
			}
			// two leaves with the same Go package name cannot share a file
			all := append(append([]string{}, u.users...), u.builtin...)
			var fileA, fileB []string
			if len(u.leaves) == 2 {
				l0, _ := leafByName(u.leaves[0])
				l1, _ := leafByName(u.leaves[1])
				if l0.goPkg == l1.goPkg {
					fileA, fileB = append(fileA, u.leaves[0]), append(fileB, u.leaves[1])
				} else {
					fileA = append(fileA, u.leaves...)
				}
			} else {
				fileA = append(fileA, u.leaves...)
			}
			fileA = append(fileA, all...)
			rr.Shuffle(len(fileA), func(i, j int) { fileA[i], fileA[j] = fileA[j], fileA[i] })
			// second file repeats some imports (in another order)
			for _, x := range fileA {
				if pick(3) == 0 {
					conflict := false
					lx, isLeaf := leafByName(x)
					for _, y := range fileB {
						if ly, ok := leafByName(y); ok && isLeaf && ly.goPkg == lx.goPkg && y != x {
							conflict = true
						}
					}
					if !conflict {
						fileB = append(fileB, x)
					}
				}
			}
			rr.Shuffle(len(fileB), func(i, j int) { fileB[i], fileB[j] = fileB[j], fileB[i] })
			u.order, u.fileB = fileA, fileB
			cs.users = append(cs.users, u)
		}
		return cs
	}
	var cases []c08Case
	n2 := c.Pick(70, 1500)
	for i := 0; i < n2; i++ {
		cases = append(cases, mk(2, rr.IntN))
	}
	for i := 0; i < c.Pick(20, 1000); i++ {
		cases = append(cases, mk(3, rr.IntN))
	}
	// systematic pairs: u1 imports exactly leaf set A and u2, u2 imports exactly leaf set B (all 16 x 16 in the thorough tier)
	step := c.Pick(5, 1)
	for a := 0; a < len(leafSets); a += 1 {
		for b := (a * 3) % step; b < len(leafSets); b += step {
			cs := c08Case{groveDep: (a+b)%2 == 0}
			u2 := c08User{name: "u2", dir: "sub.dir/u2", leaves: leafSets[b], order: leafSets[b]}
			u1 := c08User{name: "u1", dir: "u1", leaves: leafSets[a], users: []string{"u2"}}
			u1.order = append(append([]string{}, leafSets[a]...), "u2")
			split := func(u *c08User) {
				if len(u.leaves) == 2 {
					l0, _ := leafByName(u.leaves[0])
					l1, _ := leafByName(u.leaves[1])
					if l0.goPkg == l1.goPkg {
						var na []string
						for _, x := range u.order {
							if x != u.leaves[1] {
								na = append(na, x)
							}
						}
						u.order, u.fileB = na, []string{u.leaves[1]}
					}
				}
			}
			split(&u1)
			split(&u2)
			cs.users = []c08User{u1, u2}
			cases = append(cases, cs)
		}
	}
	// systematic repetition of ordinary imports across the two files of a package (collection order x,y,x etc.)
	for _, pat := range [][2][]string{{{"u2", "u3"}, {"u2"}}, {{"u3", "u2"}, {"u3"}}, {{"u2", "u3"}, {"u3", "u2"}}, {{"u3", "u2"}, {"u2", "u3"}}, {{"u2"}, {"u2"}}, {{"u2", "sync", "u3"}, {"u2", "fmt"}}} {
		for di := range dirs {
			cs := c08Case{}
			cs.users = []c08User{
				{name: "u1", dir: dirs[di][0], users: []string{"u2", "u3"}, order: pat[0], fileB: pat[1]},
				{name: "u2", dir: dirs[di][1]},
				{name: "u3", dir: dirs[di][2]},
			}
			cases = append(cases, cs)
		}
	}
	// ---- expected outcomes from the specification ----
	var sb strings.Builder
	sb.WriteString("---- MODULE FfiRun ----\nEXTENDS Ffi\nGenCases == <<\n")
	for k, cs := range cases {
		sep := ","
		if k == len(cases)-1 {
			sep = ""
		}
		sb.WriteString("  " + cs.tla(k) + sep + "\n")
	}
	sb.WriteString(">>\n====\n")
	_ = os.WriteFile(filepath.Join(dir, "FfiRun.tla"), []byte(sb.String()), 0644)
	_ = os.WriteFile(filepath.Join(dir, "FfiRun.cfg"), []byte("CONSTANT Cases <- GenCases\nINIT Init\nNEXT Next\nINVARIANTS Emit\n"), 0644)
	r := tlc.Run{Dir: dir, Module: "FfiRun", Workers: 8, Timeout: 15 * time.Minute, StackMB: 64}.Do()
	if !c.CheckTLC("Ffi", r) {
		return
	}
	type expPkg struct {
		Pkg      string `json:"pkg"`
		Ffi      string `json:"ffi"`
		Requires []struct {
			Trusted bool  `json:"trusted"`
			Logical []int `json:"logical"`
		} `json:"requires"`
		File []int `json:"file"`
	}
	type expCase struct {
		I int      `json:"i"`
		E []expPkg `json:"e"`
	}
	want := map[int][]expPkg{}
	for _, p := range r.Prints {
		var e expCase
		if json.Unmarshal([]byte(p), &e) == nil {
			want[e.I-1] = e.E
		}
	}
	if len(want) != len(cases) {
		c.Inconclusive("TLC evaluated %d of %d cases\n%s", len(want), len(cases), tlc.Tail(r.Out, 10))
		return
	}
	str := func(b []int) string {
		bs := make([]byte, len(b))
		for i, x := range b {
			bs[i] = byte(x)
		}
		return string(bs)
	}
	// ---- materialise: two modules (grove stub with / without its hidden dependency) ----
	mods := map[bool]string{}
	for _, gd := range []bool{false, true} {
		root := filepath.Join(c.Scratch, fmt.Sprintf("c08-%v", gd))
		_ = os.RemoveAll(root)
		_ = os.MkdirAll(filepath.Join(root, "stubs", "gokv", "grove_ffi"), 0755)
		gomod := fmt.Sprintf("module %s\n\ngo 1.22\n\nrequire (\n\tgithub.com/goose-lang/goose v0.0.0\n\tgithub.com/goose-lang/primitive v0.1.0\n\tgithub.com/mit-pdos/gokv v0.0.0\n)\n\nreplace github.com/goose-lang/goose => %s\n\nreplace github.com/mit-pdos/gokv => ./stubs/gokv\n", c08Mods[gd], c.Repo)
		_ = os.WriteFile(filepath.Join(root, "go.mod"), []byte(gomod), 0644)
		sum, _ := os.ReadFile(filepath.Join(c.Repo, "go.sum"))
		_ = os.WriteFile(filepath.Join(root, "go.sum"), sum, 0644)
		stubMod := "module github.com/mit-pdos/gokv\n\ngo 1.22\n"
		stub := "package grove_ffi\n\nfunc Magic() uint64 {\n\treturn 3\n}\n"
		if gd {
			stubMod += fmt.Sprintf("\nrequire github.com/goose-lang/goose v0.0.0\n\nreplace github.com/goose-lang/goose => %s\n", c.Repo)
			stub = "package grove_ffi\n\nimport \"github.com/goose-lang/goose/machine/disk\"\n\nfunc Magic() uint64 {\n\treturn disk.BlockSize\n}\n"
			_ = os.WriteFile(filepath.Join(root, "stubs", "gokv", "go.sum"), sum, 0644)
		}
		_ = os.WriteFile(filepath.Join(root, "stubs", "gokv", "go.mod"), []byte(stubMod), 0644)
		_ = os.WriteFile(filepath.Join(root, "stubs", "gokv", "grove_ffi", "ffi.go"), []byte(stub), 0644)
		mods[gd] = root
	}
	for k, cs := range cases {
		if err := cs.materialize(mods[cs.groveDep], k); err != nil {
			c.Inconclusive("materialize: %v", err)
			return
		}
	}
	// build check (generator sanity)
	for _, root := range mods {
		cmd := exec.Command("go", "build", "./...")
		cmd.Dir, cmd.Env = root, goEnv()
		if out, err := cmd.CombinedOutput(); err != nil {
			c.Inconclusive("generated C08 module does not build:\n%s", firstLines(string(out), 15))
			return
		}
	}
	goose := filepath.Join(c.Bin, "goose")
	run := func(root, out string, pats []string) (string, int) {
		args := append([]string{"-out", out, "-dir", root}, pats...)
		cmd := exec.Command(goose, args...)
		cmd.Env = goEnv()
		b, err := cmd.CombinedOutput()
		code := 0
		if ee, ok := err.(*exec.ExitError); ok {
			code = ee.ExitCode()
		} else if err != nil {
			code = -1
		}
		return string(b), code
	}
	evals, nontriv := 0, 0
	outDirs := map[bool]string{}
	for gd, root := range mods {
		out := filepath.Join(root, "_out")
		outDirs[gd] = out
		var pats []string
		for k, cs := range cases {
			if cs.groveDep != gd {
				continue
			}
			for ui, u := range cs.users {
				if want[k][ui].Ffi != "refused" {
					pats = append(pats, fmt.Sprintf("./k%d/%s", k, u.dir))
				}
			}
		}
		for len(pats) > 0 {
			n := min(len(pats), 150)
			msg, code := run(root, out, pats[:n])
			if code != 0 {
				// somebody misbehaved: fall back to one package per invocation for this chunk
				for _, p := range pats[:n] {
					m1, c1 := run(root, out, []string{p})
					if c1 != 0 {
						c.Violation("c08.unexpected-refusal", fmt.Sprintf("goose fails (exit %d) on package %s whose imports reach at most one FFI:\n%s", c1, p, firstLines(m1, 8)), map[string]string{"stderr.txt": m1})
					}
				}
				_ = msg
			}
			pats = pats[n:]
		}
	}
	// a package that changes between two translations into the same -out root: from the generic section form (with its
	// closing footer) to an FFI prelude (shorter file, no footer) and back; the header and footer must be those of the
	// current sources each time
	{
		root := mods[false]
		pd := filepath.Join(root, "retr", "p")
		_ = os.MkdirAll(pd, 0755)
		verA := "package p\n\nfunc A1() uint64 {\n\treturn 1\n}\n\nfunc A2() uint64 {\n\treturn A1() + 1\n}\n\nfunc A3() uint64 {\n\treturn A2() + 1\n}\n"
		verB := "package p\n\nimport \"github.com/goose-lang/goose/machine/disk\"\n\nfunc B1() uint64 {\n\treturn disk.BlockSize\n}\n"
		outH, outF := filepath.Join(root, "_out_hist"), filepath.Join(root, "_out_fresh")
		rel := strings.NewReplacer(".", "_", "-", "_").Replace(c08Mods[false]) + "/retr/p.v"
		for step, ver := range []string{verA, verB, verA, verB} {
			_ = os.WriteFile(filepath.Join(pd, "p.go"), []byte(ver), 0644)
			_ = os.RemoveAll(outF)
			m1, c1 := run(root, outH, []string{"./retr/p"})
			_, c2 := run(root, outF, []string{"./retr/p"})
			got, _ := os.ReadFile(filepath.Join(outH, rel))
			want, _ := os.ReadFile(filepath.Join(outF, rel))
			evals++
			if c1 != 0 || c2 != 0 || want == nil {
				c.Inconclusive("re-translation scenario: goose exit %d / %d\n%s", c1, c2, firstLines(m1, 5))
				break
			}
			if !bytes.Equal(got, want) {
				c.Violation("c08.header-after-retranslation", fmt.Sprintf("package retr/p translated %d times into the same -out root while its sources alternate between no FFI (section form with footer) and machine/disk (prelude, no footer): after step %d the file (%d bytes) is not what a fresh output directory gets (%d bytes): header / footer of an earlier version survive", step+1, step+1, len(got), len(want)), map[string]string{"got.v": string(got), "want.v": string(want)})
				break
			}
		}
		_ = os.RemoveAll(pd)
	}
	refusedRuns := 0
	for k, cs := range cases {
		root, out := mods[cs.groveDep], outDirs[cs.groveDep]
		for ui, u := range cs.users {
			w := want[k][ui]
			evals++
			file := filepath.Join(out, str(w.File)+".v")
			desc := fmt.Sprintf("case %d package %s (imports %v; second file %v)", k, u.dir, u.order, u.fileB)
			if w.Ffi == "refused" {
				if refusedRuns >= c.Pick(12, 150) {
					continue
				}
				refusedRuns++
				nontriv++
				msg, code := run(root, out, []string{fmt.Sprintf("./k%d/%s", k, u.dir)})
				_, statErr := os.Stat(file)
				if code == 0 || statErr == nil {
					c.Violation("c08.two-ffis-not-refused", fmt.Sprintf("%s reaches two different FFIs but goose exits %d and file present=%v", desc, code, statErr == nil), map[string]string{"stderr.txt": msg, "case.tla": cs.tla(k)})
				}
				continue
			}
			b, err := os.ReadFile(file)
			if err != nil {
				c.Violation("c08.file-placement", fmt.Sprintf("%s: expected output file %s is missing", desc, strings.TrimPrefix(file, out+"/")), map[string]string{"case.tla": cs.tla(k), "tree.txt": listTree(out)})
				continue
			}
			lines := strings.Split(string(b), "\n")
			var wantReq []string
			for _, rq := range w.Requires {
				if rq.Trusted {
					// From Perennial.goose_lang.trusted Require Import <dir>.<name> : the last component keeps its Go spelling
					lg := str(rq.Logical)
					wantReq = append(wantReq, "From Perennial.goose_lang.trusted Require Import "+lg+".")
				} else {
					wantReq = append(wantReq, "From Goose Require "+str(rq.Logical)+".")
				}
			}
			var gotReq []string
			idx := 2
			for idx < len(lines) && lines[idx] != "" && (strings.HasPrefix(lines[idx], "From Goose") || strings.HasPrefix(lines[idx], "From Perennial.goose_lang.trusted")) {
				gotReq = append(gotReq, lines[idx])
				idx++
			}
			if len(wantReq) > 0 {
				nontriv++
			}
			bad := ""
			wantHeader := "From Perennial.goose_lang Require Import ffi." + w.Ffi + "_prelude."
			if w.Ffi == "none" {
				wantHeader = "Section code."
			}
			text := string(b)
			hasFooter := strings.HasSuffix(strings.TrimRight(text, "\n"), "End code.")
			switch {
			case strings.Join(gotReq, "\n") != strings.Join(wantReq, "\n"):
				bad = fmt.Sprintf("Require lines differ: got %q, specification %q", gotReq, wantReq)
			case !strings.Contains(text, "\n"+wantHeader+"\n"):
				bad = fmt.Sprintf("expected header line %q", wantHeader)
			case w.Ffi != "none" && strings.Contains(text, "Section code."):
				bad = "a package with an FFI got the generic ext_types section"
			case (w.Ffi == "none") != hasFooter:
				bad = fmt.Sprintf("footer 'End code.' present=%v but FFI is %s", hasFooter, w.Ffi)
			case strings.Count(text, "ffi.") > 1 && strings.Count(text, "_prelude.") > 2:
				bad = "more than one FFI prelude"
			}
			if bad != "" {
				c.Violation("c08.header", desc+": "+bad, map[string]string{"emitted.v": text, "case.tla": cs.tla(k)})
			}
		}
		if c.NViolations() > 6 {
			break
		}
	}
	// ---- a root package of a module whose path has no slash ----
	{
		root := filepath.Join(c.Scratch, "c08root")
		_ = os.RemoveAll(root)
		_ = os.MkdirAll(root, 0755)
		_ = os.WriteFile(filepath.Join(root, "go.mod"), []byte("module demo.pkg-x\n\ngo 1.22\n"), 0644)
		_ = os.WriteFile(filepath.Join(root, "d.go"), []byte("package demo\n\nfunc Val() uint64 {\n\treturn 1\n}\n"), 0644)
		out := filepath.Join(root, "_out")
		msg, code := run(root, out, []string{"."})
		evals++
		if _, err := os.Stat(filepath.Join(out, "demo_pkg_x.v")); err != nil || code != 0 {
			c.Violation("c08.file-placement-root", fmt.Sprintf("root package of module demo.pkg-x: expected %s, exit %d, tree:\n%s\n%s", "demo_pkg_x.v", code, listTree(out), firstLines(msg, 5)), nil)
		}
	}
	// ---- degenerate packages: header and footer must pair up whatever (little) the package declares ----
	{
		root := filepath.Join(c.Scratch, "c08deg")
		_ = os.RemoveAll(root)
		_ = os.MkdirAll(root, 0755)
		gomod := fmt.Sprintf("module deg.example/m\n\ngo 1.22\n\nrequire github.com/goose-lang/goose v0.0.0\n\nreplace github.com/goose-lang/goose => %s\n", c.Repo)
		_ = os.WriteFile(filepath.Join(root, "go.mod"), []byte(gomod), 0644)
		sum, _ := os.ReadFile(filepath.Join(c.Repo, "go.sum"))
		_ = os.WriteFile(filepath.Join(root, "go.sum"), sum, 0644)
		degs := []struct{ name, src, ffi string }{
			{"empty", "package empty\n", "none"},
			{"doconly", "// Package doconly has no declarations.\npackage doconly\n", "none"},
			{"constonly", "package constonly\n\nconst K uint64 = 3\n", "none"},
			{"typeonly", "package typeonly\n\ntype T struct {\n\ta uint64\n}\n", "none"},
			{"ffiblank", "package ffiblank\n\nimport _ \"github.com/goose-lang/goose/machine/disk\"\n", "disk"},
			{"fficonst", "package fficonst\n\nimport \"github.com/goose-lang/goose/machine/disk\"\n\nconst K uint64 = disk.BlockSize\n", "disk"},
			{"twofilesempty", "package twofilesempty\n", "none"},
		}
		for _, d := range degs {
			_ = os.MkdirAll(filepath.Join(root, d.name), 0755)
			_ = os.WriteFile(filepath.Join(root, d.name, "a.go"), []byte(d.src), 0644)
			if d.name == "twofilesempty" {
				_ = os.WriteFile(filepath.Join(root, d.name, "b.go"), []byte(d.src), 0644)
			}
			out := filepath.Join(root, "_out")
			msg, code := run(root, out, []string{"./" + d.name})
			if code != 0 {
				continue // refusing a degenerate package with an error is fine
			}
			evals++
			b, err := os.ReadFile(filepath.Join(out, "deg_example", "m", d.name+".v"))
			if err != nil {
				c.Violation("c08.file-placement", fmt.Sprintf("degenerate package %s: goose exits 0 but wrote no file\n%s", d.name, firstLines(msg, 4)), map[string]string{"tree.txt": listTree(out)})
				continue
			}
			text := string(b)
			hasSection := strings.Contains(text, "\nSection code.\n")
			hasFooter := strings.HasSuffix(strings.TrimRight(text, "\n"), "End code.")
			hasPrelude := strings.Contains(text, "ffi."+d.ffi+"_prelude.")
			bad := ""
			switch {
			case d.ffi == "none" && (!hasSection || !hasFooter):
				bad = fmt.Sprintf("no FFI: expected the generic section with its closing footer (Section code. present=%v, End code. present=%v)", hasSection, hasFooter)
			case d.ffi != "none" && (!hasPrelude || hasSection || hasFooter):
				bad = fmt.Sprintf("FFI %s: expected its prelude and no section (prelude=%v, Section code.=%v, End code.=%v)", d.ffi, hasPrelude, hasSection, hasFooter)
			}
			if bad != "" {
				c.Violation("c08.header", fmt.Sprintf("degenerate package %s (%q): %s", d.name, d.src, bad), map[string]string{"emitted.v": text})
			}
		}
	}
	// ---- partial files (-ignore-errors) carry the same header and footer; a package whose clause differs from its
	// directory name is required under its import path ----
	{
		root := filepath.Join(c.Scratch, "c08part")
		_ = os.RemoveAll(root)
		_ = os.MkdirAll(root, 0755)
		gomod := fmt.Sprintf("module part.example/m\n\ngo 1.22\n\nrequire github.com/goose-lang/goose v0.0.0\n\nreplace github.com/goose-lang/goose => %s\n", c.Repo)
		_ = os.WriteFile(filepath.Join(root, "go.mod"), []byte(gomod), 0644)
		sum, _ := os.ReadFile(filepath.Join(c.Repo, "go.sum"))
		_ = os.WriteFile(filepath.Join(root, "go.sum"), sum, 0644)
		bad := "\nfunc Bad(x uint64) uint64 {\n\tdefer func() {}()\n\treturn x\n}\n"
		write := func(dir, src string) {
			_ = os.MkdirAll(filepath.Join(root, dir), 0755)
			_ = os.WriteFile(filepath.Join(root, dir, "a.go"), []byte(src), 0644)
		}
		write("journal", "package jrnl\n\nfunc Val() uint64 {\n\treturn 3\n}\n")
		write("partnone", "package partnone\n\nimport \"part.example/m/journal\"\n\nfunc Ok() uint64 {\n\treturn jrnl.Val()\n}\n"+bad)
		write("partdisk", "package partdisk\n\nimport \"github.com/goose-lang/goose/machine/disk\"\n\nfunc Ok() uint64 {\n\treturn disk.BlockSize\n}\n"+bad)
		write("usejrnl", "package usejrnl\n\nimport \"part.example/m/journal\"\n\nfunc Ok() uint64 {\n\treturn jrnl.Val() + 1\n}\n")
		out := filepath.Join(root, "_out")
		args := []string{"-out", out, "-dir", root, "-ignore-errors", "./journal", "./partnone", "./partdisk", "./usejrnl"}
		cmd := exec.Command(goose, args...)
		cmd.Env = goEnv()
		msgb, _ := cmd.CombinedOutput()
		for _, pc := range []struct{ pkg, ffi string }{{"partnone", "none"}, {"partdisk", "disk"}, {"usejrnl", "none"}, {"journal", "none"}} {
			b, err := os.ReadFile(filepath.Join(out, "part_example", "m", pc.pkg+".v"))
			evals++
			if err != nil {
				c.Violation("c08.file-placement", fmt.Sprintf("package %s (-ignore-errors): no file at the path derived from its import path\n%s", pc.pkg, firstLines(string(msgb), 6)), map[string]string{"tree.txt": listTree(out)})
				continue
			}
			text := string(b)
			hasSection := strings.Contains(text, "\nSection code.\n")
			hasFooter := strings.HasSuffix(strings.TrimRight(text, "\n"), "End code.")
			hasPrelude := strings.Contains(text, "ffi."+pc.ffi+"_prelude.")
			what := ""
			switch {
			case pc.ffi == "none" && (!hasSection || !hasFooter):
				what = fmt.Sprintf("no FFI: expected the generic section with its closing footer (Section code. present=%v, End code. present=%v)", hasSection, hasFooter)
			case pc.ffi != "none" && (!hasPrelude || hasSection || hasFooter):
				what = fmt.Sprintf("FFI %s: expected its prelude and no section (prelude=%v, Section code.=%v, End code.=%v)", pc.ffi, hasPrelude, hasSection, hasFooter)
			case (pc.pkg == "partnone" || pc.pkg == "usejrnl") && !strings.Contains(text, "\nFrom Goose Require part_example.m.journal.\n"):
				what = "the import of part.example/m/journal (whose package clause says jrnl) must be required under its import path: From Goose Require part_example.m.journal."
			}
			if what != "" {
				c.Violation("c08.header", fmt.Sprintf("package %s (translated with -ignore-errors next to a declaration that does not translate): %s", pc.pkg, what), map[string]string{"emitted.v": text})
			}
		}
	}
	c.AddTraces(evals)
	c.Set("cases", len(cases))
	c.Set("evaluations", evals)
	c.Set("distinct_nontrivial", nontriv)
	c.Set("refused_packages_run", refusedRuns)
	c.Set("rule", "packages of seeded 2- and 3-user import graphs over the 5 FFI leaves + systematic (leaf set A, leaf set B) pairs; expected FFI / Require lines / file path computed by TLC from Ffi.tla; non-trivial = has a Require line or is expected to be refused")
	c.Sample(map[string]any{"case": cases[0].tla(0)})
}

func listTree(root string) string {
	var xs []string
	_ = filepath.Walk(root, func(p string, info os.FileInfo, err error) error {
		if err == nil && !info.IsDir() {
			r, _ := filepath.Rel(root, p)
			xs = append(xs, r)
		}
		return nil
	})
	sort.Strings(xs)
	if len(xs) > 30 {
		xs = xs[:30]
	}
	return strings.Join(xs, "\n")
}
