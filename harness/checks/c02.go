package checks

import (
	"encoding/json"
	"fmt"
	"go/ast"
	"go/parser"
	"go/token"
	"os"
	"os/exec"
	"path/filepath"
	"regexp"
	"sort"
	"strconv"
	"strings"
	"time"
	"verif/tlc"

	"verif/ev"
	"verif/goosegen"
)

func init() { Registry["C02"] = C02 }

type declInfo struct {
	names      []string
	kind       string // func | type | const | var
	start, end int
}

func topDecls(src string) ([]declInfo, error) {
	fset := token.NewFileSet()
	f, err := parser.ParseFile(fset, "gen.go", src, 0)
	if err != nil {
		return nil, err
	}
	var out []declInfo
	for _, d := range f.Decls {
		di := declInfo{start: fset.Position(d.Pos()).Line, end: fset.Position(d.End()).Line}
		switch d := d.(type) {
		case *ast.FuncDecl:
			di.kind = "func"
			n := d.Name.Name
			if d.Recv != nil && len(d.Recv.List) == 1 {
				t := d.Recv.List[0].Type
				if s, ok := t.(*ast.StarExpr); ok {
					t = s.X
				}
				if id, ok := t.(*ast.Ident); ok {
					n = id.Name + "__" + n
				}
			}
			di.names = []string{n}
		case *ast.GenDecl:
			switch d.Tok {
			case token.IMPORT:
				continue
			case token.TYPE:
				di.kind = "type"
				for _, s := range d.Specs {
					di.names = append(di.names, s.(*ast.TypeSpec).Name.Name)
				}
			case token.CONST, token.VAR:
				di.kind = "const"
				for _, s := range d.Specs {
					for _, n := range s.(*ast.ValueSpec).Names {
						di.names = append(di.names, n.Name)
					}
				}
			}
		}
		out = append(out, di)
	}
	return out, nil
}

var reSrc = regexp.MustCompile(`src: (\S+?):(\d+):(\d+)`)

// errorLines extracts (package dir name, line) of every conversion error on stderr.
func errorLines(stderr string) map[string][]int {
	out := map[string][]int{}
	for _, m := range reSrc.FindAllStringSubmatch(stderr, -1) {
		pkg := filepath.Base(filepath.Dir(m[1]))
		ln, _ := strconv.Atoi(m[2])
		out[pkg] = append(out[pkg], ln)
	}
	return out
}

type c02Item struct {
	key      string
	entry    string
	helpers  []string // function names the entry depends on (the item's own declarations)
	allNames []string
}

func C02(c *ev.Ctx) {
	c.Level = "translation_validation"
	c.Assume("same trusted base as C01 (GooseLang.tla, prelude.v, vparse, the Go toolchain)",
		"decision per top-level declaration: reported with a conversion error whose position lies inside the declaration, or emitted and then executed like C01; a declaration that is neither is 'dropped'",
		"catalogue items are inserted into generated subset packages at random positions among the declarations; look-alike items that redefine a builtin name get a package of their own")
	if !glCalibration(c, false) {
		return
	}
	mustPanicKeys = map[string]bool{"panic.taken": true, "log.panicf-taken": true, "log.panic-taken": true}
	defer func() { mustPanicKeys = nil }()
	rr := rng(c, 2)
	perPkg := 9
	npk := c.Pick(16, 480)
	if need := len(goosegen.Catalogue)/perPkg + 4; npk < need {
		npk = need // every catalogue construct at least once in every run
	}
	var pkgs []tvPackage
	items := map[string][]c02Item{} // package -> items
	n := 1000
	lookalikes := []int{}
	normal := []int{}
	for i, it := range goosegen.Catalogue {
		if strings.HasPrefix(it.Key, "lookalike.len") || strings.HasPrefix(it.Key, "lookalike.uint64") {
			lookalikes = append(lookalikes, i)
		} else {
			normal = append(normal, i)
		}
	}
	order := append([]int{}, normal...)
	rr.Shuffle(len(order), func(i, j int) { order[i], order[j] = order[j], order[i] })
	pos := 0
	for p := 0; p < npk; p++ {
		name := fmt.Sprintf("q%d", p)
		var idxs []int
		if p < len(lookalikes) {
			idxs = []int{lookalikes[p]}
		} else {
			for k := 0; k < perPkg; k++ {
				idxs = append(idxs, order[pos%len(order)])
				pos++
				if pos%len(order) == 0 {
					rr.Shuffle(len(order), func(i, j int) { order[i], order[j] = order[j], order[i] })
				}
			}
		}
		base := goosegen.Generate(goosegen.Options{Seed: uint64(c.Seed)*7919 + uint64(p), Funcs: 2, Entries: 2})
		var pieces []string
		var entries []goosegen.Entry
		entries = append(entries, base.Entries...)
		keys := map[string]bool{}
		usesMachine := false
		var std []string
		for _, ix := range idxs {
			it := goosegen.Catalogue[ix]
			n++
			en := fmt.Sprintf("centry%d", n)
			decls, entry := it.Instantiate(n, en)
			if strings.Contains(decls+entry, "machine.") {
				usesMachine = true
			}
			std = append(std, it.Imports()...)
			pieces = append(pieces, decls, entry)
			entries = append(entries, goosegen.Entry{Name: en, Keys: []string{it.Key}})
			keys["c02."+it.Key] = true
			ci := c02Item{key: it.Key, entry: en}
			if ds, err := topDecls("package x\n" + decls); err == nil {
				for _, d := range ds {
					ci.allNames = append(ci.allNames, d.names...)
					if d.kind == "func" {
						ci.helpers = append(ci.helpers, d.names...)
					}
				}
			}
			items[name] = append(items[name], ci)
		}
		// splice the item declarations at random positions among the base declarations
		src := base.Source
		if p < len(lookalikes) {
			// a package that redefines len/uint32 cannot contain ordinary generated code
			src = "package gen\n\n"
			entries = entries[len(base.Entries):]
		}
		if usesMachine && !strings.Contains(src, "goose/machine\"") {
			src = strings.Replace(src, "package gen\n\n", "package gen\n\nimport \"github.com/goose-lang/goose/machine\"\n\n", 1)
		}
		src = goosegen.AddImports(src, std)
		parts := strings.Split(src, "\n\n")
		nImp := 0
		for _, pt := range parts[1:] {
			if strings.HasPrefix(pt, "import ") {
				nImp++
			}
		}
		for _, pc := range pieces {
			at := 1 + rr.IntN(len(parts))
			if at < 1+nImp {
				at = 1 + nImp
			}
			if at > len(parts) {
				at = len(parts)
			}
			parts = append(parts[:at], append([]string{strings.TrimRight(pc, "\n")}, parts[at:]...)...)
		}
		src = strings.Join(parts, "\n\n") + "\n"
		pkgs = append(pkgs, tvPackage{Name: name, Source: src, Entries: entries, Keys: keys})
	}
	c.Sample(map[string]any{"kind": "mutated package", "source": pkgs[len(pkgs)-1].Source})

	// Go results, goose -ignore-errors, model
	m, err := newGenModule(c, "mod-c02")
	if err != nil {
		c.Inconclusive("module: %v", err)
		return
	}
	defer os.RemoveAll(m.dir)
	for _, p := range pkgs {
		var es []string
		for _, e := range p.Entries {
			es = append(es, e.Name)
		}
		_ = m.addPackage(p.Name, p.Source, es)
	}
	// gofmt is not required by goose; build check
	goRes, broken, err := m.runGo()
	if err != nil {
		c.Inconclusive("%v", err)
		return
	}
	gout := m.runGoose(c, "-ignore-errors")
	if gout.exit == 2 || strings.Contains(gout.stderr, "goroutine ") {
		c.Inconclusive("goose crashed on the C02 batch (judged by C07):\n%s", firstLines(gout.stderr, 12))
		return
	}
	errs := errorLines(gout.stderr)
	// per package: which declarations were rejected / emitted / dropped
	var evalPkgs []tvPackage
	itemStatus := map[string]string{} // pkg.entry -> status
	nRejected, nEmitted := 0, 0
	guardSites := map[string]bool{}
	for _, gm := range regexp.MustCompile(`/repo/(\w+\.go:\d+)`).FindAllStringSubmatch(gout.stderr, -1) {
		guardSites[gm[1]] = true
	}
	for _, p := range pkgs {
		if _, b := broken[p.Name]; b {
			c.Inconclusive("catalogue package %s does not compile:\n%s", p.Name, firstLines(broken[p.Name], 8))
			continue
		}
		ds, err := topDecls(p.Source)
		if err != nil {
			c.Inconclusive("parse %s: %v", p.Name, err)
			continue
		}
		rejected := map[string]bool{}
		for _, d := range ds {
			for _, ln := range errs[p.Name] {
				if ln >= d.start && ln <= d.end {
					for _, nm := range d.names {
						rejected[nm] = true
					}
				}
			}
		}
		text := gout.files[p.Name]
		defined := map[string]bool{}
		for _, mm := range regexp.MustCompile(`(?m)^(?:Definition|Notation) ([A-Za-z0-9_']+)`).FindAllStringSubmatch(text, -1) {
			defined[mm[1]] = true
		}
		var keep []goosegen.Entry
		for _, it := range items[p.Name] {
			status := "emitted"
			for _, nm := range append([]string{it.entry}, it.allNames...) {
				switch {
				case rejected[nm]:
					status = "rejected"
				case !defined[nm] && status != "rejected":
					status = "dropped:" + nm
				}
			}
			itemStatus[p.Name+"."+it.entry] = status
			switch {
			case status == "rejected":
				nRejected++
			case strings.HasPrefix(status, "dropped"):
				c.Report("c02."+it.key, fmt.Sprintf("construct %s: declaration %s is neither reported with a conversion error nor present in the emitted file (silently dropped)", it.key, strings.TrimPrefix(status, "dropped:")),
					map[string]string{"gen.go": p.Source, "emitted.v": text, "stderr.txt": gout.stderr})
			default:
				nEmitted++
				keep = append(keep, goosegen.Entry{Name: it.entry, Keys: []string{it.key}})
			}
		}
		// base entries of the package must translate like in C01 (unless the whole package is a look-alike one)
		for _, e := range p.Entries {
			if !strings.HasPrefix(e.Name, "centry") && !rejected[e.Name] {
				keep = append(keep, e)
			}
		}
		if len(keep) > 0 {
			evalPkgs = append(evalPkgs, tvPackage{Name: p.Name, Source: p.Source, Entries: keep, Keys: p.Keys})
		}
	}
	_ = goRes
	// run the emitted declarations: translateAndCompare re-runs Go and goose on the kept entries (without -ignore-errors
	// the packages with errors would produce no file, so it is given the already emitted text through a side channel)
	dis, st, ok := compareEmitted(c, "c02", evalPkgs, goRes, gout.files)
	if !ok {
		return
	}
	entryKey := map[string]string{}
	for pn, its := range items {
		for _, it := range its {
			entryKey[pn+"."+it.entry] = it.key
		}
	}
	for _, d := range dis {
		if d.Kind == "unknown-ident" || d.Kind == "no-outcome" {
			continue
		}
		k, isItem := entryKey[d.Pkg+"."+d.Entry]
		if !isItem {
			// a helper declaration of an item (e.g. an unparsable definition): find the item that owns the name
			for _, it := range items[d.Pkg] {
				for _, nm := range it.allNames {
					if nm == d.Entry {
						k, isItem = it.key, true
					}
				}
			}
		}
		key := "c02.base." + d.Kind
		if isItem {
			key = "c02." + k
		}
		var src string
		for _, p := range pkgs {
			if p.Name == d.Pkg {
				src = p.Source
			}
		}
		c.Report(key, fmt.Sprintf("construct %s (package %s entry %s) was translated without any error, but the emitted GooseLang does not behave like Go: %s: %s\n  Go:    %s\n  model: %s", k, d.Pkg, d.Entry, d.Kind, d.Detail, d.GoRes, d.ModelRes),
			map[string]string{"gen.go": src, "emitted.v": gout.files[d.Pkg], "entry.txt": d.Entry})
	}
	outcomes := map[string]string{}
	for pn, its := range items {
		for _, it := range its {
			stt := itemStatus[pn+"."+it.entry]
			if stt == "emitted" {
				stt = "emitted+agrees"
				for _, d := range dis {
					if d.Pkg == pn && d.Entry == it.entry {
						stt = "emitted+" + d.Kind
					}
				}
			}
			if old, ok := outcomes[it.key]; ok && old != stt {
				stt = old + "|" + stt
			}
			outcomes[it.key] = stt
		}
	}
	c.Set("construct_outcomes", outcomes)
	var gs []string
	for g := range guardSites {
		gs = append(gs, g)
	}
	sort.Strings(gs)
	c02Schedules(c)
	lkTried, lkExec := c02Lookalikes(c)
	// out-of-subset constructs that only show in concurrent programs (go with arguments, TryLock, RWMutex, defer of an
	// unlock, re-assigned captured variables, ...): rejected, or explored over all interleavings like C03's programs
	{
		var bps []goosegen.ConcProgram
		for _, p := range goosegen.ConcTemplates(uint64(c.Seed)) {
			if p.Boundary {
				bps = append(bps, p)
			}
		}
		nb, _, bout, ok := concRun(c, bps, "c02.conc.", "mod-c02c")
		if ok {
			c.Set("concurrent_boundary_programs", len(bps))
			c.Set("concurrent_boundary_programs_executed", nb)
			c.Set("concurrent_boundary_outcomes", bout)
		}
	}
	c.Set("lookalike_packages_tried", lkTried)
	c.Set("lookalike_packages_executed", lkExec)
	c.Set("programs", len(pkgs))
	c.Set("disagreements_checked", st.Compared)
	c.Set("constructs_rejected", nRejected)
	c.Set("constructs_emitted_and_executed", nEmitted)
	c.Set("guard_sites_reached", gs)
	c.Set("catalogue_size", len(goosegen.Catalogue))
	c.Set("evaluations", nRejected+st.Compared)
	c.Set("distinct_nontrivial", len(goosegen.Catalogue))
	c.Set("rule", "catalogue constructs inserted into generated packages; each is decided per declaration (rejected with a located error | emitted and executed on GooseLang.tla against Go | dropped); distinct_nontrivial = number of distinct catalogue constructs exercised in this run")
}

func firstLines(s string, n int) string {
	ls := strings.Split(s, "\n")
	if len(ls) > n {
		ls = ls[:n]
	}
	return strings.Join(ls, "\n")
}

var _ = exec.Command

// c02Schedules: a rejected package stays rejected (same error list as when it is translated alone) under every order in
// which the per-package workers of one invocation reach their two hook points (schedules from Workers.tla, forced on
// the real TranslatePackages): an error must not get lost because another package finished at the wrong moment.
func c02Schedules(c *ev.Ctx) {
	dir, err := c.SpecDir("spec-workers-c02", "translator")
	if err != nil {
		c.Inconclusive("copy specs: %v", err)
		return
	}
	wr := tlc.Run{Dir: dir, Module: "Workers", Workers: 1, Timeout: 5 * time.Minute}.Do()
	c.AddTLC(wr)
	var schedules [][][2]string
	for _, p := range wr.Prints {
		var sc [][2]string
		if json.Unmarshal([]byte(p), &sc) == nil {
			schedules = append(schedules, sc)
		}
	}
	if len(schedules) != 90 {
		c.Inconclusive("expected 90 worker schedules from Workers.tla, got %d", len(schedules))
		return
	}
	root := filepath.Join(c.Scratch, "c02sched")
	if err := c06Module(c, root); err != nil {
		c.Inconclusive("module: %v", err)
		return
	}
	alone := map[string]string{}
	for _, p := range []string{"failing", "failmulti"} {
		res, err := translateOnce(root, []string{p})
		if err != nil || len(res) != 1 || res[0].errs == "" {
			c.Inconclusive("reference translation of %s: %v %v", p, err, res)
			return
		}
		alone[p] = res[0].errs
	}
	n := 0
	step := c.Pick(3, 1)
	for ti, tri := range [][]string{{"failing", "plain", "geom"}, {"plain", "failmulti", "failing"}} {
		for si := (ti + int(c.Seed)) % step; si < len(schedules); si += step {
			res, err := forcedTranslate(root, tri, schedules[si])
			if err != nil {
				if strings.Contains(err.Error(), "gate") {
					c.Inconclusive("forced schedule: %v", err)
				}
				continue // a failing run is C06/C07's business
			}
			n++
			for _, r := range res {
				if want, bad := alone[r.pkg]; bad && r.errs != want {
					what := "reports a different error list"
					if r.errs == "" {
						what = "is reported as translated WITHOUT ANY ERROR (its rejected declarations are silently missing from the output)"
					}
					c.Violation("c02.rejected-package-accepted-under-schedule", fmt.Sprintf("TranslatePackages(%v) with the workers forced through the schedule %v: package %s, which is rejected with conversion errors when translated alone, %s", tri, schedules[si], r.pkg, what), nil)
					return
				}
			}
		}
	}
	c.Set("forced_worker_schedules", n)
}
