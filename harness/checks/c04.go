package checks

import (
	"fmt"
	"os"
	"path/filepath"
	"regexp"
	"sort"
	"strings"
	"time"

	"math/rand/v2"

	"verif/ev"
	"verif/goosegen"
	"verif/tlc"
	"verif/vparse"
)

func init() { Registry["C04"] = C04 }

type c04Decl struct {
	kind    string // func | struct | named | const | method
	name    string // Go name (method: method name)
	recv    int    // method: index of its struct
	refs    []c04Ref
	self    bool     // a function or method that calls itself
	extra   string   // const: second name declared by the same spec (const A, B uint64 = ...)
	shadow  []string // func: extra body lines that use a LOCAL variable named like a later package-level declaration
	ptrRecv bool     // method on a named integer type: pointer receiver
}
type c04Ref struct {
	to   int
	kind string
}

func (d c04Decl) coqName(all []c04Decl) string {
	if d.kind == "method" {
		return all[d.recv].name + "__" + d.name
	}
	return d.name
}

// reference kinds by (target kind), each usable from a function or method body
var c04BodyRefs = map[string][]string{
	"func":   {"call"},
	"method": {"method-call"},
	"struct": {"literal", "ptr-literal", "var-decl", "new", "field-select", "make-slice", "param", "ptr-param-deref", "ptr-param-field"},
	"named":  {"var-decl", "conversion", "make-slice", "param", "ptr-param-deref", "ptr-param-store"},
	"const":  {"expr", "expr-second"},
}
var c04StructRefs = map[string][]string{"struct": {"field-value", "field-slice", "field-map"}, "named": {"field-value", "field-slice"}}

func c04Render(ds []c04Decl, i int) string {
	d := ds[i]
	var params, body []string
	for k, r := range d.refs {
		t := ds[r.to]
		v := fmt.Sprintf("x%d", k)
		switch r.kind {
		case "call":
			body = append(body, fmt.Sprintf("_ = %s()", t.name))
		case "value":
			body = append(body, fmt.Sprintf("%s := %s", v, t.name), fmt.Sprintf("_ = %s", v))
		case "gcall":
			body = append(body, fmt.Sprintf("_ = %s[uint64](3, 2)", t.name))
		case "method-call":
			if ds[t.recv].kind == "named" {
				body = append(body, fmt.Sprintf("%s := new(%s)", v, ds[t.recv].name))
				if t.ptrRecv {
					body = append(body, fmt.Sprintf("_ = %s.%s()", v, t.name))
				} else {
					body = append(body, fmt.Sprintf("_ = (*%s).%s()", v, t.name))
				}
			} else {
				body = append(body, fmt.Sprintf("%s := &%s{}", v, ds[t.recv].name), fmt.Sprintf("_ = %s.%s()", v, t.name))
			}
		case "ptr-param-deref":
			// the type is reached only through the type of *x (the parameter itself is a plain pointer)
			params = append(params, fmt.Sprintf("%s *%s", v, t.name))
			body = append(body, fmt.Sprintf("%sv := *%s", v, v), fmt.Sprintf("_ = %sv", v))
		case "ptr-param-store":
			params = append(params, fmt.Sprintf("%s *%s", v, t.name))
			body = append(body, fmt.Sprintf("*%s = *%s + 1", v, v))
		case "ptr-param-field":
			params = append(params, fmt.Sprintf("%s *%s", v, t.name))
			body = append(body, fmt.Sprintf("%s.a = %s.a + 1", v, v))
		case "expr-second":
			if t.extra != "" {
				body = append(body, fmt.Sprintf("_ = %s + 2", t.extra))
			} else {
				body = append(body, fmt.Sprintf("_ = %s + 2", t.name))
			}
		case "literal":
			body = append(body, fmt.Sprintf("_ = %s{}", t.name))
		case "ptr-literal":
			body = append(body, fmt.Sprintf("_ = &%s{}", t.name))
		case "var-decl":
			body = append(body, fmt.Sprintf("var %s %s", v, t.name), fmt.Sprintf("_ = %s", v))
		case "new":
			body = append(body, fmt.Sprintf("_ = new(%s)", t.name))
		case "field-select":
			body = append(body, fmt.Sprintf("%s := &%s{}", v, t.name), fmt.Sprintf("_ = %s.a", v))
		case "make-slice":
			body = append(body, fmt.Sprintf("_ = make([]%s, 1)", t.name))
		case "param":
			params = append(params, fmt.Sprintf("%s %s", v, t.name))
		case "conversion":
			body = append(body, fmt.Sprintf("_ = %s(3)", t.name))
		case "expr":
			body = append(body, fmt.Sprintf("_ = %s + 1", t.name))
		}
	}
	body = append(body, d.shadow...)
	if d.self && d.kind == "func" && len(params) == 0 {
		body = append(body, fmt.Sprintf("_ = %s()", d.name))
	}
	if d.self && d.kind == "method" && len(params) == 0 {
		if ds[d.recv].kind == "named" && !d.ptrRecv {
			body = append(body, fmt.Sprintf("_ = (r / 2).%s()", d.name))
		} else {
			body = append(body, fmt.Sprintf("_ = r.%s()", d.name))
		}
	}
	switch d.kind {
	case "gfunc":
		// a generic function that calls itself (type argument inferred)
		return fmt.Sprintf("func %s[T any](x T, n uint64) T {\n\t%s\n\tif n == 0 {\n\t\treturn x\n\t}\n\treturn %s(x, n-1)\n}\n", d.name, strings.Join(append(body, "_ = uint64(0)"), "\n\t"), d.name)
	case "func":
		return fmt.Sprintf("func %s(%s) uint64 {\n\t%s\n\treturn 1\n}\n", d.name, strings.Join(params, ", "), strings.Join(append(body, "_ = uint64(0)"), "\n\t"))
	case "method":
		if ds[d.recv].kind == "named" {
			if d.ptrRecv {
				return fmt.Sprintf("func (r *%s) %s(%s) uint64 {\n\t%s\n\treturn uint64(*r)\n}\n", ds[d.recv].name, d.name, strings.Join(params, ", "), strings.Join(append(body, "_ = uint64(0)"), "\n\t"))
			}
			return fmt.Sprintf("func (r %s) %s(%s) uint64 {\n\t%s\n\treturn uint64(r)\n}\n", ds[d.recv].name, d.name, strings.Join(params, ", "), strings.Join(append(body, "_ = uint64(0)"), "\n\t"))
		}
		return fmt.Sprintf("func (r *%s) %s(%s) uint64 {\n\t%s\n\treturn r.a\n}\n", ds[d.recv].name, d.name, strings.Join(params, ", "), strings.Join(append(body, "_ = uint64(0)"), "\n\t"))
	case "struct":
		fs := []string{"a uint64"}
		for k, r := range d.refs {
			t := ds[r.to]
			switch r.kind {
			case "field-value":
				fs = append(fs, fmt.Sprintf("g%d %s", k, t.name))
			case "field-slice":
				fs = append(fs, fmt.Sprintf("g%d []%s", k, t.name))
			case "field-map":
				fs = append(fs, fmt.Sprintf("g%d map[uint64]%s", k, t.name))
			}
		}
		return fmt.Sprintf("type %s struct {\n\t%s\n}\n", d.name, strings.Join(fs, "\n\t"))
	case "named":
		return fmt.Sprintf("type %s uint64\n", d.name)
	case "const":
		e := "7"
		for _, r := range d.refs {
			e += " + " + ds[r.to].name
		}
		if d.extra != "" {
			return fmt.Sprintf("const %s, %s uint64 = %s, 9\n", d.name, d.extra, e)
		}
		return fmt.Sprintf("const %s uint64 = %s\n", d.name, e)
	}
	return ""
}

func C04(c *ev.Ctx) {
	c.Level = "model_checking"
	c.Assume("generated packages have an acyclic declaration dependency graph by construction (plus self-recursive functions), so every same-package mention must precede its use",
		"mentions are the Gallina identifiers of a definition body as parsed by vparse (types included); the self name of a rec: binder is a quoted variable and does not count")
	dir, err := c.SpecDir("spec-decl", "translator")
	if err != nil {
		c.Inconclusive("copy specs: %v", err)
		return
	}
	r := tlc.Run{Dir: dir, Module: "DeclOrder", Workers: 12, Timeout: 10 * time.Minute}.Do()
	if !c.CheckTLC("DeclOrder N=3 (all dependency relations)", r) {
		return
	}
	sk := tlc.Run{Dir: dir, Module: "DeclOrder", Cfg: "DeclOrder_skip.cfg", Workers: 8, Timeout: 10 * time.Minute}.Do()
	c.AddTLC(sk)
	if sk.Violated != "TopoWhenAcyclic" {
		c.Inconclusive("DeclOrder_skip: expected TopoWhenAcyclic violated, got %q", sk.Violated)
		return
	}
	if !c.Quick() {
		r4 := tlc.Run{Dir: dir, Module: "DeclOrder", Cfg: "DeclOrder4.cfg", Workers: 14, Timeout: 40 * time.Minute, HeapMB: 16000}.Do()
		if !c.CheckTLC("DeclOrder N=4 (ascending dependency sequences)", r4) {
			return
		}
	}
	c.Set("design_model", "DeclOrder.tla: all 4096 dependency relations over 3 declarations (EmittedOnce, TopoWhenAcyclic, StackBounded, Terminates); the 'skip earlier dependencies' variant violates TopoWhenAcyclic; thorough: N=4")
	c.Set("exhaustive", true)

	// ---- packages for the real translator ----
	rr := rng(c, 4)
	npk := c.Pick(120, 6000)
	m, err := newGenModule(c, "mod-c04")
	if err != nil {
		c.Inconclusive("module: %v", err)
		return
	}
	defer os.RemoveAll(m.dir)
	type pkgInfo struct {
		decls []c04Decl
		files map[string][]int // file name -> decl indices in file order
		src   map[string]string
		kw    bool // some functions are named like Coq keywords: only the names are judged (see C05 for the emitted text)
	}
	var infos []pkgInfo
	curKw := false
	emit := func(ds []c04Decl, order []int, fnames []string, randomFiles bool) {
		pi := pkgInfo{decls: ds, files: map[string][]int{}, src: map[string]string{}, kw: curKw}
		curKw = false
		for k, di := range order {
			f := fnames[0]
			if randomFiles {
				f = fnames[rr.IntN(len(fnames))]
			} else if len(fnames) > 1 {
				f = fnames[k%len(fnames)]
			}
			pi.files[f] = append(pi.files[f], di)
		}
		name := fmt.Sprintf("d%d", len(infos))
		d := filepath.Join(m.dir, name)
		_ = os.MkdirAll(d, 0755)
		for _, f := range fnames {
			var sb strings.Builder
			sb.WriteString("package gen\n\n")
			for _, di := range pi.files[f] {
				sb.WriteString(c04Render(ds, di))
				sb.WriteString("\n")
			}
			pi.src[f] = sb.String()
			_ = os.WriteFile(filepath.Join(d, f), []byte(sb.String()), 0644)
		}
		m.pkgs = append(m.pkgs, name)
		infos = append(infos, pi)
	}
	kinds := []string{"func", "func", "struct", "named", "const", "method"}
	for p := 0; p < npk; p++ {
		n := 3 + rr.IntN(4)
		var ds []c04Decl
		// topological construction: decl i may reference decls j < i (then the order is scrambled)
		for i := 0; i < n; i++ {
			k := kinds[rr.IntN(len(kinds))]
			d := c04Decl{kind: k, name: fmt.Sprintf("%s%d", map[string]string{"func": "F", "struct": "S", "named": "K", "const": "C", "method": "M"}[k], i), recv: -1}
			if p < 40 && i == n-1 {
				// systematic part: the last declaration is a function / struct using one specific reference kind
				d.kind = "func"
				d.name = fmt.Sprintf("F%d", i)
			}
			if d.kind == "method" {
				var ss []int
				for j := 0; j < i; j++ {
					if ds[j].kind == "struct" || ds[j].kind == "named" {
						ss = append(ss, j)
					}
				}
				if len(ss) == 0 {
					d.kind, d.name = "struct", fmt.Sprintf("S%d", i)
				} else {
					d.recv = ss[rr.IntN(len(ss))]
					d.ptrRecv = rr.IntN(2) == 0
				}
			}
			if d.kind == "const" && rr.IntN(3) == 0 {
				d.extra = d.name + "b"
			}
			for j := 0; j < i; j++ {
				if rr.IntN(100) >= 55 {
					continue
				}
				var opts []string
				switch d.kind {
				case "func", "method":
					opts = c04BodyRefs[ds[j].kind]
				case "struct":
					opts = c04StructRefs[ds[j].kind]
				case "const":
					if ds[j].kind == "const" {
						opts = []string{"expr"}
					}
				}
				if len(opts) == 0 {
					continue
				}
				d.refs = append(d.refs, c04Ref{to: j, kind: opts[(p+j+rr.IntN(len(opts)))%len(opts)]})
			}
			d.self = (d.kind == "func" || d.kind == "method") && rr.IntN(4) == 0
			ds = append(ds, d)
		}
		// some declarations are named like predeclared identifiers that the translator does not treat specially
		if rr.IntN(3) == 0 {
			pool := []string{"min", "max", "clear", "close", "print", "real", "imag", "recover"}
			rr.Shuffle(len(pool), func(i, j int) { pool[i], pool[j] = pool[j], pool[i] })
			pi := 0
			for i := range ds {
				if ds[i].kind == "func" && rr.IntN(2) == 0 && pi < len(pool) {
					ds[i].name = pool[pi]
					pi++
				}
			}
		}
		// other naming schemes: identifiers with non-ASCII letters that share their ASCII prefix, and functions named like
		// Coq keywords next to functions named keyword + "_" (all legal, distinct Go names)
		switch rr.IntN(8) {
		case 0, 1:
			acc := []string{"ä", "é", "ö", "ß"}[rr.IntN(4)]
			for i := range ds {
				ds[i].name = ds[i].name[:1] + acc + ds[i].name[1:]
				if ds[i].extra != "" {
					ds[i].extra = ds[i].name + "b"
				}
			}
		case 2:
			pool := []string{"end", "end_", "at", "at_", "in_", "in", "fix", "fix_", "let_", "let", "with", "with_", "mod", "mod_", "fun_", "fun", "match", "match_"}
			off := 2 * rr.IntN(len(pool)/2)
			pi := 0
			curKw = true
			for i := range ds {
				if ds[i].kind == "func" && pi < 4 {
					ds[i].name = pool[(off+pi)%len(pool)]
					pi++
				}
			}
		}
		// a function may use a LOCAL variable named like a later function that depends on it (no dependency in Go)
		for i := range ds {
			if ds[i].kind != "func" || rr.IntN(3) != 0 {
				continue
			}
			var st, later []int
			for j := 0; j < i; j++ {
				if ds[j].kind == "struct" {
					for _, rf := range ds[i].refs {
						if rf.to == j {
							st = append(st, j)
						}
					}
				}
			}
			for k := i + 1; k < len(ds); k++ {
				if ds[k].kind == "func" {
					for _, rf := range ds[k].refs {
						if rf.to == i {
							later = append(later, k)
						}
					}
				}
			}
			if len(st) == 0 || len(later) == 0 {
				continue
			}
			nm, sn := ds[later[rr.IntN(len(later))]].name, ds[st[0]].name
			ds[i].shadow = []string{fmt.Sprintf("var %s %s", nm, sn), fmt.Sprintf("%s.a = 1", nm), fmt.Sprintf("_ = %s.a", nm)}
			ds[i].self = false
		}
		// scramble the order and split into files
		order := rr.Perm(n)
		nf := 1 + rr.IntN(3)
		emit(ds, order, [][]string{{"a.go"}, {"b.go", "a.go"}, {"m.go", "z.go", "a.go"}}[nf-1], true)
	}
	// ---- systematic families: every declaration order of small dependency shapes ----
	perms := func(n int) [][]int {
		var out [][]int
		var rec func(cur []int, used []bool)
		rec = func(cur []int, used []bool) {
			if len(cur) == n {
				out = append(out, append([]int{}, cur...))
				return
			}
			for i := 0; i < n; i++ {
				if !used[i] {
					used[i] = true
					rec(append(cur, i), used)
					used[i] = false
				}
			}
		}
		rec(nil, make([]bool, n))
		return out
	}
	// (a) a type T, two functions B and C that reach it through the same reference kind, a function A that calls C
	for _, tk := range []string{"named", "struct"} {
		for _, rk := range c04BodyRefs[tk] {
			tn := map[string]string{"named": "K0", "struct": "S0"}[tk]
			ds := []c04Decl{{kind: tk, name: tn, recv: -1},
				{kind: "func", name: "F1", recv: -1, refs: []c04Ref{{to: 0, kind: rk}}},
				{kind: "func", name: "F2", recv: -1, refs: []c04Ref{{to: 0, kind: rk}}},
				{kind: "func", name: "F3", recv: -1, refs: []c04Ref{{to: 2, kind: "call"}}}}
			if rk == "param" || strings.HasPrefix(rk, "ptr-param") {
				// F2 takes a parameter: F3 cannot call it without an argument; let F3 mention F1's shape instead
				ds[3].refs = []c04Ref{{to: 2, kind: "value"}}
			}
			for pi, o := range perms(4) {
				if c.Quick() && pi%3 != int(c.Seed)%3 {
					continue
				}
				emit(ds, o, []string{"a.go"}, false)
			}
		}
	}
	// (c) a generic function that calls itself, a struct it mentions and a caller, in every order
	{
		ds := []c04Decl{{kind: "struct", name: "S0", recv: -1},
			{kind: "gfunc", name: "G1", recv: -1, refs: []c04Ref{{to: 0, kind: "literal"}}},
			{kind: "func", name: "F2", recv: -1, refs: []c04Ref{{to: 1, kind: "gcall"}}}}
		for _, o := range perms(3) {
			emit(ds, o, []string{"a.go"}, false)
		}
	}
	// (d) a function with a LOCAL variable named like a later function that calls it (no dependency in Go: the local
	// shadows the function), the variable being assigned through a field / having its field's address taken
	for _, lines := range [][]string{
		{"var F2 S0", "F2.a = 1", "_ = F2.a"},
		{"var F2 S0", "p := &F2.a", "*p = 2", "_ = F2.a"},
		{"F2 := S0{a: 1}", "_ = F2.a"},
	} {
		ds := []c04Decl{{kind: "struct", name: "S0", recv: -1},
			{kind: "func", name: "F1", recv: -1, refs: []c04Ref{{to: 0, kind: "literal"}}, shadow: lines},
			{kind: "func", name: "F2", recv: -1, refs: []c04Ref{{to: 1, kind: "call"}}}}
		for _, o := range perms(3) {
			emit(ds, o, []string{"a.go"}, false)
			emit(ds, o, []string{"z.go", "a.go"}, false)
		}
	}
	// (b) a diamond written in every order and split over two files in both directions
	{
		ds := []c04Decl{{kind: "func", name: "Leaf", recv: -1},
			{kind: "func", name: "Mid", recv: -1, refs: []c04Ref{{to: 0, kind: "call"}}},
			{kind: "func", name: "Top", recv: -1, refs: []c04Ref{{to: 1, kind: "call"}, {to: 0, kind: "call"}}},
			{kind: "func", name: "Top2", recv: -1, refs: []c04Ref{{to: 0, kind: "call"}, {to: 1, kind: "call"}}}}
		for _, o := range perms(4) {
			emit(ds, o, []string{"a.go"}, false)
			emit(ds, o, []string{"b.go", "a.go"}, true)
		}
		ss := []c04Decl{{kind: "struct", name: "SLeaf", recv: -1},
			{kind: "struct", name: "SMid", recv: -1, refs: []c04Ref{{to: 0, kind: "field-value"}}},
			{kind: "struct", name: "STop", recv: -1, refs: []c04Ref{{to: 1, kind: "field-slice"}, {to: 0, kind: "field-value"}}}}
		for _, o := range perms(3) {
			emit(ss, o, []string{"a.go"}, false)
			emit(ss, o, []string{"z.go", "a.go"}, true)
		}
	}
	gout := m.runGoose(c, "-ignore-errors")
	if gout.exit == 2 || strings.Contains(gout.stderr, "goroutine ") {
		c04CrashTriage(c, m, gout.stderr)
		return
	}
	errs := errorLines(gout.stderr)
	reDef := regexp.MustCompile(`(?m)^(?:Definition|Notation) ([\p{L}\p{N}_']+)`)
	checked, nontriv, kwOnly := 0, 0, 0
	for p, pi := range infos {
		name := fmt.Sprintf("d%d", p)
		text, ok := gout.files[name]
		if !ok || len(errs[name]) > 0 {
			// a rejected declaration is C01/C02's business; here only accepted packages are judged
			continue
		}
		checked++
		srcAll := ""
		for f, s := range pi.src {
			srcAll += "// " + f + "\n" + s + "\n"
		}
		files := map[string]string{"gen.go.txt": srcAll, "emitted.v": text}
		var order []string
		for _, mm := range reDef.FindAllStringSubmatch(text, -1) {
			order = append(order, mm[1])
		}
		pos := map[string]int{}
		dup := ""
		for i, nm := range order {
			if _, seen := pos[nm]; seen {
				dup = nm
			}
			pos[nm] = i
		}
		var want []string
		for _, d := range pi.decls {
			want = append(want, d.coqName(pi.decls))
			if d.extra != "" {
				want = append(want, d.extra)
			}
		}
		sort.Strings(want)
		got := append([]string{}, order...)
		sort.Strings(got)
		if dup != "" || strings.Join(want, ",") != strings.Join(got, ",") {
			c.Report("c04.names", fmt.Sprintf("package %s: definitions %v, expected exactly one per declaration under the documented names %v", name, order, want), files)
			continue
		}
		prog, perr := vparse.ParseFile(text)
		if perr != nil && pi.kw {
			kwOnly++
			continue
		}
		if perr != nil {
			c.Inconclusive("emitted file of %s does not parse: %v", name, perr)
			continue
		}
		hasRef := false
		for _, d := range prog.Decls {
			if d.Body == nil {
				continue
			}
			d.Body.Walk(func(n *vparse.Node) {
				if n.Kind != "id" {
					return
				}
				q, isDef := pos[n.Name]
				if isDef && n.Name == d.Name && d.Kind == "def" {
					c.Report("c04.self-call-global", fmt.Sprintf("package %s: Definition %s refers to itself as a global identifier instead of its recursive binder", name, d.Name), files)
				}
				if !isDef || n.Name == d.Name {
					return
				}
				hasRef = true
				if q > pos[d.Name] {
					// which reference kind produced this mention?
					key := "c04.use-before-def"
					for _, gd := range pi.decls {
						if gd.coqName(pi.decls) == d.Name {
							for _, rf := range gd.refs {
								if pi.decls[rf.to].coqName(pi.decls) == n.Name {
									key = fmt.Sprintf("c04.ref.%s.%s-%s", gd.kind, pi.decls[rf.to].kind, rf.kind)
								}
							}
							if gd.kind == "method" && pi.decls[gd.recv].name == n.Name {
								key = "c04.ref.method.receiver"
							}
						}
					}
					c.Report(key, fmt.Sprintf("package %s: Definition %s mentions %s, which is defined later in the file (order %v) although the declaration graph is acyclic", name, d.Name, n.Name, order), files)
				}
			})
		}
		if hasRef {
			nontriv++
		}
		if c.NViolations() > 8 {
			break
		}
	}
	c04Conversions(c)
	// ---- rich generated packages (goosegen): declarations shuffled and split over files ----
	gchecked := c04Rich(c, rr)
	c.Set("rich_packages_checked", gchecked)
	c.AddTraces(checked)
	c.Set("packages_checked", checked)
	c.Set("packages_with_coq_keyword_names_judged_by_name_only", kwOnly)
	c.Set("evaluations", checked)
	c.Set("distinct_nontrivial", nontriv)
	c.Set("rule", "seeded packages of 3-5 declarations (func, method, struct, named type, const) with a random acyclic reference graph over 16 reference kinds, random declaration order and split over 1-3 files with scrambled file names; non-trivial = at least one same-package mention")
	if len(infos) > 0 {
		srcAll := ""
		for f, s := range infos[0].src {
			srcAll += "// " + f + "\n" + s + "\n"
		}
		c.Sample(map[string]any{"package": srcAll, "emitted": gout.files["d0"]})
	}
}

// c04Rich: full-featured generated packages (every construct of the C01 generator), declarations in random order and
// split over 1-3 files with scrambled names. Mentions inside a dependency cycle (mutual recursion) are exempt.
func c04Rich(c *ev.Ctx, rr *rand.Rand) int {
	npk := c.Pick(30, 1500)
	m, err := newGenModule(c, "mod-c04r")
	if err != nil {
		c.Inconclusive("module: %v", err)
		return 0
	}
	defer os.RemoveAll(m.dir)
	srcs := map[string]string{}
	for p := 0; p < npk; p++ {
		gp := goosegen.Generate(goosegen.Options{Seed: uint64(c.Seed)*99991 + uint64(p), Funcs: 3 + p%4, Entries: 3})
		parts := strings.Split(strings.TrimSpace(gp.Source), "\n\n")
		// parts[0] = package clause, optional import, then one declaration per part
		var decls []string
		for _, pt := range parts[1:] {
			if strings.HasPrefix(pt, "import ") {
				continue
			}
			decls = append(decls, pt)
		}
		rr.Shuffle(len(decls), func(i, j int) { decls[i], decls[j] = decls[j], decls[i] })
		nf := 1 + rr.IntN(3)
		fnames := [][]string{{"a.go"}, {"n.go", "b.go"}, {"m.go", "z.go", "c.go"}}[nf-1]
		per := map[string][]string{}
		for _, d := range decls {
			f := fnames[rr.IntN(len(fnames))]
			per[f] = append(per[f], d)
		}
		name := fmt.Sprintf("r%d", p)
		dir := filepath.Join(m.dir, name)
		_ = os.MkdirAll(dir, 0755)
		all := ""
		for _, f := range fnames {
			body := strings.Join(per[f], "\n\n") + "\n"
			txt := "package gen\n\n"
			if strings.Contains(body, "machine.") {
				txt += "import \"github.com/goose-lang/goose/machine\"\n\n"
			}
			if strings.Contains(body, "disk.") {
				txt += "import \"github.com/goose-lang/goose/machine/disk\"\n\n"
			}
			txt += body
			_ = os.WriteFile(filepath.Join(dir, f), []byte(txt), 0644)
			all += "// " + f + "\n" + txt + "\n"
		}
		srcs[name] = all
		m.pkgs = append(m.pkgs, name)
	}
	gout := m.runGoose(c, "-ignore-errors")
	if gout.exit == 2 || strings.Contains(gout.stderr, "goroutine ") {
		c04CrashTriage(c, m, gout.stderr)
		return 0
	}
	errs := errorLines(gout.stderr)
	reDef := regexp.MustCompile(`(?m)^(?:Definition|Notation) ([\p{L}\p{N}_']+)`)
	checked := 0
	for p := 0; p < npk; p++ {
		name := fmt.Sprintf("r%d", p)
		text, ok := gout.files[name]
		if !ok || len(errs[name]) > 0 {
			continue
		}
		files := map[string]string{"gen.go.txt": srcs[name], "emitted.v": text}
		pos := map[string]int{}
		dup := ""
		var order []string
		for i, mm := range reDef.FindAllStringSubmatch(text, -1) {
			if _, seen := pos[mm[1]]; seen {
				dup = mm[1]
			}
			pos[mm[1]] = i
			order = append(order, mm[1])
		}
		if dup != "" {
			c.Report("c04.names", fmt.Sprintf("package %s: %s is defined twice", name, dup), files)
			continue
		}
		prog, perr := vparse.ParseFile(text)
		if perr != nil {
			c.Inconclusive("emitted file of %s does not parse: %v", name, perr)
			continue
		}
		checked++
		// mention graph and its cycles
		ment := map[string]map[string]bool{}
		for _, d := range prog.Decls {
			if d.Body == nil {
				continue
			}
			ment[d.Name] = map[string]bool{}
			d.Body.Walk(func(n *vparse.Node) {
				if n.Kind == "id" {
					if _, isDef := pos[n.Name]; isDef {
						ment[d.Name][n.Name] = true
					}
				}
			})
		}
		var reach func(from, to string, seen map[string]bool) bool
		reach = func(from, to string, seen map[string]bool) bool {
			if from == to {
				return true
			}
			if seen[from] {
				return false
			}
			seen[from] = true
			for k := range ment[from] {
				if reach(k, to, seen) {
					return true
				}
			}
			return false
		}
		for dn, ms := range ment {
			for mn := range ms {
				if mn == dn {
					c.Report("c04.self-call-global", fmt.Sprintf("package %s: Definition %s refers to itself as a global identifier instead of its recursive binder", name, dn), files)
					continue
				}
				if pos[mn] > pos[dn] && !reach(mn, dn, map[string]bool{}) {
					c.Report("c04.rich.use-before-def", fmt.Sprintf("package %s: Definition %s mentions %s, which is defined later (no dependency cycle between them)", name, dn, mn), files)
				}
			}
		}
		if c.NViolations() > 8 {
			break
		}
	}
	return checked
}

// c04CrashTriage: the batch made the translator abort. Every package is translated alone; a package that type-checks
// and makes goose abort yields no definition at all for any of its declarations ("exactly one definition" fails).
func c04CrashTriage(c *ev.Ctx, m *genModule, batchErr string) {
	found := 0
	all := m.pkgs
	for _, p := range all {
		m.pkgs = []string{p}
		g := m.runGoose(c, "-ignore-errors")
		if g.exit == 2 || strings.Contains(g.stderr, "goroutine ") || strings.Contains(g.stderr, "fatal error") {
			src := ""
			files, _ := filepath.Glob(filepath.Join(m.dir, p, "*.go"))
			for _, f := range files {
				b, _ := os.ReadFile(f)
				src += "// " + filepath.Base(f) + "\n" + string(b) + "\n"
			}
			c.Violation("c04.crash", fmt.Sprintf("goose aborts on package %s (exit %d): none of its declarations gets a definition\n%s", p, g.exit, firstLines(g.stderr, 8)), map[string]string{"gen.go.txt": src, "stderr.txt": firstLines(g.stderr, 60)})
			found++
			if found >= 3 {
				break
			}
		}
	}
	m.pkgs = all
	if found == 0 {
		c.Inconclusive("goose crashed on a C04 batch but on no package alone:\n%s", firstLines(batchErr, 12))
	}
}

// c04Conversions: two functions pass the same struct where the same interface is expected (both need the generated
// conversion S__to__I), a third one calls the second; every relative order, before and after the type declarations,
// in one file and in two. The conversion must be defined exactly once, before every definition that mentions it.
func c04Conversions(c *ev.Ctx) {
	m, err := newGenModule(c, "mod-c04c")
	if err != nil {
		c.Inconclusive("module: %v", err)
		return
	}
	defer os.RemoveAll(m.dir)
	types := []string{"type Shape interface {\n\tarea() uint64\n}\n", "type Sq struct {\n\tw uint64\n}\n",
		"func (s Sq) area() uint64 {\n\treturn s.w * s.w\n}\n", "func measure(s Shape) uint64 {\n\treturn s.area()\n}\n"}
	users := []string{"func U1(x uint64) uint64 {\n\tv := measure(Sq{w: x})\n\treturn v + U2(x)\n}\n",
		"func U2(x uint64) uint64 {\n\tq := Sq{w: x + 1}\n\tv := measure(q)\n\treturn v\n}\n",
		"func A0(x uint64) uint64 {\n\treturn U2(x) + 1\n}\n"}
	orders := [][]int{{0, 1, 2}, {0, 2, 1}, {1, 0, 2}, {1, 2, 0}, {2, 0, 1}, {2, 1, 0}}
	srcs := map[string]string{}
	k := 0
	for _, o := range orders {
		for _, typesFirst := range []bool{true, false} {
			for _, twoFiles := range []bool{false, true} {
				name := fmt.Sprintf("cv%d", k)
				k++
				var us []string
				for _, ix := range o {
					us = append(us, users[ix])
				}
				dir := filepath.Join(m.dir, name)
				_ = os.MkdirAll(dir, 0755)
				tsrc, usrc := strings.Join(types, "\n"), strings.Join(us, "\n")
				if twoFiles {
					fa, fb := "a.go", "b.go"
					if typesFirst {
						fa, fb = "b.go", "a.go" // the users' file sorts first
					}
					_ = os.WriteFile(filepath.Join(dir, fa), []byte("package gen\n\n"+tsrc), 0644)
					_ = os.WriteFile(filepath.Join(dir, fb), []byte("package gen\n\n"+usrc), 0644)
					srcs[name] = "// " + fa + "\n" + tsrc + "\n// " + fb + "\n" + usrc
				} else {
					body := tsrc + "\n" + usrc
					if !typesFirst {
						body = usrc + "\n" + tsrc
					}
					_ = os.WriteFile(filepath.Join(dir, "a.go"), []byte("package gen\n\n"+body), 0644)
					srcs[name] = body
				}
				m.pkgs = append(m.pkgs, name)
			}
		}
	}
	// the same packages under the flags that add source-location comments / typing lemmas to every definition
	for _, flags := range [][]string{{}, {"-source-comments"}, {"-typecheck", "-source-comments"}} {
		gout := m.runGoose(c, flags...)
		if gout.exit == 2 || strings.Contains(gout.stderr, "goroutine ") {
			c04CrashTriage(c, m, gout.stderr)
			return
		}
		reConv := regexp.MustCompile(`\b[A-Za-z0-9_]+__to__[A-Za-z0-9_]+\b`)
		for _, name := range m.pkgs {
			text, ok := gout.files[name]
			if !ok {
				continue // rejected: not judged here
			}
			files := map[string]string{"gen.go.txt": srcs[name], "emitted.v": text}
			prog, perr := vparse.ParseFile(text)
			if perr != nil {
				c.Inconclusive("emitted file of %s does not parse: %v", name, perr)
				continue
			}
			count := map[string]int{}
			for _, d := range prog.Decls {
				if d.Name != "" && (d.Kind == "def" || d.Kind == "structdecl" || d.Kind == "tydef") {
					count[d.Name]++
				}
			}
			for n, k := range count {
				if k > 1 {
					c.Report("c04.names", fmt.Sprintf("package %s: %s is defined %d times", name, n, k), files)
				}
			}
			for _, cv := range reConv.FindAllString(text, -1) {
				if count[cv] == 0 {
					c.Report("c04.conversion-undefined", fmt.Sprintf("package %s: the generated conversion %s is used but never defined", name, cv), files)
					break
				}
			}
			for _, pr := range defOrderProblems(prog) {
				c.Report("c04.conversion-order", fmt.Sprintf("package %s: %s", name, pr[1]), files)
			}
			if c.NViolations() > 8 {
				break
			}
		}
	}
}
