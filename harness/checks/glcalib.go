package checks

import (
	"fmt"
	"os"
	"os/exec"
	"path/filepath"
	"sort"
	"strings"
	"time"

	"verif/ev"
	"verif/gl"
	"verif/tlc"
)

func init() {
	Registry["selftest-gl"] = func(c *ev.Ctx) {
		c.Level = "other"
		glCalibration(c, true)
		c.Set("explanation", "GooseLang.tla calibrated on the shipped semantics package")
	}
}

// gooseTranslate runs the real goose binary on a package directory and returns the emitted .v text.
func gooseTranslate(c *ev.Ctx, modDir string, pkgPattern string, extra ...string) (map[string]string, string, int) {
	out := filepath.Join(c.Scratch, fmt.Sprintf("gout-%d", time.Now().UnixNano()))
	_ = os.MkdirAll(out, 0755)
	args := append([]string{"-out", out, "-dir", modDir}, extra...)
	args = append(args, pkgPattern)
	cmd := exec.Command(filepath.Join(c.Bin, "goose"), args...)
	cmd.Env = append(os.Environ(), "GOFLAGS=-mod=mod", "GOPROXY=off", "GOSUMDB=off", "GOTOOLCHAIN=local")
	b, err := cmd.CombinedOutput()
	code := 0
	if ee, ok := err.(*exec.ExitError); ok {
		code = ee.ExitCode()
	} else if err != nil {
		code = -1
	}
	files := map[string]string{}
	_ = filepath.Walk(out, func(p string, info os.FileInfo, err error) error {
		if err == nil && !info.IsDir() && strings.HasSuffix(p, ".v") {
			fb, _ := os.ReadFile(p)
			rel, _ := filepath.Rel(out, p)
			files[rel] = string(fb)
		}
		return nil
	})
	_ = os.RemoveAll(out)
	return files, string(b), code
}

func glSpecDir(c *ev.Ctx, name string) (string, bool) {
	dir, err := c.SpecDir(name, "gooselang", "common")
	if err != nil {
		c.Inconclusive("copy specs: %v", err)
		return "", false
	}
	return dir, true
}

// expected verdicts of the functions the repository marks as failing in Perennial's interpreter
var failingExpect = map[string]string{
	"failing_testArgumentOrder": "false", "failing_testFunctionOrdering": "false|stuck", // the latter also calls a pointer-receiver method on a := struct value (stuck)
	"failing_testEncDec32": "stuck|false", "failing_testReverseAssignOps32": "stuck",
	"failing_testU32NewtypeLen": "false|stuck", "failing_testCompareSliceToNil": "false",
	"failing_testFooBarMutation": "stuck|false", "failing_testStructUpdates": "stuck|false",
	"failing_testStringAppend": "true", "failing_testStringLength": "true",
}

// glCalibration: every shipped test* function must evaluate to #true on the machine, the failing_test*
// ones must give the recorded verdicts.
func glCalibration(c *ev.Ctx, report bool) bool {
	dir, ok := glSpecDir(c, "spec-gl-calib")
	if !ok {
		return false
	}
	files, out, code := gooseTranslate(c, c.Repo, "./internal/examples/semantics")
	if code != 0 || len(files) != 1 {
		c.Inconclusive("goose on the semantics package: exit %d, %d files\n%s", code, len(files), out)
		return false
	}
	var text string
	for _, t := range files {
		text = t
	}
	l, prog, err := gl.Load(filepath.Join(c.Verif, "spec", "gooselang", "prelude.v"), text)
	if err != nil {
		c.Inconclusive("parse: %v", err)
		return false
	}
	var names []string
	for _, d := range prog.Decls {
		// the write-ahead log on the disk FFI (disabled upstream for speed) is part of the long calibration only
		if d.Kind == "def" && (strings.HasPrefix(d.Name, "test") || strings.HasPrefix(d.Name, "failing_test") || (report && d.Name == "disabled_testWal")) {
			names = append(names, d.Name)
		}
	}
	for _, n := range names {
		l.AddTest(n, gl.CallNoArgs(n), map[string]any{"t": "bool"})
	}
	outs, r, err := gl.Run(dir, l, gl.RunOpts{Mode: "seq", Fuel: 400, Workers: 12, Timeout: 15 * time.Minute})
	c.AddTLC(r)
	if err != nil || r.TLCError || r.TimedOut {
		c.Inconclusive("TLC failed on the calibration batch: %v\n%s", err, tlc.Tail(r.Out, 30))
		return false
	}
	got := map[string]string{}
	why := map[string]string{}
	for _, o := range outs {
		v := o.St
		if o.St == "done" {
			v = string(o.Res)
			switch {
			case strings.Contains(v, `"b":true`):
				v = "true"
			case strings.Contains(v, `"b":false`):
				v = "false"
			}
		}
		got[o.Name] = v
		why[o.Name] = o.Why
	}
	bad := []string{}
	for _, n := range names {
		g, ok := got[n]
		if !ok {
			g = "no-result"
		}
		want := "true"
		if e, ok := failingExpect[n]; ok {
			want = e
		} else if strings.HasPrefix(n, "failing_") {
			want = "stuck|false|true"
		}
		okv := false
		for _, w := range strings.Split(want, "|") {
			if w == g {
				okv = true
			}
		}
		if !okv {
			bad = append(bad, fmt.Sprintf("%s: got %s (%s), want %s", n, g, why[n], want))
		}
	}
	sort.Strings(bad)
	c.Set("calibration_functions", len(names))
	c.Set("calibration_unknown_identifiers", l.UnknownList())
	if len(bad) > 0 {
		c.Inconclusive("calibration of GooseLang.tla failed for %d of %d shipped functions:\n%s", len(bad), len(names), strings.Join(bad, "\n"))
		return false
	}
	return true
}
