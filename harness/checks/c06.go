package checks

import (
	"bytes"
	"crypto/sha256"
	"encoding/json"
	"fmt"
	"os"
	"os/exec"
	"path/filepath"
	"runtime"
	"sort"
	"strings"
	"sync"
	"time"
	"verif/goosegen"

	goose "github.com/goose-lang/goose"

	"verif/ev"
	"verif/tlc"
)

func init() {
	Registry["C06"] = C06
	children["race-translate"] = raceTranslateChild
	c06Pkgs["failcat"] = map[string]string{"c.go": c06FailCat()}
	// more packages of the iface kind (state shared between workers is most exposed while every worker does the same)
	for k := 3; k <= 8; k++ {
		src := c06Pkgs["iface1"]["i.go"]
		if k%2 == 0 {
			src = c06Pkgs["iface2"]["j.go"]
		}
		name := fmt.Sprintf("iface%d", k)
		src = strings.Replace(strings.Replace(src, "package iface1\n", "package "+name+"\n", 1), "package iface2\n", "package "+name+"\n", 1)
		c06Pkgs[name] = map[string]string{"k.go": src}
	}
}

// c06FailCat: one package holding every catalogue construct the pinned translator rejects (and the far-outside ones):
// its error list exercises every error path and every way an error message renders Go syntax.
func c06FailCat() string {
	var body strings.Builder
	var std []string
	usesMachine := false
	n := 9000
	add := func(it goosegen.Item) {
		n++
		decls, _ := it.Instantiate(n, fmt.Sprintf("fcentry%d", n))
		if strings.Contains(decls, "machine.") {
			usesMachine = true
		}
		std = append(std, goosegen.Item{Decls: decls}.Imports()...)
		body.WriteString(decls + "\n")
	}
	for _, it := range goosegen.Catalogue {
		if goosegen.RejectedAtPin[it.Key] && !strings.HasPrefix(it.Key, "lookalike.") && it.Key != "init.func" {
			add(it)
		}
	}
	for _, it := range goosegen.FarOutside {
		add(it)
	}
	// un-keyed struct literals whose elements are not plain identifiers
	body.WriteString("type fcPair struct {\n\tA uint64\n\tB uint64\n}\n\nfunc fcLit(x uint64) fcPair {\n\treturn fcPair{uint64(1) + x, x}\n}\n\nfunc fcLit2(x uint64) fcPair {\n\treturn fcPair{fcLit(x).A, []uint64{x}[0]}\n}\n")
	src := "package gen\n\n"
	if usesMachine {
		src += "import \"github.com/goose-lang/goose/machine\"\n\n"
	}
	src = goosegen.AddImports(src+body.String(), std)
	return strings.Replace(src, "package gen\n", "package failcat\n", 1)
}

const c06Mod = "example.com/c06mod"

var c06Pkgs = map[string]map[string]string{
	"geom":    {"v.go": "package geom\n\nfunc SumAll(xs ...uint64) uint64 {\n\tvar t uint64 = 0\n\tfor _, x := range xs {\n\t\tt = t + x\n\t}\n\treturn t\n}\n", "g.go": "package geom\n\ntype Point struct {\n\tX uint64\n\tY uint64\n}\n\nfunc Origin() Point {\n\treturn Point{X: 0, Y: 0}\n}\n\nfunc Norm1(p Point) uint64 {\n\treturn p.X + p.Y\n}\n"},
	"usegeom": {"u.go": "package usegeom\n\nimport \"example.com/c06mod/geom\"\n\nfunc Shift(p geom.Point, d uint64) geom.Point {\n\treturn geom.Point{X: p.X + d, Y: p.Y}\n}\n\nfunc GetX(p *geom.Point) uint64 {\n\treturn p.X\n}\n"},
	"forward": {"a.go": "package forward\n\nfunc Top() uint64 {\n\treturn helperB() + helperA() + helperC()\n}\n", "z.go": "package forward\n\nfunc helperA() uint64 {\n\treturn 1\n}\n\nfunc helperB() uint64 {\n\treturn 2\n}\n\nfunc helperC() uint64 {\n\treturn helperA() + 3\n}\n"},
	"failing": {"f.go": "package failing\n\nfunc Fine() uint64 {\n\treturn 1\n}\n\nfunc Bad(x uint64) uint64 {\n\tswitch x {\n\tcase 1:\n\t\treturn 1\n\t}\n\treturn 2\n}\n\nfunc AlsoBad(x uint64) uint64 {\n\tdefer func() {}()\n\treturn x\n}\n"},
	"failmulti": {"a.go": "package failmulti\n\nfunc A1() uint64 {\n\treturn 1\n}\n\nfunc BadA(x uint64) uint64 {\n\tdefer func() {}()\n\treturn x\n}\n",
		"m.go": "package failmulti\n\nfunc BadM(x uint64) uint64 {\n\tswitch x {\n\tcase 1:\n\t\treturn 1\n\t}\n\treturn 2\n}\n\nfunc M1() uint64 {\n\treturn A1() + 1\n}\n",
		"q.go": "package failmulti\n\nfunc BadQ(x uint64) uint64 {\n\tvar y uint64 = x\n\tif y > 2 {\n\t\tgoto end\n\t}\n\ty = 100\nend:\n\treturn y\n}\n",
		"z.go": "package failmulti\n\nfunc BadZ(x uint64) uint64 {\n\tx <<= 3\n\treturn x\n}\n\nfunc Z1() uint64 {\n\treturn M1() + 1\n}\n"},
	"plain":   {"pv.go": "package plain\n\nfunc MaxOf(first uint64, rest ...uint64) uint64 {\n\tvar m uint64 = first\n\tfor _, x := range rest {\n\t\tif x > m {\n\t\t\tm = x\n\t\t}\n\t}\n\treturn m\n}\n", "p.go": "package plain\n\n// Twice doubles\nfunc Twice(x uint64) uint64 {\n\treturn x + x\n}\n"},
	"usedisk": {"d.go": "package usedisk\n\nimport \"github.com/goose-lang/goose/machine/disk\"\n\nfunc Sz() uint64 {\n\treturn disk.BlockSize\n}\n"},
	// a library on top of the disk FFI and two packages that reach the FFI only through it
	"store": {"s.go": "package store\n\nimport \"github.com/goose-lang/goose/machine/disk\"\n\nfunc Cap() uint64 {\n\treturn disk.BlockSize\n}\n"},
	"alpha": {"a.go": "package alpha\n\nimport \"example.com/c06mod/store\"\n\nfunc A() uint64 {\n\treturn store.Cap() + 1\n}\n"},
	"beta":  {"b.go": "package beta\n\nimport \"example.com/c06mod/store\"\n\nfunc B() uint64 {\n\treturn store.Cap() + 2\n}\n"},
	// two packages that each pass a struct where an interface is expected (the generated conversions are rendered by the
	// per-package workers while they translate)
	"iface1": {"i.go": "package iface1\n\ntype Shape interface {\n\tArea() uint64\n\tSide() uint64\n}\n\ntype Sq struct {\n\tw uint64\n}\n\nfunc (s Sq) Area() uint64 {\n\treturn s.w * s.w\n}\n\nfunc (s Sq) Side() uint64 {\n\treturn s.w\n}\n\nfunc measure(s Shape) uint64 {\n\treturn s.Area() + s.Side()\n}\n\nfunc Use(x uint64) uint64 {\n\tvar t uint64 = 0\n\tif x > 3 {\n\t\tfor i := uint64(0); i < x; i++ {\n\t\t\tif measure(Sq{w: i}) > 10 {\n\t\t\t\tt = t + measure(Sq{w: x})\n\t\t\t}\n\t\t}\n\t}\n\treturn t + measure(Sq{w: 1})\n}\n"},
	"iface2": {"j.go": "package iface2\n\ntype Named interface {\n\tId() uint64\n}\n\ntype Rec struct {\n\tid uint64\n}\n\nfunc (r Rec) Id() uint64 {\n\treturn r.id\n}\n\nfunc get(n Named) uint64 {\n\treturn n.Id()\n}\n\nfunc Use(x uint64) uint64 {\n\tr := Rec{id: x}\n\tvar t uint64 = 0\n\tif x > 1 {\n\t\tif x > 2 {\n\t\t\tif x > 3 {\n\t\t\t\tt = get(r) + get(Rec{id: 2})\n\t\t\t}\n\t\t}\n\t}\n\treturn t + get(r)\n}\n"},
	// a pattern that names a directory which does not exist (no entry is written for it)
	"failmissing": {},
	"multi":       {"m1.go": "package multi\n\nfunc M1() uint64 {\n\treturn M2() + 1\n}\n", "m2.go": "package multi\n\nfunc M2() uint64 {\n\treturn 2\n}\n"},
}

func c06Module(c *ev.Ctx, root string) error {
	_ = os.RemoveAll(root)
	if err := os.MkdirAll(root, 0755); err != nil {
		return err
	}
	gomod := fmt.Sprintf("module %s\n\ngo 1.22\n\nrequire github.com/goose-lang/goose v0.0.0\n\nreplace github.com/goose-lang/goose => %s\n", c06Mod, c.Repo)
	_ = os.WriteFile(filepath.Join(root, "go.mod"), []byte(gomod), 0644)
	sum, _ := os.ReadFile(filepath.Join(c.Repo, "go.sum"))
	_ = os.WriteFile(filepath.Join(root, "go.sum"), sum, 0644)
	for p, files := range c06Pkgs {
		if len(files) == 0 {
			continue
		}
		_ = os.MkdirAll(filepath.Join(root, p), 0755)
		for n, s := range files {
			_ = os.WriteFile(filepath.Join(root, p, n), []byte(s), 0644)
		}
	}
	return nil
}

type c06Result struct {
	pkg, hash, errs string
}

// translateOnce calls the library in-process; results in the order returned.
func translateOnce(root string, pats []string) (res []c06Result, err error) {
	defer func() {
		if r := recover(); r != nil {
			err = fmt.Errorf("panic: %v", r)
		}
	}()
	var tr goose.TranslationConfig
	var args []string
	for _, p := range pats {
		args = append(args, "./"+p)
	}
	files, errs, perr := tr.TranslatePackages(root, args...)
	if perr != nil {
		return nil, perr
	}
	for i, f := range files {
		var b bytes.Buffer
		f.Write(&b)
		h := sha256.Sum256(b.Bytes())
		es := ""
		if errs[i] != nil {
			// positions inside messages are stable; goose-internal caller lines as well
			eh := sha256.Sum256([]byte(errs[i].Error()))
			es = fmt.Sprintf("%x", eh[:6])
		}
		pk := strings.TrimPrefix(f.PkgPath, c06Mod+"/")
		if pk == "" {
			pk = "failmissing" // the one pattern that names no loadable package
		}
		res = append(res, c06Result{pkg: pk, hash: fmt.Sprintf("%x", h[:8]), errs: es})
	}
	return res, nil
}

func C06(c *ev.Ctx) {
	c.Level = "exploration"
	c.Assume("the library entry point TranslatePackages is called in-process (the command adds only file writing, covered by C17)",
		"worker schedules are forced at the two verif hooks (start of a worker, end of its translation); all 90 orders for 3 workers come from Workers.tla",
		"data-race freedom is decided by Go's race detector on the same driver",
		"a package reaching two FFIs makes the whole invocation panic on the pinned tree (known finding, probed separately)")
	dir, err := c.SpecDir("spec-workers", "translator")
	if err != nil {
		c.Inconclusive("copy specs: %v", err)
		return
	}
	wr := tlc.Run{Dir: dir, Module: "Workers", Workers: 1, Timeout: 5 * time.Minute}.Do()
	if !c.CheckTLC("Workers exhaustive", wr) {
		return
	}
	var schedules [][][2]string
	for _, p := range wr.Prints {
		var s [][2]string
		if json.Unmarshal([]byte(p), &s) == nil {
			schedules = append(schedules, s)
		}
	}
	if len(schedules) != 90 {
		c.Inconclusive("expected 90 worker schedules from Workers.tla, got %d", len(schedules))
		return
	}
	root := filepath.Join(c.Scratch, "c06mod")
	if err := c06Module(c, root); err != nil {
		c.Inconclusive("module: %v", err)
		return
	}
	var names []string
	for p := range c06Pkgs {
		names = append(names, p)
	}
	sort.Strings(names)
	var evs []map[string]any
	run := 0
	orderOf := map[string]string{}   // pattern list -> order of the returned results
	aloneHash := map[string]string{} // package -> hash of its file when translated alone
	record := func(pats []string, res []c06Result, err error, what string) bool {
		run++
		if err == nil {
			var ord []string
			for _, r := range res {
				ord = append(ord, r.pkg)
			}
			k, o := strings.Join(pats, ","), strings.Join(ord, ",")
			if old, seen := orderOf[k]; seen && old != o {
				c.Violation("c06.result-order", fmt.Sprintf("TranslatePackages(%v) returned its results in the order [%s] (%s), an earlier run with the same patterns in the order [%s]: the result and error lists depend on the run / the worker schedule", pats, o, what, old), nil)
				return false
			}
			orderOf[k] = o
			if what == "alone" && len(res) == 1 {
				aloneHash[res[0].pkg] = res[0].hash
			}
		}
		if err != nil {
			c.Violation("c06.run-failed", fmt.Sprintf("TranslatePackages(%v) failed (%s): %v", pats, what, err), nil)
			return false
		}
		for _, r := range res {
			evs = append(evs, map[string]any{"ev": "result", "run": run, "pkg": r.pkg, "hash": r.hash, "errs": r.errs, "what": what})
		}
		evs = append(evs, map[string]any{"ev": "runend", "run": run, "n": len(pats), "pkgs": pats, "what": what})
		return true
	}
	// reference: every package alone
	for _, p := range names {
		res, err := translateOnce(root, []string{p})
		if !record([]string{p}, res, err, "alone") {
			return
		}
	}
	rr := rng(c, 6)
	// repeated / regrouped / GOMAXPROCS
	oldProcs := runtime.GOMAXPROCS(0)
	defer runtime.GOMAXPROCS(oldProcs)
	nruns := c.Pick(40, 1500)
	for i := 0; i < nruns; i++ {
		k := 2 + rr.IntN(len(names)-1)
		perm := rr.Perm(len(names))[:k]
		var pats []string
		for _, ix := range perm {
			pats = append(pats, names[ix])
		}
		procs := []int{1, 2, 3, 4, 16}[i%5]
		runtime.GOMAXPROCS(procs)
		res, err := translateOnce(root, pats)
		if !record(pats, res, err, fmt.Sprintf("GOMAXPROCS=%d", procs)) {
			break
		}
	}
	runtime.GOMAXPROCS(oldProcs)
	// forced worker schedules on three packages that share types / forward references
	triples := [][]string{{"geom", "usegeom", "forward"}, {"usegeom", "geom", "failing"}, {"store", "alpha", "beta"}, {"beta", "usedisk", "alpha"}}
	forced := 0
	for ti, tri := range triples {
		step := c.Pick(6, 1)
		for si := ti % step; si < len(schedules); si += step {
			sched := schedules[si]
			res, err := forcedTranslate(root, tri, sched)
			if err != nil && strings.Contains(err.Error(), "gate") {
				c.Inconclusive("forced schedule: %v", err)
				continue
			}
			forced++
			if !record(tri, res, err, fmt.Sprintf("schedule %v", sched)) {
				break
			}
		}
	}
	c.Set("forced_schedules", forced)
	tv := validateTrace(dir, "WorkersTrace", evs, false, 10*time.Minute)
	c.AddTLC(tv.Res)
	switch {
	case tv.Broken:
		c.Inconclusive("WorkersTrace failed to run:\n%s", tlc.Tail(tv.Res.Out, 20))
	case !tv.Accepted:
		at := tv.HighWater - 1
		e := evs[at]
		c.Violation("c06.not-a-function-of-the-package", fmt.Sprintf("translation results are not a function of the package alone: event %d %s is rejected by WorkersTrace (a package got a different output / error list than in an earlier run, or a run returned a wrong number of results)\n%s",
			at+1, jsonStr(e), window(evs, at, 6, 1)), map[string]string{"trace.ndjson": ndjsonString(evs[:at+1])})
	default:
		c.AddTraces(run)
	}
	// probe: a package that reaches two FFIs takes the co-translated packages down (known finding)
	{
		_ = os.MkdirAll(filepath.Join(root, "twoffi"), 0755)
		_ = os.WriteFile(filepath.Join(root, "twoffi", "t.go"), []byte("package twoffi\n\nimport (\n\t\"github.com/goose-lang/goose/machine/async_disk\"\n)\n\nfunc A() uint64 {\n\treturn async_disk.BlockSize\n}\n"), 0644)
		_ = os.WriteFile(filepath.Join(root, "twoffi", "u.go"), []byte("package twoffi\n\nimport (\n\t\"github.com/goose-lang/goose/machine/disk\"\n)\n\nfunc B() uint64 {\n\treturn disk.BlockSize\n}\n"), 0644)
		out, code := runGooseCLI(c, root, filepath.Join(c.Scratch, "c06out"), "./plain", "./twoffi")
		_, statErr := os.Stat(filepath.Join(c.Scratch, "c06out", "example_com", "c06mod", "plain.v"))
		if code == 2 || statErr != nil {
			c.Report("c06.two-ffi-panic-kills-run", fmt.Sprintf("goose ./plain ./twoffi: the package reaching two FFIs makes the whole run abort (exit %d, plain.v written: %v): one package influences the others\n%s", code, statErr == nil, firstLines(out, 5)), nil)
		}
	}
	cli := c06CLI(c, root, names, aloneHash)
	c.Set("cli_runs_over_prior_output_states", cli)
	c.Set("runs", run)
	c.Set("evaluations", run)
	c.Set("distinct_nontrivial", run-len(names))
	c.Set("rule", "runs = in-process translations: every package alone (reference), seeded pattern subsets/orders under GOMAXPROCS 1/2/3/4/16, and hook-forced worker schedules from Workers.tla; non-trivial = runs with at least two packages")
	c.Sample(map[string]any{"events": evs[:min(6, len(evs))]})
	// process-wide state is most exposed the FIRST time it is used: three fresh processes
	for i := 0; i < 3 && c.NViolations() == 0; i++ {
		raceChild(c, "race-translate", "goose-lang/goose")
	}
}

func runGooseCLI(c *ev.Ctx, root, out string, pats ...string) (string, int) {
	args := append([]string{"-out", out, "-dir", root}, pats...)
	cmd := execCommand(filepath.Join(c.Bin, "goose"), args...)
	cmd.Env = goEnv()
	b, err := cmd.CombinedOutput()
	code := 0
	if ee, ok := err.(interface{ ExitCode() int }); ok {
		code = ee.ExitCode()
	} else if err != nil {
		code = -1
	}
	return string(b), code
}

// forcedTranslate runs TranslatePackages while releasing the worker hook events in the given order.
func forcedTranslate(root string, pkgs []string, sched [][2]string) ([]c06Result, error) {
	// schedule names p1,p2,p3 -> packages in pattern order
	name := map[string]string{}
	for i, p := range pkgs {
		name[fmt.Sprintf("p%d", i+1)] = c06Mod + "/" + p
	}
	type arrival struct {
		pkg, point string
		release    chan struct{}
	}
	arrivals := make(chan arrival, 16)
	goose.VerifHook = func(point string, worker int, pkgPath string) {
		a := arrival{pkgPath, point, make(chan struct{})}
		arrivals <- a
		<-a.release
	}
	defer func() { goose.VerifHook = nil }()
	var res []c06Result
	var terr error
	done := make(chan struct{})
	go func() {
		res, terr = translateOnce(root, pkgs)
		close(done)
	}()
	waiting := map[[2]string]chan struct{}{}
	var gateErr error
	for _, ev := range sched {
		want := [2]string{name[ev[0]], ev[1]}
		deadline := time.After(20 * time.Second)
		for waiting[want] == nil && gateErr == nil {
			select {
			case a := <-arrivals:
				waiting[[2]string{a.pkg, a.point}] = a.release
			case <-deadline:
				gateErr = fmt.Errorf("gate: event %v did not arrive", want)
			case <-done:
				gateErr = fmt.Errorf("gate: translation finished before event %v", want)
			}
		}
		if gateErr != nil {
			break
		}
		close(waiting[want])
		delete(waiting, want)
	}
	// release anything left (error paths) and drain
	var mu sync.Mutex
	go func() {
		for {
			select {
			case a := <-arrivals:
				mu.Lock()
				close(a.release)
				mu.Unlock()
			case <-done:
				return
			}
		}
	}()
	for _, ch := range waiting {
		close(ch)
	}
	select {
	case <-done:
	case <-time.After(30 * time.Second):
		return nil, fmt.Errorf("gate: translation did not finish")
	}
	if gateErr != nil {
		return nil, gateErr
	}
	return res, terr
}

func raceTranslateChild(args []string) int {
	scratch := args[2]
	root := filepath.Join(scratch, "c06mod")
	var names []string
	for p := range c06Pkgs {
		names = append(names, p)
	}
	sort.Strings(names)
	n := 0
	for i := 0; i < 6; i++ {
		runtime.GOMAXPROCS([]int{2, 4, 16}[i%3])
		if _, err := translateOnce(root, names); err != nil {
			fmt.Println("translate:", err)
			return 3
		}
		n++
	}
	fmt.Printf("RACE-DRIVER-DONE %d translations of %d packages under -race\n", n, len(names))
	return 0
}

// c06CLI: the files the command leaves behind are a function of the sources alone, whatever the output directory
// contained before: absent, identical, a longer file that starts with the new content, a shorter prefix of it,
// unrelated bytes, or the translation of an earlier version of the same package (with more / fewer declarations).
func c06CLI(c *ev.Ctx, root string, names []string, aloneHash map[string]string) int {
	fresh := filepath.Join(c.Scratch, "c06cli-fresh")
	_ = os.RemoveAll(fresh)
	var pats []string
	for _, p := range names {
		if !strings.HasPrefix(p, "fail") {
			pats = append(pats, "./"+p)
		}
	}
	if out, code := runGooseCLI(c, root, fresh, pats...); code != 0 {
		c.Inconclusive("goose CLI on the C06 module: exit %d\n%s", code, firstLines(out, 6))
		return 0
	}
	ref := map[string][]byte{}
	_ = filepath.Walk(fresh, func(pp string, info os.FileInfo, err error) error {
		if err == nil && !info.IsDir() {
			b, _ := os.ReadFile(pp)
			rel, _ := filepath.Rel(fresh, pp)
			ref[rel] = b
		}
		return nil
	})
	if len(ref) != len(pats) {
		c.Inconclusive("expected %d output files, found %d", len(pats), len(ref))
		return 0
	}
	// the file the command writes for a package in a many-package invocation is the file the library renders for that
	// package alone
	for rel, b := range ref {
		pkg := strings.TrimSuffix(filepath.Base(rel), ".v")
		h := sha256.Sum256(b)
		if want, ok := aloneHash[pkg]; ok && want != fmt.Sprintf("%x", h[:8]) {
			c.Violation("c06.cli-differs-from-library", fmt.Sprintf("goose %v: the file written for package %s differs from the translation of that package alone (co-translated packages influence each other's output)", pats, pkg), map[string]string{"got.v": string(b)})
			return 0
		}
	}
	runs := 0
	key := "c06.output-depends-on-prior-state"
	compare := func(out, what string) {
		runs++
		for rel, want := range ref {
			got, err := os.ReadFile(filepath.Join(out, rel))
			if err != nil || !bytes.Equal(got, want) {
				c.Violation(key, fmt.Sprintf("same sources, different file: %s after %s differs from the file a fresh output directory gets (%d vs %d bytes)", rel, what, len(got), len(want)),
					map[string]string{"got.v": string(got), "want.v": string(want)})
				return
			}
		}
	}
	states := map[string]func(b []byte) []byte{
		"an identical file": func(b []byte) []byte { return b },
		"a longer file starting with the new content": func(b []byte) []byte {
			return append(append([]byte{}, b...), []byte("\nDefinition stale: val :=\n  rec: \"stale\" <> :=\n    #0.\n")...)
		},
		"a proper prefix of the new content": func(b []byte) []byte { return b[:len(b)/2] },
		"unrelated bytes of the same length": func(b []byte) []byte { return bytes.Repeat([]byte("x"), len(b)) },
		"an empty file":                      func(b []byte) []byte { return nil },
	}
	for what, f := range states {
		out := filepath.Join(c.Scratch, "c06cli-prior")
		_ = os.RemoveAll(out)
		for rel, b := range ref {
			_ = os.MkdirAll(filepath.Dir(filepath.Join(out, rel)), 0755)
			_ = os.WriteFile(filepath.Join(out, rel), f(b), 0644)
		}
		if o, code := runGooseCLI(c, root, out, pats...); code != 0 {
			c.Violation("c06.output-depends-on-prior-state", fmt.Sprintf("goose exits %d when the output directory already holds %s\n%s", code, what, firstLines(o, 5)), nil)
			continue
		}
		compare(out, "the output directory held "+what)
	}
	// co-translated packages that fail: the error-free packages get exactly the files they get without them, wherever
	// the failing patterns stand in the invocation (exit status 1 is the failing packages' business)
	for k, withBad := range [][]string{
		append([]string{"./failing"}, pats...),
		append(append([]string{}, pats...), "./failmulti", "./failcat"),
		append(append(append([]string{}, pats[:len(pats)/2]...), "./failing", "./failmulti"), pats[len(pats)/2:]...),
	} {
		out := filepath.Join(c.Scratch, "c06cli-bad")
		_ = os.RemoveAll(out)
		if o, code := runGooseCLI(c, root, out, withBad...); code != 1 {
			c.Inconclusive("goose CLI with a failing package among the patterns: exit %d, expected 1\n%s", code, firstLines(o, 6))
			continue
		}
		key = "c06.output-depends-on-co-translated-failure"
		compare(out, fmt.Sprintf("an invocation that also names failing packages (variant %d: %v)", k, withBad))
		key = "c06.output-depends-on-prior-state"
	}
	// a slow Go toolchain (cold build cache, loaded machine): every `go list` takes 12 s longer; same files, same status
	if realGo, err := exec.LookPath("go"); err == nil {
		wrap := filepath.Join(c.Scratch, "c06slowgo")
		_ = os.MkdirAll(wrap, 0755)
		_ = os.WriteFile(filepath.Join(wrap, "go"), []byte("#!/bin/sh\ncase \"$1\" in list) sleep 12;; esac\nexec "+realGo+" \"$@\"\n"), 0755)
		out := filepath.Join(c.Scratch, "c06cli-slow")
		_ = os.RemoveAll(out)
		cmd := execCommand(filepath.Join(c.Bin, "goose"), "-out", out, "-dir", root, "./plain", "./usedisk")
		cmd.Env = append(goEnv(), "PATH="+wrap+":"+os.Getenv("PATH"))
		t0 := time.Now()
		b, err := cmd.CombinedOutput()
		took := time.Since(t0)
		runs++
		bad := ""
		if err != nil {
			bad = fmt.Sprintf("goose fails (%v): %s", err, firstLines(string(b), 4))
		} else {
			for rel, want := range ref {
				if pk := strings.TrimSuffix(filepath.Base(rel), ".v"); pk == "plain" || pk == "usedisk" {
					if got, err := os.ReadFile(filepath.Join(out, rel)); err != nil || !bytes.Equal(got, want) {
						bad = fmt.Sprintf("file %s differs from an ordinary run (%d vs %d bytes)", rel, len(got), len(want))
					}
				}
			}
		}
		if took < 12*time.Second {
			c.Set("slow_toolchain_run", "the wrapper was not used (run took "+took.String()+")")
		} else if bad != "" {
			c.Violation("c06.output-depends-on-toolchain-speed", "same sources, same patterns, but the Go toolchain answers 12 s later than usual: "+bad, map[string]string{"output.txt": string(b)})
		} else {
			c.Set("slow_toolchain_run", "identical files after "+took.Round(time.Second).String())
		}
	}
	// earlier versions of the sources: a trailing declaration more, then removed again (the new output is a prefix of
	// the old one for packages with an FFI prelude, whose footer is empty)
	extra := "\nfunc ExtraTail() uint64 {\n\treturn 77\n}\n"
	out := filepath.Join(c.Scratch, "c06cli-hist")
	_ = os.RemoveAll(out)
	last := map[string]string{}
	for _, p := range names {
		fs := c06Pkgs[p]
		if len(fs) == 0 {
			continue
		}
		var fns []string
		for n := range fs {
			fns = append(fns, n)
		}
		sort.Strings(fns)
		last[p] = fns[len(fns)-1]
		_ = os.WriteFile(filepath.Join(root, p, last[p]), []byte(fs[last[p]]+extra), 0644)
	}
	o1, code1 := runGooseCLI(c, root, out, pats...)
	for _, p := range names {
		if last[p] == "" {
			continue
		}
		_ = os.WriteFile(filepath.Join(root, p, last[p]), []byte(c06Pkgs[p][last[p]]), 0644)
	}
	if code1 != 0 {
		c.Inconclusive("goose CLI on the edited C06 module: exit %d\n%s", code1, firstLines(o1, 6))
		return runs
	}
	if o, code := runGooseCLI(c, root, out, pats...); code != 0 {
		c.Violation("c06.output-depends-on-prior-state", fmt.Sprintf("goose exits %d on the restored sources\n%s", code, firstLines(o, 5)), nil)
	} else {
		compare(out, "an earlier version of every package (one more trailing declaration) had been translated into the same directory")
	}
	return runs
}
