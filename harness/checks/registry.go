// Package checks contains one decision procedure per property.
package checks

import (
	"fmt"
	"os"

	"verif/ev"
)

var Registry = map[string]func(*ev.Ctx){}

// children are sub-commands run in a separate process (strace targets, crash victims).
var children = map[string]func(args []string) int{}

func Child(name string, args []string) int {
	f, ok := children[name]
	if !ok {
		fmt.Fprintf(os.Stderr, "unknown child %q\n", name)
		return 3
	}
	return f(args)
}
