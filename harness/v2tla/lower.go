// Package v2tla lowers parsed GooseLang definitions (vparse) into the flat core-term table that
// GooseLang.tla loads as its constant P (batch.json).  It expands Perennial's notations and the
// Gallina-level (static) struct operations exactly as Perennial defines them; everything dynamic is
// left to the TLA+ machine and to prelude.v.
package v2tla

import (
	"fmt"
	"sort"
	"strconv"
	"strings"

	"verif/vparse"
)

type TNode struct {
	Op string `json:"op"`
	X  string `json:"x"`
	Xs []string `json:"xs"`
	K  []int  `json:"k"`
	V  any    `json:"v"`
}

type Test struct {
	Name  string `json:"name"`
	Entry int    `json:"entry"`
	Rty   any    `json:"rty"`
}

type Program struct {
	Nodes []TNode        `json:"nodes"`
	Defs  map[string]int `json:"defs"`
	Tests []Test         `json:"tests"`
}

type structInfo struct {
	fields []string
	types  []*vparse.Node
}

type Lowerer struct {
	P        Program
	structs  map[string]structInfo
	tydefs   map[string]*vparse.Node // Definition X: ty := ... / Notation
	globals  map[string]bool         // names with a definition (program or prelude)
	Unknown  map[string]bool         // identifiers nobody defines (reported; stuck only if reached)
	Problems []string
	Prefix   string // namespace of the program file being added ("" for the prelude): several packages share one batch
}

// q resolves a program-level name to its namespaced form if the current package defines it.
func (l *Lowerer) q(name string) string {
	if l.Prefix != "" && l.globals[l.Prefix+name] {
		return l.Prefix + name
	}
	return name
}

var Builtins = map[string]bool{"Fst": true, "Snd": true, "InjL": true, "InjR": true, "Case": true, "to_u64": true, "to_u32": true, "to_u8": true,
	"loc_add": true, "is_null": true, "ty.size": true, "ty.isprod": true, "ty.isunit": true, "ty.fst": true, "ty.snd": true, "zero_val": true,
	"slice.T": true, "mapT": true, "arrayT": true, "prodT": true, "str.len": true, "str.get": true, "str.ofbyte": true, "uint64_to_string": true,
	"AllocN": true, "StartRead": true, "FinishRead": true, "PrepareWrite": true, "FinishStore": true, "Load": true, "CmpXchg": true,
	"ArbitraryInt": true, "Panic": true, "DiskRead": true, "DiskWrite": true, "DiskSize": true}

var baseTypes = map[string]string{"uint64T": "u64", "uint32T": "u32", "byteT": "u8", "boolT": "bool", "stringT": "str", "unitT": "unit",
	"ptrT": "ptr", "anyT": "any", "ProphIdT": "ptr", "fileT": "u64", "disk.blockT": "slice_u8", "disk.Disk": "ptr", "refT": "ptr"}

func New() *Lowerer {
	return &Lowerer{P: Program{Defs: map[string]int{}}, structs: map[string]structInfo{}, tydefs: map[string]*vparse.Node{},
		globals: map[string]bool{}, Unknown: map[string]bool{}}
}

func (l *Lowerer) add(n TNode) int {
	if n.Xs == nil {
		n.Xs = []string{}
	}
	if n.K == nil {
		n.K = []int{}
	}
	if n.V == nil {
		n.V = 0
	}
	l.P.Nodes = append(l.P.Nodes, n)
	return len(l.P.Nodes) // 1-based
}

// ---- values ----
func limbs(x uint64, n int) []int {
	w := make([]int, n)
	for i := range w {
		w[i] = int(x >> (8 * i) & 0xff)
	}
	return w
}
func VU64(x uint64) any { return map[string]any{"k": "u64", "w": limbs(x, 8)} }
func VU32(x uint64) any { return map[string]any{"k": "u32", "w": limbs(x, 4)} }
func VU8(x uint64) any  { return map[string]any{"k": "u8", "w": limbs(x, 1)} }
func VBool(b bool) any  { return map[string]any{"k": "bool", "t": b} }
func VUnit() any        { return map[string]any{"k": "unit"} }
func VNull() any        { return map[string]any{"k": "loc", "l": []any{[]int{}, 0, 0}} }
func VStr(s string) any {
	b := []int{}
	for _, c := range []byte(s) {
		b = append(b, int(c))
	}
	return map[string]any{"k": "str", "s": b}
}
func VTy(t string, a, b any) any {
	if a == nil {
		a = 0
	}
	if b == nil {
		b = 0
	}
	return map[string]any{"k": "ty", "t": t, "a": a, "b": b}
}

func (l *Lowerer) val(v any) int          { return l.add(TNode{Op: "val", V: v}) }
func (l *Lowerer) bi(name string) int     { return l.add(TNode{Op: "bi", X: name}) }
func (l *Lowerer) glob(name string) int   { return l.add(TNode{Op: "glob", X: name}) }
func (l *Lowerer) app(f int, args ...int) int {
	for _, a := range args {
		f = l.add(TNode{Op: "app", K: []int{f, a}})
	}
	return f
}
func (l *Lowerer) let(x string, e1, e2 int) int { return l.add(TNode{Op: "let", X: x, K: []int{e1, e2}}) }
func (l *Lowerer) pair(a, b int) int            { return l.add(TNode{Op: "pair", K: []int{a, b}}) }
func (l *Lowerer) lam(params []string, body int) int {
	if len(params) == 0 {
		params = []string{""}
	}
	for i := len(params) - 1; i >= 0; i-- {
		body = l.add(TNode{Op: "rec", X: "", Xs: []string{params[i]}, K: []int{body}})
	}
	return body
}
func (l *Lowerer) problem(format string, a ...any) int {
	m := fmt.Sprintf(format, a...)
	l.Problems = append(l.Problems, m)
	return l.glob("?unsupported: " + m)
}

// ---- static types ----

// staticTy evaluates a type term to a descriptor value; ok=false if it is not static (type parameter).
func (l *Lowerer) staticTy(n *vparse.Node, depth int) (any, bool) {
	if depth > 40 {
		return nil, false
	}
	switch n.Kind {
	case "id":
		if t, ok := baseTypes[n.Name]; ok {
			if t == "slice_u8" {
				return sliceTy(VTy("u8", nil, nil)), true
			}
			return VTy(t, nil, nil), true
		}
		if d, ok := l.tydefs[l.q(n.Name)]; ok {
			return l.staticTy(d, depth+1)
		}
		return nil, false
	case "app":
		head := n.Kids[0]
		if head.Kind == "id" && len(n.Kids) == 2 {
			switch head.Name {
			case "slice.T", "mapT", "arrayT":
				inner, ok := l.staticTy(n.Kids[1], depth+1)
				if !ok {
					return nil, false
				}
				if head.Name == "slice.T" {
					return sliceTy(inner), true
				}
				return VTy(map[string]string{"mapT": "map", "arrayT": "array"}[head.Name], inner, nil), true
			case "struct.t":
				if n.Kids[1].Kind == "id" {
					return l.structTy(n.Kids[1].Name, depth+1)
				}
			}
		}
		if head.Kind == "id" && head.Name == "arrowT" {
			return VTy("arrow", nil, nil), true
		}
	case "arrow":
		return VTy("arrow", nil, nil), true
	case "binop":
		if n.Name == "*" {
			a, ok1 := l.staticTy(n.Kids[0], depth+1)
			b, ok2 := l.staticTy(n.Kids[1], depth+1)
			if ok1 && ok2 {
				return VTy("prod", a, b), true
			}
		}
	}
	return nil, false
}

func (l *Lowerer) structTy(name string, depth int) (any, bool) {
	si, ok := l.structs[l.q(name)]
	if !ok {
		return nil, false
	}
	var t any = VTy("unit", nil, nil)
	for i := len(si.fields) - 1; i >= 0; i-- {
		ft, ok := l.staticTy(si.types[i], depth+1)
		if !ok {
			return nil, false
		}
		t = VTy("prod", ft, t)
	}
	return t, true
}

// slice.T t = (arrayT t * uint64T * uint64T)
func sliceTy(elem any) any {
	return VTy("prod", VTy("prod", VTy("array", elem, nil), VTy("u64", nil, nil)), VTy("u64", nil, nil))
}

func tySize(t any) int {
	m := t.(map[string]any)
	switch m["t"] {
	case "unit":
		return 0
	case "prod":
		return tySize(m["a"]) + tySize(m["b"])
	}
	return 1
}

func (l *Lowerer) fieldIndex(s, f string) (int, structInfo, bool) {
	si, ok := l.structs[l.q(s)]
	if !ok {
		return 0, si, false
	}
	for i, n := range si.fields {
		if n == f {
			return i, si, true
		}
	}
	return 0, si, false
}

func (l *Lowerer) fieldOffset(si structInfo, idx int) (int, bool) {
	off := 0
	for i := 0; i < idx; i++ {
		t, ok := l.staticTy(si.types[i], 0)
		if !ok {
			return 0, false
		}
		off += tySize(t)
	}
	return off, true
}

// ---- expressions ----

func (l *Lowerer) exprs(ns []*vparse.Node) []int {
	out := make([]int, len(ns))
	for i, n := range ns {
		out[i] = l.expr(n)
	}
	return out
}

var binopNames = map[string]string{"+": "+", "-": "-", "*": "*", "=": "=", "<": "<", ">": ">", "≤": "<=", "≥": ">=",
	"`quot`": "quot", "`rem`": "rem", "`and`": "and", "`or`": "or", "`xor`": "xor", "≪": "shl", "≫": "shr"}

func (l *Lowerer) expr(n *vparse.Node) int {
	switch n.Kind {
	case "str":
		return l.add(TNode{Op: "var", X: n.Name})
	case "anon":
		return l.problem("<> in term position")
	case "lit":
		switch n.Name {
		case "u64", "u32", "u8":
			x, err := strconv.ParseUint(n.Val, 10, 64)
			if err != nil {
				return l.problem("integer literal %q does not fit 64 bits", n.Val)
			}
			switch n.Name {
			case "u64":
				return l.val(VU64(x))
			case "u32":
				if x >= 1<<32 {
					return l.problem("U32 literal %d out of range", x)
				}
				return l.val(VU32(x))
			default:
				if x >= 1<<8 {
					return l.problem("U8 literal %d out of range", x)
				}
				return l.val(VU8(x))
			}
		case "bool":
			return l.val(VBool(n.Val == "true"))
		case "unit":
			return l.val(VUnit())
		case "null":
			return l.val(VNull())
		case "str":
			return l.val(VStr(n.Val))
		}
	case "id":
		return l.ident(n.Name)
	case "tuple":
		// (a, b, c) = ((a, b), c)
		acc := l.expr(n.Kids[0])
		for _, k := range n.Kids[1:] {
			// pair evaluates its right component first; build node with sub-terms in place
			acc = l.pair(acc, l.expr(k))
		}
		return acc
	case "binop":
		switch n.Name {
		case "&&":
			return l.add(TNode{Op: "if", K: []int{l.expr(n.Kids[0]), l.expr(n.Kids[1]), l.val(VBool(false))}})
		case "||":
			return l.add(TNode{Op: "if", K: []int{l.expr(n.Kids[0]), l.val(VBool(true)), l.expr(n.Kids[1])}})
		case "≠":
			eq := l.add(TNode{Op: "bin", X: "=", K: []int{l.expr(n.Kids[0]), l.expr(n.Kids[1])}})
			return l.add(TNode{Op: "un", X: "~", K: []int{eq}})
		}
		if op, ok := binopNames[n.Name]; ok {
			return l.add(TNode{Op: "bin", X: op, K: []int{l.expr(n.Kids[0]), l.expr(n.Kids[1])}})
		}
		return l.problem("binary operator %s", n.Name)
	case "arrow":
		return l.val(VTy("arrow", nil, nil))
	case "not":
		return l.add(TNode{Op: "un", X: "~", K: []int{l.expr(n.Kids[0])}})
	case "deref":
		return l.app(l.glob("load_ty"), l.expr(n.Kids[0]), l.expr(n.Kids[1]))
	case "store":
		return l.app(l.glob("store_ty"), l.expr(n.Kids[1]), l.expr(n.Kids[0]), l.expr(n.Kids[2]))
	case "seq":
		return l.let("", l.expr(n.Kids[0]), l.expr(n.Kids[1]))
	case "let":
		e1 := l.expr(n.Kids[0])
		if len(n.Binders) == 1 {
			return l.let(n.Binders[0], e1, l.expr(n.Kids[1]))
		}
		// let: ((a, b), c) := e in body  ==  let p := e in let a := Fst (Fst p) in ... (Perennial destructures with Fst/Snd)
		tmp := fmt.Sprintf("%%pat%d", len(l.P.Nodes))
		body := l.expr(n.Kids[1])
		k := len(n.Binders)
		for i := k - 1; i >= 0; i-- {
			// component i of a left-nested k-tuple
			proj := l.add(TNode{Op: "var", X: tmp})
			for j := k - 1; j > i; j-- {
				proj = l.app(l.bi("Fst"), proj)
			}
			if i > 0 {
				proj = l.app(l.bi("Snd"), proj)
			}
			if n.Binders[i] != "" {
				body = l.let(n.Binders[i], proj, body)
			}
		}
		return l.let(tmp, e1, body)
	case "if":
		return l.add(TNode{Op: "if", K: l.exprs(n.Kids)})
	case "lam":
		return l.lam(n.Binders, l.expr(n.Kids[0]))
	case "rec":
		body := l.expr(n.Kids[0])
		ps := n.Binders
		if len(ps) == 0 {
			ps = []string{""}
		}
		for i := len(ps) - 1; i >= 1; i-- {
			body = l.add(TNode{Op: "rec", X: "", Xs: []string{ps[i]}, K: []int{body}})
		}
		return l.add(TNode{Op: "rec", X: n.Name, Xs: []string{ps[0]}, K: []int{body}})
	case "for":
		return l.app(l.glob("For"), l.expr(n.Kids[0]), l.expr(n.Kids[2]), l.expr(n.Kids[1]))
	case "app":
		return l.application(n)
	case "list":
		return l.problem("list outside struct.mk")
	}
	return l.problem("term of kind %s", n.Kind)
}

func (l *Lowerer) ident(name string) int {
	if t, ok := baseTypes[name]; ok {
		if t == "slice_u8" {
			return l.val(sliceTy(VTy("u8", nil, nil)))
		}
		return l.val(VTy(t, nil, nil))
	}
	if Builtins[name] {
		return l.bi(name)
	}
	if _, ok := l.tydefs[l.q(name)]; ok {
		if t, ok := l.staticTy(&vparse.Node{Kind: "id", Name: name}, 0); ok {
			return l.val(t)
		}
	}
	name = l.q(name)
	if !l.globals[name] {
		l.Unknown[name] = true
	}
	return l.glob(name)
}

func strArg(n *vparse.Node) (string, bool) {
	if n.Kind == "str" {
		return n.Name, true
	}
	return "", false
}

// application: static (Gallina-level) operations are expanded here, as Perennial's definitions do.
func (l *Lowerer) application(n *vparse.Node) int {
	head, args := n.Kids[0], n.Kids[1:]
	if head.Kind == "id" {
		switch head.Name {
		case "Fork":
			if len(args) == 1 {
				return l.add(TNode{Op: "fork", K: []int{l.expr(args[0])}})
			}
		case "ForSlice":
			if len(args) == 5 {
				kb, vb := binderOf(args[1]), binderOf(args[2])
				f := l.lam([]string{kb, vb}, l.expr(args[4]))
				return l.app(l.glob("ForSlice.impl"), l.expr(args[0]), l.expr(args[3]), f)
			}
		case "struct.t":
			if len(args) == 1 && args[0].Kind == "id" {
				if t, ok := l.structTy(args[0].Name, 0); ok {
					return l.val(t)
				}
				return l.problem("struct.t of unknown or non-static struct %s", args[0].Name)
			}
		case "struct.mk", "struct.new":
			if len(args) == 2 && args[0].Kind == "id" && args[1].Kind == "list" {
				v := l.structMk(args[0].Name, args[1])
				if head.Name == "struct.new" {
					return l.app(l.bi("AllocN"), l.val(VU64(1)), v)
				}
				return v
			}
		case "struct.alloc":
			if len(args) == 2 {
				return l.app(l.bi("AllocN"), l.val(VU64(1)), l.expr(args[1]))
			}
		case "struct.get":
			if len(args) >= 2 && args[0].Kind == "id" {
				f, _ := strArg(args[1])
				idx, si, ok := l.fieldIndex(args[0].Name, f)
				if !ok {
					return l.problem("struct.get of unknown field %s.%s", args[0].Name, f)
				}
				proj := func(v int) int {
					for i := 0; i < idx; i++ {
						v = l.app(l.bi("Snd"), v)
					}
					_ = si
					return l.app(l.bi("Fst"), v)
				}
				if len(args) == 2 { // partial application: a function
					x := fmt.Sprintf("%%sg%d", len(l.P.Nodes))
					return l.lam([]string{x}, proj(l.add(TNode{Op: "var", X: x})))
				}
				res := proj(l.expr(args[2]))
				return l.app(res, l.exprs(args[3:])...)
			}
		case "struct.fieldRef", "struct.loadF", "struct.storeF":
			if len(args) >= 3 && args[0].Kind == "id" {
				f, _ := strArg(args[1])
				idx, si, ok := l.fieldIndex(args[0].Name, f)
				if !ok {
					return l.problem("%s of unknown field %s.%s", head.Name, args[0].Name, f)
				}
				off, ok2 := l.fieldOffset(si, idx)
				ft, ok3 := l.staticTy(si.types[idx], 0)
				if !ok2 || !ok3 {
					return l.problem("%s: field types of %s are not static", head.Name, args[0].Name)
				}
				ref := l.app(l.bi("loc_add"), l.expr(args[2]), l.val(VU64(uint64(off))))
				switch head.Name {
				case "struct.fieldRef":
					if len(args) == 3 {
						return ref
					}
				case "struct.loadF":
					if len(args) == 3 {
						return l.app(l.glob("load_ty"), l.val(ft), ref)
					}
				case "struct.storeF":
					if len(args) == 4 {
						// store_ty t ref v: the value (last argument) is evaluated first, as in GooseLang
						return l.app(l.glob("store_ty"), l.val(ft), ref, l.expr(args[3]))
					}
				}
			}
		case "struct.load", "struct.store":
			if len(args) >= 2 && args[0].Kind == "id" {
				t, ok := l.structTy(args[0].Name, 0)
				if !ok {
					return l.problem("%s of unknown struct %s", head.Name, args[0].Name)
				}
				if head.Name == "struct.load" && len(args) == 2 {
					return l.app(l.glob("load_ty"), l.val(t), l.expr(args[1]))
				}
				if head.Name == "struct.store" && len(args) == 3 {
					return l.app(l.glob("store_ty"), l.val(t), l.expr(args[1]), l.expr(args[2]))
				}
			}
		case "arrowT":
			return l.val(VTy("arrow", nil, nil))
		}
		if strings.HasPrefix(head.Name, "struct.") {
			return l.problem("unsupported use of %s with %d arguments", head.Name, len(args))
		}
	}
	f := l.expr(head)
	return l.app(f, l.exprs(args)...)
}

func binderOf(n *vparse.Node) string {
	if n.Kind == "str" {
		return n.Name
	}
	return ""
}

// struct.mk S [f ::= e; ...] = (e1, (e2, (..., #()))) in descriptor order, zero_val for absent fields
func (l *Lowerer) structMk(s string, lst *vparse.Node) int {
	si, ok := l.structs[l.q(s)]
	if !ok {
		return l.problem("struct.mk of unknown struct %s", s)
	}
	given := map[string]*vparse.Node{}
	for _, k := range lst.Kids {
		if k.Kind != "fieldval" {
			return l.problem("struct.mk with a non-field element")
		}
		if _, dup := given[k.Name]; dup {
			return l.problem("struct.mk %s: field %s given twice", s, k.Name)
		}
		given[k.Name] = k.Kids[0]
	}
	for f := range given {
		if _, _, ok := l.fieldIndex(s, f); !ok {
			return l.problem("struct.mk %s: unknown field %s", s, f)
		}
	}
	acc := l.val(VUnit())
	for i := len(si.fields) - 1; i >= 0; i-- {
		var fv int
		if e, ok := given[si.fields[i]]; ok {
			fv = l.expr(e)
		} else {
			ft, ok := l.staticTy(si.types[i], 0)
			if !ok {
				return l.problem("struct.mk %s: type of field %s is not static", s, si.fields[i])
			}
			fv = l.app(l.bi("zero_val"), l.val(ft))
		}
		acc = l.pair(fv, acc)
	}
	return acc
}

// AddFile registers all definitions of a parsed file. Call for the prelude first, then the program.
func (l *Lowerer) AddFile(f *vparse.File) {
	// pass 1: names, structs, type definitions
	for _, d := range f.Decls {
		switch d.Kind {
		case "structdecl":
			si := structInfo{}
			for _, k := range d.Body.Kids {
				if k.Kind == "fielddecl" {
					si.fields = append(si.fields, k.Name)
					si.types = append(si.types, k.Kids[0])
				}
			}
			l.structs[l.Prefix+d.Name] = si
			l.globals[l.Prefix+d.Name] = true
		case "tydef", "notation":
			l.tydefs[l.Prefix+d.Name] = d.Body
			l.globals[l.Prefix+d.Name] = true
		case "def":
			l.globals[l.Prefix+d.Name] = true
		}
	}
	// pass 2: bodies
	for _, d := range f.Decls {
		if d.Kind != "def" || d.Body == nil {
			continue
		}
		body := d.Body
		var id int
		if len(d.TypeParams) > 0 {
			// Definition f (T:ty) : val := e   ==   λ T, e  with T an ordinary variable holding a descriptor
			id = l.lowerWithTypeParams(d.TypeParams, body)
		} else {
			id = l.expr(body)
		}
		l.P.Defs[l.Prefix+d.Name] = id
	}
}

func (l *Lowerer) lowerWithTypeParams(tps []string, body *vparse.Node) int {
	// type parameters occur as Gallina identifiers: rewrite them to variables
	set := map[string]bool{}
	for _, t := range tps {
		set[t] = true
	}
	var rw func(n *vparse.Node) *vparse.Node
	rw = func(n *vparse.Node) *vparse.Node {
		if n.Kind == "id" && set[n.Name] {
			return &vparse.Node{Kind: "str", Name: "%ty." + n.Name}
		}
		c := *n
		c.Kids = make([]*vparse.Node, len(n.Kids))
		for i, k := range n.Kids {
			c.Kids[i] = rw(k)
		}
		return &c
	}
	inner := l.expr(rw(body))
	ps := make([]string, len(tps))
	for i, t := range tps {
		ps[i] = "%ty." + t
	}
	return l.lam(ps, inner)
}

// AddTest adds a closed entry term `f #()` (or a given expression source already parsed).
func (l *Lowerer) AddTest(name string, entry *vparse.Node, rty any) {
	id := l.expr(entry)
	l.P.Tests = append(l.P.Tests, Test{Name: name, Entry: id, Rty: rty})
}

func (l *Lowerer) UnknownList() []string {
	var xs []string
	for k := range l.Unknown {
		xs = append(xs, k)
	}
	sort.Strings(xs)
	return xs
}
