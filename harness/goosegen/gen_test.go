package goosegen

import (
	"fmt"
	"os"
	"os/exec"
	"path/filepath"
	"strings"
	"testing"
)

// TestCompile: generated packages must compile (generator self-test; run with -run Compile -count=1)
func TestCompile(t *testing.T) {
	dir := t.TempDir()
	os.WriteFile(filepath.Join(dir, "go.mod"), []byte("module example.com/gen\n\ngo 1.22\n\nrequire github.com/goose-lang/goose v0.0.0\n\nreplace github.com/goose-lang/goose => /repo\n"), 0644)
	sum, _ := os.ReadFile("/repo/go.sum")
	os.WriteFile(filepath.Join(dir, "go.sum"), sum, 0644)
	for i := 0; i < 60; i++ {
		gp := Generate(Options{Seed: uint64(1000 + i), Funcs: 4 + i%5, Entries: 6})
		d := filepath.Join(dir, fmt.Sprintf("p%d", i))
		os.MkdirAll(d, 0755)
		os.WriteFile(filepath.Join(d, "gen.go"), []byte(gp.Source), 0644)
	}
	cmd := exec.Command("go", "build", "./...")
	cmd.Dir = dir
	cmd.Env = append(os.Environ(), "GOFLAGS=-mod=mod", "GOPROXY=off", "GOSUMDB=off", "GOTOOLCHAIN=local")
	out, err := cmd.CombinedOutput()
	if err != nil {
		t.Errorf("%s", out)
	}
}

// TestCatalogueCompiles: every catalogue item is ordinary type-correct Go and its entry runs without panicking.
func TestCatalogueCompiles(t *testing.T) {
	dir := t.TempDir()
	os.WriteFile(filepath.Join(dir, "go.mod"), []byte("module example.com/gen\n\ngo 1.22\n\nrequire github.com/goose-lang/goose v0.0.0\n\nreplace github.com/goose-lang/goose => /repo\n"), 0644)
	sum, _ := os.ReadFile("/repo/go.sum")
	os.WriteFile(filepath.Join(dir, "go.sum"), sum, 0644)
	all := append(append([]Item{}, Catalogue...), FarOutside...)
	for i, it := range all {
		decls, entry := it.Instantiate(i+1, "Entry")
		src := "package main\n\n"
		if strings.Contains(decls+entry, "machine.") {
			src += "import \"github.com/goose-lang/goose/machine\"\n\n"
		}
		for _, imp := range it.Imports() {
			src += "import \"" + imp + "\"\n\n"
		}
		src += decls + "\n" + entry + "\nfunc main() {\n\t_ = Entry\n}\n"
		d := filepath.Join(dir, fmt.Sprintf("c%d", i))
		os.MkdirAll(d, 0755)
		os.WriteFile(filepath.Join(d, "gen.go"), []byte(src), 0644)
	}
	cmd := exec.Command("go", "vet", "./...")
	cmd.Dir = dir
	cmd.Env = append(os.Environ(), "GOFLAGS=-mod=mod", "GOPROXY=off", "GOSUMDB=off", "GOTOOLCHAIN=local")
	out, err := cmd.CombinedOutput()
	if err != nil {
		t.Errorf("%s", out)
	}
}
