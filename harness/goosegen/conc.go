package goosegen

import (
	"fmt"
	"math/rand/v2"
)

// ConcProgram is a race-free concurrent Goose program with one closed entry.
type ConcProgram struct {
	Key           string
	Source        string // package gen
	Entry         string
	Deterministic bool // the Go result does not depend on the schedule
	Boundary      bool // outside the subset of the pinned translator: rejecting it is fine, accepting it means translating it faithfully
	Terminates    bool // every Go run finishes although the result depends on the schedule: the emitted program must not deadlock either
	Allowed       []uint64 // schedule-dependent programs: the complete set of results Go can produce (by construction); the emitted program must not produce another
}

// ConcTemplates instantiates every template with seeded parameters.
func ConcTemplates(seed uint64) []ConcProgram {
	r := rand.New(rand.NewPCG(seed, 0xC03))
	k := func(lo, n int) int { return lo + r.IntN(n) }
	hdr := "package gen\n\nimport (\n\t\"sync\"\n)\n\n"
	hdrM := "package gen\n\nimport (\n\t\"sync\"\n\n\t\"github.com/goose-lang/goose/machine\"\n)\n\n"
	var ps []ConcProgram
	add := func(key string, det bool, src string) {
		ps = append(ps, ConcProgram{Key: key, Source: src, Entry: "entry", Deterministic: det})
	}
	// counter under a mutex, joined with a WaitGroup
	inc1, inc2 := k(1, 2), k(1, 2)
	add("mutex-counter-wg", true, hdr+fmt.Sprintf(`func worker(m *sync.Mutex, x *uint64, n uint64, wg *sync.WaitGroup) {
	for i := uint64(0); i < n; i++ {
		m.Lock()
		*x = *x + %d
		m.Unlock()
	}
	wg.Done()
}

func entry() uint64 {
	m := new(sync.Mutex)
	x := new(uint64)
	wg := new(sync.WaitGroup)
	wg.Add(1)
	go func() {
		worker(m, x, %d, wg)
	}()
	wg.Add(1)
	go func() {
		worker(m, x, %d, wg)
	}()
	wg.Wait()
	m.Lock()
	r := *x
	m.Unlock()
	return r
}
`, k(1, 5), inc1, inc2))
	// flag + condition variable hand-off
	val := k(3, 90)
	add("cond-handoff", true, hdr+fmt.Sprintf(`func entry() uint64 {
	m := new(sync.Mutex)
	c := sync.NewCond(m)
	ready := new(bool)
	data := new(uint64)
	go func() {
		m.Lock()
		*data = %d
		*ready = true
		c.Signal()
		m.Unlock()
	}()
	m.Lock()
	for !*ready {
		c.Wait()
	}
	r := *data
	m.Unlock()
	return r
}
`, val))
	// broadcast to two waiters
	add("cond-broadcast-two-waiters", true, hdr+fmt.Sprintf(`func waiter(m *sync.Mutex, c *sync.Cond, ready *bool, sum *uint64, v uint64, wg *sync.WaitGroup) {
	m.Lock()
	for !*ready {
		c.Wait()
	}
	*sum = *sum + v
	m.Unlock()
	wg.Done()
}

func entry() uint64 {
	m := new(sync.Mutex)
	c := sync.NewCond(m)
	ready := new(bool)
	sum := new(uint64)
	wg := new(sync.WaitGroup)
	wg.Add(1)
	go func() {
		waiter(m, c, ready, sum, %d, wg)
	}()
	wg.Add(1)
	go func() {
		waiter(m, c, ready, sum, %d, wg)
	}()
	m.Lock()
	*ready = true
	c.Broadcast()
	m.Unlock()
	wg.Wait()
	m.Lock()
	r := *sum
	m.Unlock()
	return r
}
`, k(1, 9), k(10, 9)))
	// first writer wins: schedule dependent
	add("first-writer-wins", false, hdr+`func claim(m *sync.Mutex, x *uint64, id uint64, wg *sync.WaitGroup) {
	m.Lock()
	if *x == 0 {
		*x = id
	}
	m.Unlock()
	wg.Done()
}

func entry() uint64 {
	m := new(sync.Mutex)
	x := new(uint64)
	wg := new(sync.WaitGroup)
	wg.Add(1)
	go func() {
		claim(m, x, 1, wg)
	}()
	wg.Add(1)
	go func() {
		claim(m, x, 2, wg)
	}()
	wg.Wait()
	m.Lock()
	r := *x
	m.Unlock()
	return r
}
`)
	// goroutines capture var locals of the spawner (same cells as in Go)
	add("capture-var-local", true, hdr+fmt.Sprintf(`func entry() uint64 {
	m := new(sync.Mutex)
	wg := new(sync.WaitGroup)
	var total uint64 = %d
	var extra uint64 = %d
	wg.Add(1)
	go func() {
		m.Lock()
		total = total + extra
		extra = 0
		m.Unlock()
		wg.Done()
	}()
	wg.Wait()
	m.Lock()
	r := total*100 + extra
	m.Unlock()
	return r
}
`, k(1, 20), k(1, 20)))
	// per-iteration copies captured by goroutines spawned in a loop
	add("loop-spawn-copies", true, hdr+fmt.Sprintf(`func entry() uint64 {
	m := new(sync.Mutex)
	wg := new(sync.WaitGroup)
	sum := new(uint64)
	for i := uint64(0); i < %d; i++ {
		j := i
		wg.Add(1)
		go func() {
			m.Lock()
			*sum = *sum + j + 1
			m.Unlock()
			wg.Done()
		}()
	}
	wg.Wait()
	m.Lock()
	r := *sum
	m.Unlock()
	return r
}
`, k(2, 2)))
	// polling with a timed wait
	for _, to := range []int{0, 10} {
		add(fmt.Sprintf("waittimeout-poll-%d", to), true, hdrM+fmt.Sprintf(`func entry() uint64 {
	m := new(sync.Mutex)
	c := sync.NewCond(m)
	ready := new(bool)
	go func() {
		m.Lock()
		*ready = true
		c.Signal()
		m.Unlock()
	}()
	m.Lock()
	for !*ready {
		machine.WaitTimeout(c, %d)
	}
	m.Unlock()
	return %d
}
`, to, k(40, 9)))
	}
	// a timed wait that expires, a later signal, and a later critical section
	add("waittimeout-expire-then-signal", true, hdrM+fmt.Sprintf(`func entry() uint64 {
	m := new(sync.Mutex)
	c := sync.NewCond(m)
	x := new(uint64)
	m.Lock()
	machine.WaitTimeout(c, 3)
	m.Unlock()
	m.Lock()
	c.Signal()
	m.Unlock()
	machine.Sleep(30000000)
	m.Lock()
	*x = %d
	m.Unlock()
	m.Lock()
	r := *x
	m.Unlock()
	return r
}
`, k(5, 50)))
	// three goroutines asleep at the same time
	s1, s2 := k(1, 40), k(50, 40)
	add("sleepers-overlap", true, hdrM+fmt.Sprintf(`func entry() uint64 {
	m := new(sync.Mutex)
	wg := new(sync.WaitGroup)
	x := new(uint64)
	wg.Add(1)
	go func() {
		machine.Sleep(3000000)
		m.Lock()
		*x = *x + %d
		m.Unlock()
		wg.Done()
	}()
	wg.Add(1)
	go func() {
		machine.Sleep(3000000)
		m.Lock()
		*x = *x + %d
		m.Unlock()
		wg.Done()
	}()
	machine.Sleep(3000000)
	wg.Wait()
	m.Lock()
	r := *x
	m.Unlock()
	return r
}
`, s1, s2))
	// sleep before taking the lock
	add("sleep-then-lock", true, hdrM+fmt.Sprintf(`func entry() uint64 {
	m := new(sync.Mutex)
	wg := new(sync.WaitGroup)
	x := new(uint64)
	wg.Add(1)
	go func() {
		machine.Sleep(1000)
		m.Lock()
		*x = *x + %d
		m.Unlock()
		wg.Done()
	}()
	m.Lock()
	*x = *x + 1
	m.Unlock()
	wg.Wait()
	m.Lock()
	r := *x
	m.Unlock()
	return r
}
`, k(2, 30)))
	// two locks taken in a fixed order
	add("nested-locks", true, hdr+fmt.Sprintf(`func both(a *sync.Mutex, b *sync.Mutex, x *uint64, y *uint64, wg *sync.WaitGroup) {
	a.Lock()
	b.Lock()
	*x = *x + 1
	*y = *y + *x
	b.Unlock()
	a.Unlock()
	wg.Done()
}

func entry() uint64 {
	a := new(sync.Mutex)
	b := new(sync.Mutex)
	x := new(uint64)
	y := new(uint64)
	*y = %d
	wg := new(sync.WaitGroup)
	wg.Add(1)
	go func() {
		both(a, b, x, y, wg)
	}()
	wg.Add(1)
	go func() {
		both(a, b, x, y, wg)
	}()
	wg.Wait()
	a.Lock()
	b.Lock()
	r := *x*1000 + *y
	b.Unlock()
	a.Unlock()
	return r
}
`, k(0, 5)))
	// go statement with arguments (outside the subset on the pinned tree: must be rejected or mean what Go means)
	add("go-with-args", true, hdr+`func entry() uint64 {
	m := new(sync.Mutex)
	wg := new(sync.WaitGroup)
	sum := new(uint64)
	for i := uint64(0); i < 2; i++ {
		wg.Add(1)
		go func(id uint64) {
			m.Lock()
			*sum = *sum + id
			m.Unlock()
			wg.Done()
		}(i)
	}
	wg.Wait()
	m.Lock()
	r := *sum
	m.Unlock()
	return r
}
`)
	ps[len(ps)-1].Boundary = true
	bnd := func(key string, det bool, src string) {
		ps = append(ps, ConcProgram{Key: key, Source: src, Entry: "entry", Deterministic: det, Boundary: true})
	}
	// a := variable re-assigned after a goroutine captured it (the goroutine reads it only after the assignment)
	v1, v2 := k(1, 9), k(10, 9)
	bnd("b-reassign-captured", true, hdr+fmt.Sprintf(`func entry() uint64 {
	mu := new(sync.Mutex)
	wg := new(sync.WaitGroup)
	limit := uint64(%d)
	var got uint64
	wg.Add(1)
	mu.Lock()
	go func() {
		mu.Lock()
		got = limit
		mu.Unlock()
		wg.Done()
	}()
	limit = %d
	mu.Unlock()
	wg.Wait()
	return got
}
`, v1, v2))
	// parameter re-assigned before a goroutine reads it
	bnd("b-reassign-param", true, hdr+fmt.Sprintf(`func work(x uint64) uint64 {
	wg := new(sync.WaitGroup)
	var got uint64
	x = x + %d
	wg.Add(1)
	go func() {
		got = x
		wg.Done()
	}()
	wg.Wait()
	return got
}

func entry() uint64 {
	return work(%d)
}
`, v1, v2))
	// go statement on a function literal WITH parameters: the argument is evaluated by the spawning goroutine
	bnd("b-go-args", true, hdr+fmt.Sprintf(`func entry() uint64 {
	mu := new(sync.Mutex)
	wg := new(sync.WaitGroup)
	var got uint64
	x := uint64(%d)
	wg.Add(1)
	go func(y uint64) {
		mu.Lock()
		got = y + 1
		mu.Unlock()
		wg.Done()
	}(x + %d)
	wg.Wait()
	return got
}
`, v1, v2))
	// the idiomatic loop: the parameter shadows the loop variable and receives a value computed from it
	bnd("b-go-args-loopvar", true, hdr+`func entry() uint64 {
	mu := new(sync.Mutex)
	wg := new(sync.WaitGroup)
	var sum uint64
	for i := uint64(0); i < 2; i++ {
		wg.Add(1)
		go func(i uint64) {
			mu.Lock()
			sum = sum + i*10
			mu.Unlock()
			wg.Done()
		}(i + 1)
	}
	wg.Wait()
	return sum
}
`)
	// TryLock: never blocks; the holder takes the mutex after starting the prober and keeps it until the prober is done
	bnd("b-trylock-contended", false, hdr+`func entry() uint64 {
	mu := new(sync.Mutex)
	wg := new(sync.WaitGroup)
	var got uint64
	wg.Add(1)
	go func() {
		if mu.TryLock() {
			got = 1
			mu.Unlock()
		}
		wg.Done()
	}()
	mu.Lock()
	wg.Wait()
	mu.Unlock()
	return got
}
`)
	ps[len(ps)-1].Terminates = true
	// switch on a lock-protected getter while another goroutine advances the state 0 -> 1: Go evaluates the tag once,
	// so one of the two non-default branches is taken whatever the schedule
	bnd("b-switch-tag-once", false, hdr+`type Gauge struct {
	mu *sync.Mutex
	st uint64
}

func (g *Gauge) get() uint64 {
	g.mu.Lock()
	v := g.st
	g.mu.Unlock()
	return v
}

func (g *Gauge) advance() {
	g.mu.Lock()
	g.st = 1
	g.mu.Unlock()
}

func entry() uint64 {
	g := &Gauge{mu: new(sync.Mutex)}
	wg := new(sync.WaitGroup)
	wg.Add(1)
	go func() {
		g.advance()
		wg.Done()
	}()
	var r uint64 = 0
	switch g.get() {
	case 1:
		r = 10
	case 0:
		r = 20
	default:
		r = 99
	}
	wg.Wait()
	return r
}
`)
	ps[len(ps)-1].Terminates = true
	ps[len(ps)-1].Allowed = []uint64{10, 20}
	// deferred unlock: the result must be read inside the critical section
	bnd("b-defer-unlock", true, hdr+`type Ctr struct {
	mu *sync.Mutex
	n  uint64
}

func (c *Ctr) incr() uint64 {
	c.mu.Lock()
	defer c.mu.Unlock()
	c.n = c.n + 1
	return c.n
}

func entry() uint64 {
	c := &Ctr{mu: new(sync.Mutex), n: 0}
	wg := new(sync.WaitGroup)
	var a uint64
	var b uint64
	wg.Add(2)
	go func() {
		a = c.incr()
		wg.Done()
	}()
	go func() {
		b = c.incr()
		wg.Done()
	}()
	wg.Wait()
	return a + b
}
`)
	// deferred unlock guarding a plain cell
	bnd("b-defer-unlock-cell", true, hdr+`func bump(mu *sync.Mutex, p *uint64) uint64 {
	mu.Lock()
	defer mu.Unlock()
	*p = *p + 1
	return *p
}

func entry() uint64 {
	mu := new(sync.Mutex)
	p := new(uint64)
	wg := new(sync.WaitGroup)
	var a uint64
	var b uint64
	wg.Add(2)
	go func() {
		a = bump(mu, p)
		wg.Done()
	}()
	go func() {
		b = bump(mu, p)
		wg.Done()
	}()
	wg.Wait()
	return a*a + b*b
}
`)
	// reader/writer lock
	bnd("b-rwmutex", true, hdr+fmt.Sprintf(`func entry() uint64 {
	mu := new(sync.RWMutex)
	x := new(uint64)
	wg := new(sync.WaitGroup)
	var a uint64
	wg.Add(2)
	go func() {
		mu.Lock()
		*x = *x + %d
		mu.Unlock()
		wg.Done()
	}()
	go func() {
		mu.RLock()
		a = *x
		mu.RUnlock()
		wg.Done()
	}()
	wg.Wait()
	mu.RLock()
	r := *x
	mu.RUnlock()
	return r + a - a
}
`, v1))
	// a lock-yield spin wait: release and re-acquire until the other thread has set the flag
	add("lock-yield-spin", true, hdr+fmt.Sprintf(`func entry() uint64 {
	m := new(sync.Mutex)
	ready := new(bool)
	data := new(uint64)
	go func() {
		m.Lock()
		*data = %d
		*ready = true
		m.Unlock()
	}()
	m.Lock()
	for !*ready {
		m.Unlock()
		m.Lock()
	}
	r := *data
	m.Unlock()
	return r
}
`, v1+40))
	// two critical sections back to back: another thread may run in the gap (schedule dependent)
	add("two-sections-gap", false, hdr+`func entry() uint64 {
	m := new(sync.Mutex)
	x := new(uint64)
	wg := new(sync.WaitGroup)
	wg.Add(1)
	go func() {
		m.Lock()
		*x = *x * 10
		m.Unlock()
		wg.Done()
	}()
	m.Lock()
	*x = *x + 1
	m.Unlock()
	m.Lock()
	*x = *x + 2
	m.Unlock()
	wg.Wait()
	m.Lock()
	r := *x
	m.Unlock()
	return r
}
`)
	// a goroutine changes the loop variable it captured, joined before the iteration ends
	add("loopvar-goroutine-modifies", true, hdr+`func entry() uint64 {
	var sum uint64 = 0
	for i := uint64(0); i < 5; i++ {
		wg := new(sync.WaitGroup)
		wg.Add(1)
		go func() {
			if i == 2 {
				i = i + 1
			}
			wg.Done()
		}()
		wg.Wait()
		sum = sum + i
	}
	return sum
}
`)
	// readers that must overlap: both hold the read lock while they wait for each other
	bnd("b-rwmutex-rendezvous", true, hdr+`func reader(rw *sync.RWMutex, m *sync.Mutex, cnt *uint64, wg *sync.WaitGroup) {
	rw.RLock()
	m.Lock()
	*cnt = *cnt + 1
	m.Unlock()
	m.Lock()
	for *cnt < 2 {
		m.Unlock()
		m.Lock()
	}
	m.Unlock()
	rw.RUnlock()
	wg.Done()
}

func entry() uint64 {
	rw := new(sync.RWMutex)
	m := new(sync.Mutex)
	cnt := new(uint64)
	wg := new(sync.WaitGroup)
	wg.Add(2)
	go func() {
		reader(rw, m, cnt, wg)
	}()
	go func() {
		reader(rw, m, cnt, wg)
	}()
	wg.Wait()
	m.Lock()
	r := *cnt
	m.Unlock()
	return r
}
`)
	// a worker loop whose nested wait loop returns (bare return two loops deep)
	bnd("b-nested-loop-return", true, hdr+`type Q struct {
	mu      *sync.Mutex
	cond    *sync.Cond
	pending uint64
	closed  bool
	got     uint64
}

func (q *Q) consume(wg *sync.WaitGroup) {
	for {
		q.mu.Lock()
		for q.pending == 0 {
			if q.closed {
				q.mu.Unlock()
				wg.Done()
				return
			}
			q.cond.Wait()
		}
		q.pending = q.pending - 1
		q.got = q.got + 1
		q.mu.Unlock()
	}
}

func entry() uint64 {
	mu := new(sync.Mutex)
	q := &Q{mu: mu, cond: sync.NewCond(mu), pending: 1, closed: false, got: 0}
	wg := new(sync.WaitGroup)
	wg.Add(1)
	go func() {
		q.consume(wg)
	}()
	mu.Lock()
	q.closed = true
	q.cond.Broadcast()
	mu.Unlock()
	wg.Wait()
	mu.Lock()
	r := q.got
	mu.Unlock()
	return r
}
`)
	// an if-initialiser whose name shadows a variable that a later goroutine captures
	bnd("b-if-init-shadow-capture", true, hdr+fmt.Sprintf(`func entry() uint64 {
	m := make(map[uint64]uint64)
	m[1] = %d
	v := new(uint64)
	wg := new(sync.WaitGroup)
	var r uint64 = 0
	if v, ok := m[1]; ok {
		r = v
	}
	wg.Add(1)
	go func() {
		*v = r + 1
		wg.Done()
	}()
	wg.Wait()
	return *v
}
`, v2))
	// a labelled break out of two loops under a mutex
	bnd("b-labelled-break", true, hdr+`func claim(mu *sync.Mutex, slots []uint64, misses *uint64, id uint64, wg *sync.WaitGroup) {
	mu.Lock()
outer:
	for r := uint64(0); r < 2; r++ {
		for i := uint64(0); i < uint64(len(slots)); i++ {
			if slots[i] == 0 {
				slots[i] = id
				break outer
			}
		}
		*misses = *misses + 1
	}
	mu.Unlock()
	wg.Done()
}

func entry() uint64 {
	mu := new(sync.Mutex)
	slots := make([]uint64, 5)
	misses := new(uint64)
	wg := new(sync.WaitGroup)
	wg.Add(2)
	go func() {
		claim(mu, slots, misses, 1, wg)
	}()
	go func() {
		claim(mu, slots, misses, 2, wg)
	}()
	wg.Wait()
	var n uint64 = 0
	mu.Lock()
	for _, s := range slots {
		if s != 0 {
			n = n + 1
		}
	}
	r := n*10 + *misses
	mu.Unlock()
	return r
}
`)
	// two waiters, one Signal each
	add("cond-signal-each", true, hdr+fmt.Sprintf(`func waiter(m *sync.Mutex, c *sync.Cond, tokens *uint64, sum *uint64, v uint64, wg *sync.WaitGroup) {
	m.Lock()
	for *tokens == 0 {
		c.Wait()
	}
	*tokens = *tokens - 1
	*sum = *sum + v
	m.Unlock()
	wg.Done()
}

func entry() uint64 {
	m := new(sync.Mutex)
	c := sync.NewCond(m)
	tokens := new(uint64)
	sum := new(uint64)
	wg := new(sync.WaitGroup)
	wg.Add(1)
	go func() {
		waiter(m, c, tokens, sum, %d, wg)
	}()
	wg.Add(1)
	go func() {
		waiter(m, c, tokens, sum, %d, wg)
	}()
	m.Lock()
	*tokens = *tokens + 1
	c.Signal()
	m.Unlock()
	m.Lock()
	*tokens = *tokens + 1
	c.Signal()
	m.Unlock()
	wg.Wait()
	m.Lock()
	r := *sum
	m.Unlock()
	return r
}
`, v1, v2))
	return ps
}
