package goosegen

import (
	"fmt"
	"strings"
)

type emitter struct {
	g      *gen
	indent int
}

func (g *gen) line(ind int, format string, a ...any) {
	g.sb.WriteString(strings.Repeat("\t", ind))
	fmt.Fprintf(&g.sb, format, a...)
	g.sb.WriteByte('\n')
}

type slInfo struct{ minLen int }

// block state: min lengths of slice variables known in this function
type fstate struct {
	minLen map[string]int
	rets   []Ty
}

func (g *gen) declare(s *scope, v Var) { s.vars = append(s.vars, v) }

// closeScope emits uses for every variable declared in s (Go rejects unused locals)
func (g *gen) closeScope(s *scope, ind int) {
	for _, v := range s.vars {
		g.line(ind, "_ = %s", v.Name)
	}
}

func (g *gen) newVarName(s *scope) string {
	// sometimes shadow an outer variable or a package-level constant (inner scopes only)
	if s.parent != nil && g.chance(12) {
		if all := s.parent.all(); len(all) > 0 {
			n := all[g.pick(len(all))].Name
			shadowedHere := false
			for _, v := range s.vars {
				if v.Name == n {
					shadowedHere = true
				}
			}
			if !shadowedHere && !strings.HasPrefix(n, "lv") {
				g.key("shadow.inner-block")
				return n
			}
		}
	}
	if len(g.consts) > 0 && g.chance(8) {
		n := g.consts[g.pick(len(g.consts))].Name
		for _, v := range s.vars {
			if v.Name == n {
				return g.fresh("v")
			}
		}
		g.key("shadow.global-const")
		return n
	}
	return g.fresh("v")
}

var valueTypes = []Ty{U64, U64, U64, U32, U8, Bool, Str}

func (g *gen) randValueType() Ty { return valueTypes[g.pick(len(valueTypes))] }

// stmt emits one statement (possibly compound). tail: may this statement end the function with returns.
func (g *gen) stmt(s *scope, fs *fstate, ind int, depth int) {
	// the first 22 kinds (the core of the subset) are drawn twice as often as the later additions
	kind := g.pick(52 + 22)
	if kind >= 52 {
		kind -= 52
	}
	switch kind {
	case 0, 1: // x := e
		t := g.randValueType()
		e := g.expr(s, t, 2)
		n := g.newVarName(s)
		if t.K == "u8" {
			// the inferred type must be byte (goose does not know the type name uint8)
			g.line(ind, "%s := byte(%s)", n, e)
		} else {
			g.line(ind, "%s := %s", n, g.typedInit(t, e))
		}
		g.declare(s, Var{Name: n, T: t})
		g.key("define." + t.K)
	case 2, 3: // var x T = e
		t := g.randValueType()
		e := g.expr(s, t, 2)
		n := g.newVarName(s)
		if g.chance(25) {
			g.line(ind, "var %s %s", n, t.Go())
			g.key("var.zero." + t.K)
		} else {
			g.line(ind, "var %s %s = %s", n, t.Go(), e)
			g.key("var.init." + t.K)
		}
		g.declare(s, Var{Name: n, T: t, Assignable: true})
	case 4, 5: // assignment / op-assign to a var
		var cands []Var
		for _, v := range s.all() {
			if v.Assignable && (v.T.IsInt() || v.T.K == "bool" || v.T.K == "str") {
				cands = append(cands, v)
			}
		}
		if len(cands) == 0 {
			return
		}
		v := cands[g.pick(len(cands))]
		if v.T.IsInt() && g.chance(50) {
			op := []string{"+=", "-=", "|=", "&=", "^="}[g.pick(5)]
			g.key("opassign." + v.T.K)
			g.line(ind, "%s %s %s", v.Name, op, g.expr(s, v.T, 2))
		} else if v.T.K == "u64" && g.chance(30) {
			g.key("incdec.u64")
			g.line(ind, "%s%s", v.Name, []string{"++", "--"}[g.pick(2)])
		} else {
			g.key("assign." + v.T.K)
			g.line(ind, "%s = %s", v.Name, g.expr(s, v.T, 2))
		}
	case 6: // if / else (no returns)
		if depth <= 0 {
			return
		}
		g.key("if.plain")
		g.line(ind, "if %s {", g.expr(s, Bool, 2))
		g.block(s, fs, ind+1, depth-1, 1+g.pick(2))
		if g.chance(60) {
			if g.chance(30) {
				g.key("if.elseif")
				g.line(ind, "} else if %s {", g.expr(s, Bool, 1))
				g.block(s, fs, ind+1, depth-1, 1+g.pick(2))
			}
			g.line(ind, "} else {")
			g.block(s, fs, ind+1, depth-1, 1+g.pick(2))
		}
		g.line(ind, "}")
	case 7: // counted loop accumulating into an assignable variable
		if depth <= 0 || g.loopDepth >= 2 {
			return
		}
		g.loopStmt(s, fs, ind, depth)
	case 8: // slice creation
		et := []Ty{U64, U64, U8, U32, Bool}[g.pick(5)]
		n := g.fresh("s")
		ln := 1 + g.pick(4)
		assignable := g.chance(50)
		if assignable {
			g.line(ind, "var %s %s = make(%s, %d)", n, SliceOf(et).Go(), SliceOf(et).Go(), ln)
		} else {
			g.line(ind, "%s := make(%s, %d)", n, SliceOf(et).Go(), ln)
		}
		g.key("slice.make." + et.K)
		g.declare(s, Var{Name: n, T: SliceOf(et), Assignable: assignable})
		fs.minLen[n] = ln
	case 9: // slice element store
		if v, ok := g.pickSlice(s, fs, 1); ok {
			g.key("slice.set." + v.T.Elem.K)
			g.line(ind, "%s[%s] = %s", v.Name, g.index(s, fs, v), g.expr(s, *v.T.Elem, 2))
		}
	case 10: // slice element read into a local
		if v, ok := g.pickSlice(s, fs, 1); ok {
			n := g.fresh("v")
			g.key("slice.get." + v.T.Elem.K)
			g.line(ind, "%s := %s[%s]", n, v.Name, g.index(s, fs, v))
			g.declare(s, Var{Name: n, T: *v.T.Elem})
		}
	case 11: // append (linear form)
		var cands []Var
		for _, v := range s.all() {
			if v.T.K == "slice" && v.Assignable {
				cands = append(cands, v)
			}
		}
		if len(cands) > 0 {
			v := cands[g.pick(len(cands))]
			g.key("slice.append." + v.T.Elem.K)
			g.line(ind, "%s = append(%s, %s)", v.Name, v.Name, g.expr(s, *v.T.Elem, 2))
			fs.minLen[v.Name]++
		}
	case 12: // sub-slice
		if v, ok := g.pickSlice(s, fs, 2); ok {
			ml := fs.minLen[v.Name]
			lo := g.pick(ml)
			hi := lo + 1 + g.pick(ml-lo)
			n := g.fresh("s")
			switch g.pick(3) {
			case 0:
				g.line(ind, "%s := %s[%d:%d]", n, v.Name, lo, hi)
				fs.minLen[n] = hi - lo
			case 1:
				g.line(ind, "%s := %s[:%d]", n, v.Name, hi)
				fs.minLen[n] = hi
			default:
				g.line(ind, "%s := %s[%d:]", n, v.Name, lo)
				fs.minLen[n] = ml - lo
			}
			g.key("slice.sub")
			g.declare(s, Var{Name: n, T: v.T})
		}
	case 13: // map
		vt := []Ty{U64, U64, Bool, U32}[g.pick(4)]
		n := g.fresh("m")
		g.line(ind, "%s := make(%s)", n, MapOf(vt).Go())
		g.key("map.make")
		g.declare(s, Var{Name: n, T: MapOf(vt)})
		for i := 0; i < 1+g.pick(3); i++ {
			g.line(ind, "%s[%s] = %s", n, g.smallKey(), g.expr(s, vt, 1))
		}
	case 14: // map ops
		var ms []Var
		for _, v := range s.all() {
			if v.T.K == "map" {
				ms = append(ms, v)
			}
		}
		if len(ms) == 0 {
			return
		}
		m := ms[g.pick(len(ms))]
		switch g.pick(4) {
		case 0:
			g.key("map.insert")
			g.line(ind, "%s[%s] = %s", m.Name, g.smallKey(), g.expr(s, *m.T.Elem, 2))
		case 1:
			g.key("map.delete")
			g.line(ind, "delete(%s, %s)", m.Name, g.smallKey())
		case 2:
			a, b := g.fresh("v"), g.fresh("ok")
			g.key("map.get2")
			g.line(ind, "%s, %s := %s[%s]", a, b, m.Name, g.smallKey())
			g.declare(s, Var{Name: a, T: *m.T.Elem})
			g.declare(s, Var{Name: b, T: Bool})
		default:
			a := g.fresh("v")
			g.key("map.get1")
			g.line(ind, "%s := %s[%s]", a, m.Name, g.smallKey())
			g.declare(s, Var{Name: a, T: *m.T.Elem})
		}
	case 15: // pointer to a fresh cell, stores through it
		t := []Ty{U64, U32, U8, Bool}[g.pick(4)]
		n := g.fresh("p")
		g.line(ind, "%s := new(%s)", n, t.Go())
		g.line(ind, "*%s = %s", n, g.expr(s, t, 2))
		g.key("ptr.new." + t.K)
		g.declare(s, Var{Name: n, T: PtrTo(t)})
	case 16: // store through an existing pointer / address of a var local
		var ps []Var
		for _, v := range s.all() {
			if v.T.K == "ptr" && v.T.Elem.K != "struct" {
				ps = append(ps, v)
			}
		}
		if len(ps) > 0 && g.chance(60) {
			p := ps[g.pick(len(ps))]
			g.key("ptr.store")
			g.line(ind, "*%s = %s", p.Name, g.expr(s, *p.T.Elem, 2))
			return
		}
		var vs []Var
		for _, v := range s.all() {
			if v.Assignable && (v.T.IsInt() || v.T.K == "bool") {
				vs = append(vs, v)
			}
		}
		if len(vs) > 0 {
			v := vs[g.pick(len(vs))]
			n := g.fresh("p")
			g.key("addr.var-local")
			g.line(ind, "%s := &%s", n, v.Name)
			g.declare(s, Var{Name: n, T: PtrTo(v.T)})
		}
	case 17: // struct allocation and field updates
		if len(g.structs) == 0 {
			return
		}
		sd := g.structs[g.pick(len(g.structs))]
		n := g.fresh("st")
		var inits []string
		for _, f := range sd.Fields {
			if g.chance(60) {
				inits = append(inits, fmt.Sprintf("%s: %s", f.Name, g.expr(s, f.T, 1)))
			}
		}
		switch g.pick(3) {
		case 0:
			g.key("struct.ptr-literal")
			g.line(ind, "%s := &%s{%s}", n, sd.Name, strings.Join(inits, ", "))
			g.declare(s, Var{Name: n, T: PtrTo(Ty{K: "struct", Name: sd.Name})})
		case 1:
			g.key("struct.var-value")
			g.line(ind, "var %s %s = %s{%s}", n, sd.Name, sd.Name, strings.Join(inits, ", "))
			g.declare(s, Var{Name: n, T: Ty{K: "struct", Name: sd.Name}, Assignable: true})
		default:
			g.key("struct.define-value")
			g.line(ind, "%s := %s{%s}", n, sd.Name, strings.Join(inits, ", "))
			g.declare(s, Var{Name: n, T: Ty{K: "struct", Name: sd.Name}})
		}
	case 18: // field store
		var cands []Var
		for _, v := range s.all() {
			if (v.T.K == "ptr" && v.T.Elem.K == "struct") || (v.T.K == "struct" && v.Assignable) {
				cands = append(cands, v)
			}
		}
		if len(cands) == 0 {
			return
		}
		v := cands[g.pick(len(cands))]
		sn := v.T.Name
		if v.T.K == "ptr" {
			sn = v.T.Elem.Name
		}
		sd := g.structByName(sn)
		f := sd.Fields[g.pick(len(sd.Fields))]
		if f.T.K == "slice" {
			return
		}
		g.key("struct.field-store")
		g.line(ind, "%s.%s = %s", v.Name, f.Name, g.expr(s, f.T, 2))
	case 19: // call with multiple results / method call
		g.callStmt(s, fs, ind)
	case 20: // bytes / encoding
		g.encodingStmt(s, fs, ind)
	case 21: // closure capturing a var local
		g.closureStmt(s, fs, ind)
	case 22: // make with capacity, cap()
		et := []Ty{U64, U8, U32}[g.pick(3)]
		n := g.fresh("s")
		ln, cp := 1+g.pick(3), 3+g.pick(4)
		g.key("slice.make-cap." + et.K)
		g.line(ind, "%s := make(%s, %d, %d)", n, SliceOf(et).Go(), ln, cp)
		g.declare(s, Var{Name: n, T: SliceOf(et)})
		fs.minLen[n] = ln
		c := g.fresh("v")
		g.line(ind, "%s := uint64(cap(%s)) + uint64(len(%s))", c, n, n)
		g.declare(s, Var{Name: c, T: U64})
	case 23: // copy between slices
		a, ok1 := g.pickSlice(s, fs, 1)
		if !ok1 {
			return
		}
		var bs []Var
		for _, v := range s.all() {
			if v.T.Eq(a.T) && v.Name != a.Name {
				bs = append(bs, v)
			}
		}
		if len(bs) == 0 {
			return
		}
		b := bs[g.pick(len(bs))]
		n := g.fresh("v")
		g.key("slice.copy")
		g.line(ind, "%s := uint64(copy(%s, %s))", n, a.Name, b.Name)
		g.declare(s, Var{Name: n, T: U64})
	case 24: // append a whole slice
		var as []Var
		for _, v := range s.all() {
			if v.T.K == "slice" && v.Assignable {
				as = append(as, v)
			}
		}
		if len(as) == 0 {
			return
		}
		a := as[g.pick(len(as))]
		var bs []Var
		for _, v := range s.all() {
			if v.T.Eq(a.T) && v.Name != a.Name {
				bs = append(bs, v)
			}
		}
		if len(bs) == 0 {
			return
		}
		g.key("slice.append-slice")
		g.line(ind, "%s = append(%s, %s...)", a.Name, a.Name, bs[g.pick(len(bs))].Name)
	case 25: // pointer to a slice element
		if v, ok := g.pickSlice(s, fs, 1); ok && v.T.Elem.K != "bool" {
			p := g.fresh("p")
			g.key("addr.slice-elem")
			g.line(ind, "%s := &%s[%s]", p, v.Name, g.index(s, fs, v))
			g.line(ind, "*%s = %s", p, g.expr(s, *v.T.Elem, 1))
			g.declare(s, Var{Name: p, T: PtrTo(*v.T.Elem)})
		}
	case 26: // new(S), whole-struct load and store through a pointer
		if len(g.structs) == 0 {
			return
		}
		sd := g.structs[g.pick(len(g.structs))]
		st := Ty{K: "struct", Name: sd.Name}
		p := g.fresh("st")
		g.key("struct.new")
		g.line(ind, "%s := new(%s)", p, sd.Name)
		g.declare(s, Var{Name: p, T: PtrTo(st)})
		f := sd.Fields[g.pick(len(sd.Fields))]
		g.line(ind, "%s.%s = %s", p, f.Name, g.expr(s, f.T, 1))
		if g.chance(60) {
			v := g.fresh("st")
			g.key("struct.load-store")
			g.line(ind, "%s := *%s", v, p)
			g.declare(s, Var{Name: v, T: st})
			q := g.fresh("st")
			g.line(ind, "%s := new(%s)", q, sd.Name)
			g.line(ind, "*%s = %s", q, v)
			g.declare(s, Var{Name: q, T: PtrTo(st)})
		}
	case 27: // pointer to a field
		var cands []Var
		for _, v := range s.all() {
			if v.T.K == "ptr" && v.T.Elem.K == "struct" {
				cands = append(cands, v)
			}
		}
		if len(cands) == 0 {
			return
		}
		v := cands[g.pick(len(cands))]
		sd := g.structByName(v.T.Elem.Name)
		f := sd.Fields[g.pick(len(sd.Fields))]
		if f.T.K == "str" {
			return
		}
		p := g.fresh("p")
		g.key("addr.field")
		g.line(ind, "%s := &%s.%s", p, v.Name, f.Name)
		g.line(ind, "*%s = %s", p, g.expr(s, f.T, 1))
		g.declare(s, Var{Name: p, T: PtrTo(f.T)})
	case 28: // assignment of several results to var locals
		var fsig *FuncSig
		for i := range g.funcs {
			f := g.funcs[i]
			if f.Name != g.cur && f.Recv == nil && len(f.Results) == 2 && f.Pure {
				fsig = &g.funcs[i]
			}
		}
		if fsig == nil {
			return
		}
		a := s.ofType(fsig.Results[0], true)
		b := s.ofType(fsig.Results[1], true)
		if len(a) == 0 || len(b) == 0 || a[0].Name == b[len(b)-1].Name {
			return
		}
		var args []string
		for _, p := range fsig.Params {
			args = append(args, g.expr(s, p.T, 1))
		}
		g.key("assign.multi-from-call")
		g.line(ind, "%s, %s = %s(%s)", a[0].Name, b[len(b)-1].Name, fsig.Name, strings.Join(args, ", "))
	case 29: // nil comparison of a pointer
		var ps []Var
		for _, v := range s.all() {
			if v.T.K == "ptr" {
				ps = append(ps, v)
			}
		}
		if len(ps) == 0 {
			return
		}
		n := g.fresh("v")
		g.key("nil.pointer-compare")
		g.line(ind, "%s := %s %s nil", n, ps[g.pick(len(ps))].Name, []string{"==", "!="}[g.pick(2)])
		g.declare(s, Var{Name: n, T: Bool})
	case 30: // infinite loop left by break
		if depth <= 0 || g.loopDepth >= 2 {
			return
		}
		g.loopDepth++
		c := g.fresh("lv")
		g.key("loop.forever-break")
		g.line(ind, "var %s uint64 = 0", c)
		g.declare(s, Var{Name: c, T: U64})
		g.line(ind, "for {")
		g.line(ind+1, "if %s >= %d {", c, 1+g.pick(4))
		g.line(ind+2, "break")
		g.line(ind+1, "}")
		body := &scope{parent: s}
		for k := 0; k < 1+g.pick(2); k++ {
			g.stmt(body, fs, ind+1, depth-1)
		}
		g.closeScope(body, ind+1)
		g.line(ind+1, "%s = %s + 1", c, c)
		g.line(ind, "}")
		g.loopDepth--
	case 31: // slice of structs
		if len(g.structs) == 0 {
			return
		}
		sd := g.structs[g.pick(len(g.structs))]
		st := Ty{K: "struct", Name: sd.Name}
		n := g.fresh("ss")
		ln := 1 + g.pick(3)
		g.key("slice.of-structs")
		g.line(ind, "%s := make([]%s, %d)", n, sd.Name, ln)
		var inits []string
		for _, f := range sd.Fields {
			inits = append(inits, fmt.Sprintf("%s: %s", f.Name, g.expr(s, f.T, 1)))
		}
		g.line(ind, "%s[%d] = %s{%s}", n, g.pick(ln), sd.Name, strings.Join(inits, ", "))
		e := g.fresh("st")
		g.line(ind, "%s := %s[%d]", e, n, g.pick(ln))
		g.declare(s, Var{Name: e, T: st})
		_ = n
	case 32: // map with string keys
		n := g.fresh("ms")
		g.key("map.string-keys")
		g.line(ind, "%s := make(map[string]uint64)", n)
		g.line(ind, "%s[%s] = %s", n, g.expr(s, Str, 1), g.expr(s, U64, 1))
		g.line(ind, "%s[\"k\"] = %s", n, g.expr(s, U64, 1))
		a, b := g.fresh("v"), g.fresh("ok")
		g.line(ind, "%s, %s := %s[%s]", a, b, n, g.expr(s, Str, 1))
		g.declare(s, Var{Name: a, T: U64})
		g.declare(s, Var{Name: b, T: Bool})
		c := g.fresh("v")
		g.line(ind, "%s := uint64(len(%s))", c, n)
		g.declare(s, Var{Name: c, T: U64})
	case 33: // string comparison and length in a condition
		svs := s.ofType(Str, false)
		if len(svs) == 0 {
			return // len of a constant string is a constant expression goose does not accept
		}
		n := g.fresh("v")
		g.key("str.len-cond")
		g.line(ind, "var %s uint64 = 0", n)
		g.line(ind, "if uint64(len(%s)) > %d {", svs[g.pick(len(svs))].Name, g.pick(6))
		g.line(ind+1, "%s = %s", n, g.expr(s, U64, 1))
		g.line(ind, "}")
		g.declare(s, Var{Name: n, T: U64, Assignable: true})
	case 34: // named integer type: conversions, method with a self call, users that only see *NT0
		p, n, a, b := g.fresh("np"), g.fresh("nt"), g.fresh("v"), g.fresh("v")
		g.key("named-int")
		g.line(ind, "%s := new(NT0)", p)
		g.line(ind, "*%s = NT0(%s)", p, g.expr(s, U64, 1))
		g.line(ind, "%s := NT0(%s %% 1000)", n, g.expr(s, U64, 1))
		g.line(ind, "%s := ntBoth(%s) + %s.halvings()", a, p, n)
		g.line(ind, "%s := ntLoad(%s) + uint64(%s)", b, p, n)
		g.declare(s, Var{Name: a, T: U64})
		g.declare(s, Var{Name: b, T: U64})
	case 35: // constants declared together
		n := g.fresh("v")
		g.key("const.multi-name")
		switch g.pick(4) {
		case 0:
			g.line(ind, "%s := useKB(KA)", n)
		case 1:
			g.line(ind, "%s := useKA(KB)", n)
		case 2:
			g.line(ind, "%s := useKB(%s) + KA", n, g.expr(s, U64, 1))
		default:
			g.line(ind, "%s := KB - useKA(%s)", n, g.expr(s, U64, 1))
		}
		g.declare(s, Var{Name: n, T: U64})
	case 36: // struct passed where an interface is expected
		n := g.fresh("v")
		g.key("interface.call")
		switch g.pick(3) {
		case 0:
			g.line(ind, "%s := measure(Sq{w: %s})", n, g.expr(s, U64, 1))
		case 1:
			r := g.fresh("rc")
			g.line(ind, "%s := Rc{w: %s, h: %s}", r, g.expr(s, U64, 1), g.expr(s, U64, 1))
			g.line(ind, "%s := measure(%s) + %s.area()", n, r, r)
		default:
			q := g.fresh("sq")
			g.line(ind, "%s := Sq{w: %s}", q, g.expr(s, U64, 1))
			g.line(ind, "%s := measure(%s) + measure(Rc{w: %s.scale(3), h: %s})", n, q, q, g.expr(s, U64, 1))
		}
		g.declare(s, Var{Name: n, T: U64})
	case 37: // range over an operand that is not a plain variable
		bg, t := g.fresh("bg"), g.fresh("v")
		k, x := g.fresh("lv"), g.fresh("lv")
		g.key("loop.range-compound")
		g.line(ind, "%s := &Bag{items: mkItems(%d, %s), n: %s}", bg, 2+g.pick(3), g.expr(s, U64, 1), g.expr(s, U64, 1))
		g.line(ind, "var %s uint64 = %s.n", t, bg)
		switch g.pick(4) {
		case 0:
			g.line(ind, "for %s, %s := range %s.items {", k, x, bg)
		case 1:
			g.line(ind, "for %s, %s := range mkItems(%d, %s) {", k, x, 1+g.pick(3), g.expr(s, U64, 1))
		case 2:
			g.line(ind, "for %s, %s := range %s.items[1:] {", k, x, bg)
		default:
			g.line(ind, "for %s, %s := range append(%s.items, %s) {", k, x, bg, g.expr(s, U64, 1))
		}
		g.line(ind+1, "%s = %s*3 + %s + uint64(%s)", t, t, x, k)
		g.line(ind, "}")
		g.declare(s, Var{Name: t, T: U64, Assignable: true})
	case 38: // one-line branches assigning strings; several results from a call that takes a string
		sv, a, b := g.fresh("sv"), g.fresh("v"), g.fresh("sv")
		g.key("str.branch-oneline")
		g.line(ind, "var %s string = %s", sv, g.expr(s, Str, 1))
		g.line(ind, "if %s {", g.expr(s, Bool, 1))
		g.line(ind+1, "%s = %s", sv, g.lit(Str))
		g.line(ind, "} else {")
		g.line(ind+1, "%s = %s", sv, g.lit(Str))
		g.line(ind, "}")
		g.line(ind, "%s, %s := fmt2(%s, %s)", a, b, g.lit(Str), g.expr(s, U64, 1))
		g.declare(s, Var{Name: sv, T: Str, Assignable: true})
		g.declare(s, Var{Name: a, T: U64})
		g.declare(s, Var{Name: b, T: Str})
	case 39: // a function that returns a closure
		f, n := g.fresh("ad"), g.fresh("v")
		g.key("closure.returned")
		g.line(ind, "%s := mkAdder(%s)", f, g.expr(s, U64, 1))
		g.line(ind, "%s := %s(%s) + %s(%s)", n, f, g.expr(s, U64, 1), f, g.expr(s, U64, 1))
		g.declare(s, Var{Name: n, T: U64})
	case 40: // method value bound to a pointer, called after the struct changed
		c, f, n := g.fresh("cl"), g.fresh("mv"), g.fresh("v")
		g.key("method.value")
		g.line(ind, "%s := &Cell{v: %s}", c, g.expr(s, U64, 1))
		g.line(ind, "%s := %s.get", f, c)
		g.line(ind, "%s.v = %s", c, g.expr(s, U64, 1))
		g.line(ind, "%s := %s(%s)", n, f, g.expr(s, U64, 1))
		g.declare(s, Var{Name: n, T: U64})
	case 41: // generic function, explicit and inferred instantiation
		n, b := g.fresh("v"), g.fresh("v")
		g.key("generic.call")
		g.line(ind, "%s := pick2[uint64](%s, %s, %s)", n, g.expr(s, U64, 1), g.expr(s, U64, 1), g.expr(s, Bool, 1))
		g.line(ind, "%s := pick2[bool](%s, %s, %s)", b, g.expr(s, Bool, 1), g.expr(s, Bool, 1), g.expr(s, Bool, 1))
		g.declare(s, Var{Name: n, T: U64})
		g.declare(s, Var{Name: b, T: Bool})
	case 42: // package-level variable (read only)
		n := g.fresh("v")
		g.key("global.var-read")
		g.line(ind, "%s := G0 ^ %s", n, g.expr(s, U64, 1))
		g.declare(s, Var{Name: n, T: U64})
	case 43: // loops with other post statements / without init
		t, i := g.fresh("v"), g.fresh("lv")
		g.key("loop.post-variants")
		g.line(ind, "var %s uint64 = %s", t, g.expr(s, U64, 1))
		switch g.pick(3) {
		case 0:
			g.line(ind, "for %s := uint64(0); %s < %d; %s += 2 {", i, i, 3+g.pick(6), i)
			g.line(ind+1, "%s = %s*3 + %s", t, t, i)
			g.line(ind, "}")
		case 1:
			g.line(ind, "var %s uint64 = 1", i)
			g.line(ind, "for ; %s < %d; %s++ {", i, 2+g.pick(5), i)
			g.line(ind+1, "%s = %s + %s*%s", t, t, i, i)
			g.line(ind, "}")
			g.declare(s, Var{Name: i, T: U64})
		default:
			g.line(ind, "for %s := uint64(0); %s < %d; %s++ {", i, i, 3+g.pick(4), i)
			g.line(ind+1, "if %s == %d {", i, 1+g.pick(2))
			g.line(ind+2, "continue")
			g.line(ind+1, "}")
			g.line(ind+1, "%s = %s*7 + %s", t, t, i)
			g.line(ind, "}")
		}
		g.declare(s, Var{Name: t, T: U64, Assignable: true})
	case 44: // range with the index only; range over a map (commutative fold)
		sl, m, t := g.fresh("rs"), g.fresh("rm"), g.fresh("v")
		i, k, x := g.fresh("lv"), g.fresh("lv"), g.fresh("lv")
		g.key("loop.range-index-map")
		g.line(ind, "%s := make([]uint64, %d)", sl, 1+g.pick(4))
		g.line(ind, "var %s uint64 = 0", t)
		g.line(ind, "for %s := range %s {", i, sl)
		g.line(ind+1, "%s = %s + uint64(%s) + 1", t, t, i)
		g.line(ind, "}")
		g.line(ind, "%s := make(map[uint64]uint64)", m)
		g.line(ind, "%s[%s] = %s", m, g.smallKey(), g.expr(s, U64, 1))
		g.line(ind, "%s[%s] = %s", m, g.smallKey(), g.expr(s, U64, 1))
		g.line(ind, "for %s, %s := range %s {", k, x, m)
		g.line(ind+1, "%s = %s + (%s ^ %s)", t, t, k, x)
		g.line(ind, "}")
		g.declare(s, Var{Name: t, T: U64, Assignable: true})
		fs.minLen[sl] = 1
	case 45: // compound assignment to a field, an element and through a pointer
		c, sl, p, n := g.fresh("cl"), g.fresh("os"), g.fresh("op"), g.fresh("v")
		g.key("opassign.places")
		g.line(ind, "%s := &Cell{v: %s, w: %s}", c, g.expr(s, U64, 1), g.expr(s, U32, 1))
		g.line(ind, "%s.v %s %s", c, []string{"+=", "-=", "|=", "^="}[g.pick(4)], g.expr(s, U64, 1))
		g.line(ind, "%s.w %s %s", c, []string{"+=", "&=", "^="}[g.pick(3)], g.expr(s, U32, 1))
		g.line(ind, "%s := make([]uint64, 3)", sl)
		g.line(ind, "%s[1] += %s", sl, g.expr(s, U64, 1))
		g.line(ind, "%s[1] ^= %s", sl, g.expr(s, U64, 1))
		g.line(ind, "%s := new(uint64)", p)
		g.line(ind, "*%s += %s", p, g.expr(s, U64, 1))
		g.line(ind, "*%s -= %s", p, g.expr(s, U64, 1))
		g.line(ind, "%s := %s.v + uint64(%s.w) + %s[1] + *%s", n, c, c, sl, p)
		g.declare(s, Var{Name: n, T: U64})
	case 46: // struct values are copied: by assignment and when passed
		a, b, n := g.fresh("ca"), g.fresh("cb"), g.fresh("v")
		g.key("struct.value-copy")
		g.line(ind, "var %s Cell", a)
		g.line(ind, "%s.v = %s", a, g.expr(s, U64, 1))
		g.line(ind, "%s := %s", b, a)
		g.line(ind, "%s.v = %s", a, g.expr(s, U64, 1))
		g.line(ind, "%s := cellSum(%s)*3 + cellSum(%s) + %s.v", n, a, b, b)
		g.declare(s, Var{Name: n, T: U64})
	case 47: // pointer to pointer, pointer equality
		x, pp, y, n := g.fresh("px"), g.fresh("pp"), g.fresh("py"), g.fresh("v")
		g.key("ptr.to-ptr-compare")
		g.line(ind, "%s := new(uint64)", x)
		g.line(ind, "%s := new(*uint64)", pp)
		g.line(ind, "*%s = %s", pp, x)
		g.line(ind, "**%s = %s", pp, g.expr(s, U64, 1))
		g.line(ind, "%s := new(uint64)", y)
		g.line(ind, "var %s uint64 = *%s", n, x)
		g.line(ind, "if %s == %s {", x, y)
		g.line(ind+1, "%s = %s + 1", n, n)
		g.line(ind, "}")
		g.line(ind, "if *%s == %s {", pp, x)
		g.line(ind+1, "%s = %s + 10", n, n)
		g.line(ind, "}")
		g.declare(s, Var{Name: n, T: U64, Assignable: true})
	case 48: // appends that share a backing array
		a, b, c, n := g.fresh("sa"), g.fresh("sb"), g.fresh("sc"), g.fresh("v")
		g.key("slice.append-alias")
		g.line(ind, "%s := make([]uint64, 1, 4)", a)
		g.line(ind, "%s := append(%s, %s)", b, a, g.expr(s, U64, 1))
		g.line(ind, "%s := append(%s, %s)", c, a, g.expr(s, U64, 1))
		g.line(ind, "%s := %s[1]*3 + %s[1] + uint64(len(%s)) + uint64(cap(%s))", n, b, c, b, c)
		g.declare(s, Var{Name: n, T: U64})
	case 49: // the disk FFI: write a block, read it (or another one) back
		if g.ndisk >= 2 {
			return // blocks are 4096 cells in the model: keep programs small
		}
		g.ndisk++
		blk, rb, n := g.fresh("bk"), g.fresh("rb"), g.fresh("v")
		a := g.pick(30)
		g.key("ffi.disk")
		g.line(ind, "%s := make([]byte, disk.BlockSize)", blk)
		g.line(ind, "machine.UInt64Put(%s, %s)", blk, g.expr(s, U64, 1))
		g.line(ind, "disk.Write(%d, %s)", a, blk)
		g.line(ind, "%s[0] = 7", blk)
		g.line(ind, "%s := disk.Read(%d)", rb, []int{a, a, (a + 1) % 30}[g.pick(3)])
		g.line(ind, "%s := machine.UInt64Get(%s) + disk.Size() + uint64(len(%s))", n, rb, rb)
		g.declare(s, Var{Name: n, T: U64})
	case 50: // pointer to a pointer to a struct: load and replace the inner pointer through the outer one
		q, r, x, n := g.fresh("cq"), g.fresh("cr"), g.fresh("v"), g.fresh("v")
		g.key("ptr.to-ptr-struct")
		g.line(ind, "var %s *Cell = &Cell{v: %s, w: %s}", q, g.expr(s, U64, 1), g.expr(s, U32, 1))
		g.line(ind, "%s := &%s", r, q)
		g.line(ind, "%s := (*%s).v + uint64((*%s).w)", x, r, r)
		g.line(ind, "*%s = &Cell{v: %s}", r, g.expr(s, U64, 1))
		g.line(ind, "(*%s).w = %s", r, g.expr(s, U32, 1))
		g.line(ind, "%s := %s*3 + %s.v + uint64(%s.w) + %s.get(1)", n, x, q, q, q)
		g.declare(s, Var{Name: n, T: U64})
	case 51: // a closure that changes the loop variable it captured
		t, i, f := g.fresh("v"), g.fresh("lv"), g.fresh("cf")
		g.key("closure.loopvar-modified")
		g.line(ind, "var %s uint64 = %s", t, g.expr(s, U64, 1))
		g.line(ind, "for %s := uint64(0); %s < %d; %s++ {", i, i, 4+g.pick(4), i)
		g.line(ind+1, "%s := func() {", f)
		g.line(ind+2, "%s = %s + 1", i, i)
		g.line(ind+1, "}")
		g.line(ind+1, "if %s == %d {", i, 1+g.pick(2))
		g.line(ind+2, "%s()", f)
		g.line(ind+1, "}")
		g.line(ind+1, "%s = %s*5 + %s", t, t, i)
		g.line(ind, "}")
		g.declare(s, Var{Name: t, T: U64, Assignable: true})
	}
}

func (g *gen) typedInit(t Ty, e string) string {
	// a := <literal> would get type int: wrap constants in a conversion
	switch t.K {
	case "u64", "u32", "u8":
		if isAllDigits(e) {
			return fmt.Sprintf("%s(%s)", t.Conv(), e)
		}
	}
	return e
}

func isAllDigits(s string) bool {
	if s == "" {
		return false
	}
	for _, c := range s {
		if c < '0' || c > '9' {
			return false
		}
	}
	return true
}

func (g *gen) smallKey() string { return fmt.Sprint([]int{0, 1, 2, 3, 7, 100}[g.pick(6)]) }

func (g *gen) pickSlice(s *scope, fs *fstate, need int) (Var, bool) {
	var cands []Var
	for _, v := range s.all() {
		if v.T.K == "slice" && fs.minLen[v.Name] >= need {
			cands = append(cands, v)
		}
	}
	if len(cands) == 0 {
		return Var{}, false
	}
	return cands[g.pick(len(cands))], true
}

func (g *gen) index(s *scope, fs *fstate, v Var) string {
	ml := fs.minLen[v.Name]
	if g.chance(50) {
		return fmt.Sprint(g.pick(ml))
	}
	return fmt.Sprintf("(%s %% %d)", g.expr(s, U64, 1), ml)
}

func (g *gen) block(parent *scope, fs *fstate, ind, depth, n int) {
	s := &scope{parent: parent}
	for i := 0; i < n; i++ {
		g.stmt(s, fs, ind, depth)
	}
	g.closeScope(s, ind)
}

func (g *gen) loopStmt(s *scope, fs *fstate, ind, depth int) {
	g.loopDepth++
	defer func() { g.loopDepth-- }()
	trip := 1 + g.pick(5)
	switch g.pick(4) {
	case 0, 1: // standard for loop
		i := g.fresh("lv")
		g.key("loop.for3")
		g.line(ind, "for %s := uint64(0); %s < %d; %s++ {", i, i, trip, i)
		inner := &scope{parent: s}
		g.declare(inner, Var{Name: i, T: U64})
		body := &scope{parent: inner}
		for k := 0; k < 1+g.pick(3); k++ {
			g.stmt(body, fs, ind+1, depth-1)
		}
		if g.chance(40) {
			g.key("loop.break-continue")
			g.line(ind+1, "if %s {", g.expr(body, Bool, 1))
			g.closeScopeVars(body, ind+2)
			g.line(ind+2, "%s", []string{"break", "continue"}[g.pick(2)])
			g.line(ind+1, "}")
			for k := 0; k < g.pick(2); k++ {
				g.stmt(body, fs, ind+1, depth-1)
			}
		}
		g.closeScope(body, ind+1)
		g.line(ind, "}")
	case 2: // while-style loop with an explicit counter
		c := g.fresh("lv")
		g.key("loop.while")
		g.line(ind, "var %s uint64 = 0", c)
		g.declare(s, Var{Name: c, T: U64}) // not offered as assignable: the body must not disturb the counter
		g.line(ind, "for %s < %d {", c, trip)
		body := &scope{parent: s}
		for k := 0; k < 1+g.pick(3); k++ {
			g.stmt(body, fs, ind+1, depth-1)
		}
		g.closeScope(body, ind+1)
		g.line(ind+1, "%s = %s + 1", c, c)
		g.line(ind, "}")
	case 3: // range over a slice or a map (commutative body)
		var cands []Var
		for _, v := range s.all() {
			if (v.T.K == "slice" || v.T.K == "map") && v.T.Elem.IsInt() {
				cands = append(cands, v)
			}
		}
		var accs []Var
		for _, v := range s.all() {
			if v.Assignable && v.T.K == "u64" {
				accs = append(accs, v)
			}
		}
		if len(cands) == 0 || len(accs) == 0 {
			return
		}
		v := cands[g.pick(len(cands))]
		acc := accs[g.pick(len(accs))]
		k, x := g.fresh("lv"), g.fresh("lv")
		g.key("loop.range." + v.T.K)
		g.line(ind, "for %s, %s := range %s {", k, x, v.Name)
		g.line(ind+1, "%s = %s + uint64(%s) + uint64(%s)*3", acc.Name, acc.Name, k, x)
		g.line(ind, "}")
	}
}

// closeScopeVars emits uses without closing (before a break/continue)
func (g *gen) closeScopeVars(s *scope, ind int) {}

func (g *gen) callStmt(s *scope, fs *fstate, ind int) {
	var cands []FuncSig
	for _, f := range g.funcs {
		if f.Name != g.cur {
			cands = append(cands, f)
		}
	}
	if len(cands) == 0 {
		return
	}
	f := cands[g.pick(len(cands))]
	var args []string
	for _, p := range f.Params {
		if p.T.K == "ptr" || p.T.K == "slice" || p.T.K == "map" || p.T.K == "struct" {
			vs := s.ofType(p.T, false)
			if len(vs) == 0 {
				return
			}
			args = append(args, vs[g.pick(len(vs))].Name)
			continue
		}
		args = append(args, g.expr(s, p.T, 1))
	}
	call := fmt.Sprintf("%s(%s)", f.Name, strings.Join(args, ", "))
	if f.Recv != nil {
		vs := s.ofType(f.Recv.T, false)
		if len(vs) == 0 {
			return
		}
		call = vs[g.pick(len(vs))].Name + "." + call
		g.key("call.method")
	}
	switch len(f.Results) {
	case 0:
		g.key("call.stmt")
		g.line(ind, "%s", call)
	case 1:
		n := g.fresh("v")
		g.key("call.result1")
		g.line(ind, "%s := %s", n, call)
		g.declare(s, Var{Name: n, T: f.Results[0]})
	default:
		var ns []string
		for _, rt := range f.Results {
			n := g.fresh("v")
			ns = append(ns, n)
			g.declare(s, Var{Name: n, T: rt})
		}
		g.key(fmt.Sprintf("call.result%d", len(f.Results)))
		g.line(ind, "%s := %s", strings.Join(ns, ", "), call)
	}
}

func (g *gen) encodingStmt(s *scope, fs *fstate, ind int) {
	g.usesMachine = true
	switch g.pick(3) {
	case 0:
		b := g.fresh("b")
		g.key("enc.put64")
		g.line(ind, "%s := make([]byte, %d)", b, 8+g.pick(5))
		g.line(ind, "machine.UInt64Put(%s, %s)", b, g.expr(s, U64, 2))
		if g.chance(60) {
			g.key("enc.put64-twice")
			g.line(ind, "machine.UInt64Put(%s, %s)", b, g.expr(s, U64, 1))
		}
		n := g.fresh("v")
		g.line(ind, "%s := machine.UInt64Get(%s)", n, b)
		g.declare(s, Var{Name: b, T: SliceOf(U8)})
		fs.minLen[b] = 8
		g.declare(s, Var{Name: n, T: U64})
	case 1:
		b := g.fresh("b")
		g.key("enc.put32")
		g.line(ind, "%s := make([]byte, %d)", b, 4+g.pick(5))
		g.line(ind, "machine.UInt32Put(%s, %s)", b, g.expr(s, U32, 2))
		if g.chance(50) {
			g.line(ind, "machine.UInt32Put(%s, %s)", b, g.expr(s, U32, 1))
		}
		n := g.fresh("v")
		g.line(ind, "%s := machine.UInt32Get(%s)", n, b)
		g.declare(s, Var{Name: b, T: SliceOf(U8)})
		fs.minLen[b] = 4
		g.declare(s, Var{Name: n, T: U32})
	default:
		b := g.fresh("b")
		g.key("str.tobytes")
		g.line(ind, "%s := []byte(%s)", b, g.expr(s, Str, 1))
		g.declare(s, Var{Name: b, T: SliceOf(U8)})
		fs.minLen[b] = 0
	}
}

func (g *gen) closureStmt(s *scope, fs *fstate, ind int) {
	var caps []Var
	for _, v := range s.all() {
		if v.Assignable && v.T.K == "u64" {
			caps = append(caps, v)
		}
	}
	if len(caps) == 0 {
		return
	}
	cv := caps[g.pick(len(caps))]
	f := g.fresh("f")
	p := g.fresh("a")
	g.key("closure.capture-var")
	g.line(ind, "%s := func(%s uint64) uint64 {", f, p)
	inner := &scope{parent: s}
	g.declare(inner, Var{Name: p, T: U64})
	g.line(ind+1, "%s = %s + %s", cv.Name, cv.Name, g.expr(inner, U64, 1))
	g.line(ind+1, "return %s", g.expr(inner, U64, 2))
	g.line(ind, "}")
	n := g.fresh("v")
	g.line(ind, "%s := %s(%s)", n, f, g.expr(s, U64, 1))
	g.declare(s, Var{Name: n, T: U64})
	if g.chance(50) {
		n2 := g.fresh("v")
		g.line(ind, "%s := %s(%s)", n2, f, g.expr(s, U64, 1))
		g.declare(s, Var{Name: n2, T: U64})
	}
	g.line(ind, "_ = %s", f)
}
