package goosegen

import (
	"fmt"
	"strings"
)

// RunnerSource returns the text of a `//go:build !goose` file (ignored by the translator) that adds an
// exported RunAll() printing, for every entry, its rich result type and canonical result as JSON.
func RunnerSource(pkgName string, entries []string) string {
	var sb strings.Builder
	sb.WriteString("//go:build !goose\n\npackage " + pkgName + "\n\n")
	sb.WriteString(`import (
	"encoding/json"
	"fmt"
	"reflect"
	"sort"

	vdisk "github.com/goose-lang/goose/machine/disk"
)

func vcanonType(t reflect.Type) any {
	switch t.Kind() {
	case reflect.Uint64:
		return map[string]any{"t": "u64"}
	case reflect.Uint32:
		return map[string]any{"t": "u32"}
	case reflect.Uint8:
		return map[string]any{"t": "u8"}
	case reflect.Bool:
		return map[string]any{"t": "bool"}
	case reflect.String:
		return map[string]any{"t": "str"}
	case reflect.Slice:
		return map[string]any{"t": "slice", "e": vcanonType(t.Elem())}
	case reflect.Ptr:
		return map[string]any{"t": "ptr", "e": vcanonType(t.Elem())}
	case reflect.Map:
		return map[string]any{"t": "map", "k": vcanonType(t.Key()), "v": vcanonType(t.Elem())}
	case reflect.Struct:
		fs := []any{}
		for i := 0; i < t.NumField(); i++ {
			fs = append(fs, map[string]any{"n": t.Field(i).Name, "t": vcanonType(t.Field(i).Type)})
		}
		return map[string]any{"t": "struct", "fs": fs}
	}
	return map[string]any{"t": "opaque"}
}

func vcanon(v reflect.Value) any {
	switch v.Kind() {
	case reflect.Uint64, reflect.Uint32, reflect.Uint8:
		return map[string]any{"t": "int", "v": fmt.Sprint(v.Uint())}
	case reflect.Bool:
		return map[string]any{"t": "bool", "v": v.Bool()}
	case reflect.String:
		return map[string]any{"t": "str", "v": []byte(v.String())}
	case reflect.Slice:
		es := []any{}
		for i := 0; i < v.Len(); i++ {
			es = append(es, vcanon(v.Index(i)))
		}
		return map[string]any{"t": "slice", "es": es}
	case reflect.Ptr:
		if v.IsNil() {
			return map[string]any{"t": "nil"}
		}
		return map[string]any{"t": "ptr", "v": vcanon(v.Elem())}
	case reflect.Map:
		type kv struct {
			k string
			v any
		}
		var kvs []kv
		it := v.MapRange()
		for it.Next() {
			kb, _ := json.Marshal(vcanon(it.Key()))
			kvs = append(kvs, kv{string(kb), map[string]any{"k": vcanon(it.Key()), "v": vcanon(it.Value())}})
		}
		sort.Slice(kvs, func(i, j int) bool { return kvs[i].k < kvs[j].k })
		out := []any{}
		for _, x := range kvs {
			out = append(out, x.v)
		}
		return map[string]any{"t": "map", "kv": out}
	case reflect.Struct:
		fs := []any{}
		for i := 0; i < v.NumField(); i++ {
			fs = append(fs, map[string]any{"n": v.Type().Field(i).Name, "v": vcanon(v.Field(i))})
		}
		return map[string]any{"t": "struct", "fs": fs}
	}
	return map[string]any{"t": "opaque"}
}

func vrun(name string, f any) {
	defer func() {
		if e := recover(); e != nil {
			b, _ := json.Marshal(map[string]any{"name": name, "panic": fmt.Sprint(e)})
			fmt.Println(string(b))
		}
	}()
	fv := reflect.ValueOf(f)
	outs := fv.Call(nil)
	var rty, res any
	nouts := reflect.ValueOf(outs).Len() // (a look-alike package may redefine len)
	if nouts == 0 {
		rty, res = map[string]any{"t": "unit"}, map[string]any{"t": "unit"}
	} else if nouts == 1 {
		rty, res = vcanonType(outs[0].Type()), vcanon(outs[0])
	} else {
		ts, es := []any{}, []any{}
		for _, o := range outs {
			ts = append(ts, vcanonType(o.Type()))
			es = append(es, vcanon(o))
		}
		rty, res = map[string]any{"t": "tuple", "es": ts}, map[string]any{"t": "tuple", "es": es}
	}
	b, _ := json.Marshal(map[string]any{"name": name, "rty": rty, "res": res})
	fmt.Println(string(b))
}

// RunAll runs every entry point and prints one JSON line per entry.
func RunAll() {
`)
	for _, e := range entries {
		// every entry starts on a fresh zeroed disk of 30 blocks (what the model's DiskBlocks is)
		fmt.Fprintf(&sb, "\tvdisk.Init(vdisk.NewMemDisk(30))\n\tvrun(%q, %s)\n", e, e)
	}
	sb.WriteString("}\n")
	return sb.String()
}
