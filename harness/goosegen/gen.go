// Package goosegen generates typed, terminating, panic-free Go packages in the Goose subset, with
// closed entry points whose results are compared between Go and the GooseLang model.
package goosegen

import (
	"fmt"
	"math/rand/v2"
	"sort"
	"strings"
)

type Ty struct {
	K    string // u64 u32 u8 bool str slice ptr struct map
	Elem *Ty    // slice / ptr / map value
	Name string // struct name
}

var (
	U64  = Ty{K: "u64"}
	U32  = Ty{K: "u32"}
	U8   = Ty{K: "u8"}
	Bool = Ty{K: "bool"}
	Str  = Ty{K: "str"}
)

func SliceOf(t Ty) Ty { return Ty{K: "slice", Elem: &t} }
func PtrTo(t Ty) Ty   { return Ty{K: "ptr", Elem: &t} }
func MapOf(t Ty) Ty   { return Ty{K: "map", Elem: &t} }

func (t Ty) Go() string {
	switch t.K {
	case "u64":
		return "uint64"
	case "u32":
		return "uint32"
	case "u8":
		return "byte" // goose knows the basic type only under the name byte
	case "bool":
		return "bool"
	case "str":
		return "string"
	case "slice":
		if t.Elem.K == "u8" {
			return "[]byte"
		}
		return "[]" + t.Elem.Go()
	case "ptr":
		return "*" + t.Elem.Go()
	case "map":
		return "map[uint64]" + t.Elem.Go()
	case "struct":
		return t.Name
	}
	return "?"
}

// Conv is the conversion function name goose recognises
func (t Ty) Conv() string {
	if t.K == "u8" {
		return "uint8"
	}
	return t.Go()
}
func (t Ty) Eq(o Ty) bool { return t.Go() == o.Go() }
func (t Ty) IsInt() bool  { return t.K == "u64" || t.K == "u32" || t.K == "u8" }

type Var struct {
	Name       string
	T          Ty
	Assignable bool // declared with var (pointer-wrapped by goose)
}

type Field struct {
	Name string
	T    Ty
}
type StructDef struct {
	Name   string
	Fields []Field
}
type FuncSig struct {
	Name    string
	Params  []Var
	Results []Ty
	Recv    *Var // pointer receiver method
	Pure    bool
}

type Entry struct {
	Name string
	Keys []string // feature keys used by this entry (transitively, approximated per function)
}

type Package struct {
	Source  string
	Entries []Entry
	Keys    map[string]bool
}

type Options struct {
	Seed     uint64
	Funcs    int
	Entries  int
	MaskKeys map[string]bool // feature keys that must not be generated (known findings)
	Force    []string        // feature keys to force (probes)
}

type gen struct {
	ndisk       int // disk statements emitted so far in this package
	r           *rand.Rand
	o           Options
	structs     []StructDef
	funcs       []FuncSig
	consts      []Var // package-level constants (u64/u32/u8/bool/str)
	sb          strings.Builder
	nname       int
	keys        map[string]bool
	fkeys       map[string]map[string]bool // function -> keys
	cur         string
	usesMachine bool
	loopDepth   int
	scopeNow    *scope // scope of the expression being generated (for shadowing checks)
}

func (g *gen) key(k string) {
	g.keys[k] = true
	if g.cur != "" {
		if g.fkeys[g.cur] == nil {
			g.fkeys[g.cur] = map[string]bool{}
		}
		g.fkeys[g.cur][k] = true
	}
}
func (g *gen) masked(k string) bool  { return g.o.MaskKeys[k] }
func (g *gen) fresh(p string) string { g.nname++; return fmt.Sprintf("%s%d", p, g.nname) }
func (g *gen) pick(n int) int        { return g.r.IntN(n) }
func (g *gen) chance(p int) bool     { return g.r.IntN(100) < p }

// scope: variables visible; inner scopes may shadow
type scope struct {
	vars   []Var
	parent *scope
}

func (s *scope) all() []Var {
	var out []Var
	seen := map[string]bool{}
	for c := s; c != nil; c = c.parent {
		for i := len(c.vars) - 1; i >= 0; i-- {
			if !seen[c.vars[i].Name] {
				seen[c.vars[i].Name] = true
				out = append(out, c.vars[i])
			}
		}
	}
	return out
}
func (s *scope) ofType(t Ty, assignableOnly bool) []Var {
	var out []Var
	for _, v := range s.all() {
		if v.T.Eq(t) && (!assignableOnly || v.Assignable) {
			out = append(out, v)
		}
	}
	sort.Slice(out, func(i, j int) bool { return out[i].Name < out[j].Name })
	return out
}
func (s *scope) has(name string) bool {
	for _, v := range s.all() {
		if v.Name == name {
			return true
		}
	}
	return false
}

var boundary = map[string][]string{
	"u64": {"0", "1", "2", "7", "255", "256", "65535", "4294967295", "4294967296", "9223372036854775807", "9223372036854775808", "18446744073709551615", "18446744073709551614", "1000003"},
	"u32": {"0", "1", "3", "255", "256", "65536", "2147483647", "2147483648", "4294967295", "4294967294"},
	"u8":  {"0", "1", "2", "127", "128", "254", "255", "17"},
}

func (g *gen) lit(t Ty) string {
	switch t.K {
	case "u64", "u32", "u8":
		b := boundary[t.K]
		if g.chance(60) {
			return b[g.pick(len(b))]
		}
		switch t.K {
		case "u64":
			return fmt.Sprint(g.r.Uint64() >> uint(g.pick(64)))
		case "u32":
			return fmt.Sprint(g.r.Uint32() >> uint(g.pick(32)))
		default:
			return fmt.Sprint(g.pick(256))
		}
	case "bool":
		if g.chance(50) {
			return "true"
		}
		return "false"
	case "str":
		ss := []string{`""`, `"a"`, `"hello"`, `"goose lang"`, `"x-y_z.0"`, `"0123456789abcdef"`, `"100%"`, `"n=%d"`, `"%s%%"`, `"a\\b"`, `"tab\there"`, "`raw\\n`", `"caf\u00e9"`}
		return ss[g.pick(len(ss))]
	}
	return g.zero(t)
}

func (g *gen) zero(t Ty) string {
	switch t.K {
	case "u64", "u32", "u8":
		return "0"
	case "bool":
		return "false"
	case "str":
		return `""`
	case "slice":
		return fmt.Sprintf("make(%s, 0)", t.Go())
	case "ptr":
		if t.Elem.K == "struct" {
			return "&" + t.Elem.Name + "{}"
		}
		return "new(" + t.Elem.Go() + ")"
	case "map":
		return fmt.Sprintf("make(%s)", t.Go())
	case "struct":
		return t.Name + "{}"
	}
	return "0"
}

// typed literal usable where an untyped constant would get the wrong width: a conversion of a literal
func (g *gen) typedLit(t Ty) string {
	return g.lit(t)
}

// expr generates a pure expression of type t (no side effects, no panics).
func (g *gen) expr(s *scope, t Ty, depth int) string {
	g.scopeNow = s
	vs := s.ofType(t, false)
	if depth <= 0 || g.chance(25) {
		if len(vs) > 0 && g.chance(70) {
			return vs[g.pick(len(vs))].Name
		}
		if cs := g.constsVisible(s, t); len(cs) > 0 && g.chance(25) {
			g.key("const.global-use")
			return cs[g.pick(len(cs))].Name
		}
		return g.leaf(s, t)
	}
	switch t.K {
	case "u64", "u32", "u8":
		return g.intExpr(s, t, depth)
	case "bool":
		return g.boolExpr(s, t, depth)
	case "str":
		switch g.pick(4) {
		case 0:
			g.key("str.concat")
			return "(" + g.expr(s, Str, depth-1) + " + " + g.expr(s, Str, depth-1) + ")"
		case 1:
			g.key("str.u64tostring")
			g.usesMachine = true
			return "machine.UInt64ToString(" + g.expr(s, U64, depth-1) + ")"
		case 2:
			if bs := s.ofType(SliceOf(U8), false); len(bs) > 0 {
				g.key("str.frombytes")
				return "string(" + bs[g.pick(len(bs))].Name + ")"
			}
		}
		return g.leaf(s, t)
	}
	return g.leaf(s, t)
}

func (g *gen) leaf(s *scope, t Ty) string {
	vs := s.ofType(t, false)
	if len(vs) > 0 && g.chance(60) {
		return vs[g.pick(len(vs))].Name
	}
	switch t.K {
	case "u64", "u32", "u8", "bool", "str":
		return g.lit(t)
	}
	return g.zero(t)
}

func (g *gen) constLike(e string) bool {
	if isAllDigits(e) || e == "true" || e == "false" {
		return true
	}
	for _, c := range g.consts {
		if c.Name == e && !g.scopeNow.has(e) {
			return true
		}
	}
	return false
}

// constsVisible: package-level constants of type t that no local shadows in s
func (g *gen) constsVisible(s *scope, t Ty) []Var {
	var out []Var
	for _, c := range g.constsOf(t) {
		if !s.has(c.Name) {
			out = append(out, c)
		}
	}
	return out
}

func (g *gen) constsOf(t Ty) []Var {
	var out []Var
	for _, c := range g.consts {
		if c.T.Eq(t) {
			out = append(out, c)
		}
	}
	return out
}

var intBin = []string{"+", "-", "*", "/", "%", "&", "|", "^", "<<", ">>"}

func (g *gen) intExpr(s *scope, t Ty, depth int) string {
	switch g.pick(12) {
	case 0, 1, 2, 3, 4, 5:
		op := intBin[g.pick(len(intBin))]
		a := g.expr(s, t, depth-1)
		switch op {
		case "/", "%":
			g.key("arith.div." + t.K)
			// divisor: non-zero by construction
			b := g.expr(s, t, depth-1)
			if g.constLike(b) {
				b = fmt.Sprintf("id_%s(%s)", t.K, b) // (const | 1) would be an untyped constant sub-expression
			}
			return fmt.Sprintf("(%s %s (%s | 1))", a, op, b)
		case "<<", ">>":
			g.key("arith.shift." + t.K)
			// shift count of the same type (mixed-width counts are deliberately not generated)
			b := g.expr(s, t, depth-1)
			m := map[string]string{"u64": "70", "u32": "40", "u8": "10"}[t.K]
			if g.constLike(a) {
				a = fmt.Sprintf("id_%s(%s)", t.K, a)
			}
			if g.constLike(b) {
				b = fmt.Sprintf("id_%s(%s)", t.K, b)
			}
			return fmt.Sprintf("(%s %s (%s %% %s))", a, op, b, m)
		}
		g.key("arith." + t.K)
		b := g.expr(s, t, depth-1)
		if g.constLike(a) && g.constLike(b) {
			a = fmt.Sprintf("id_%s(%s)", t.K, a) // keep the expression non-constant (no compile-time overflow, no untyped folding)
		}
		return fmt.Sprintf("(%s %s %s)", a, op, b)
	case 6:
		g.key("arith.not." + t.K)
		x := g.expr(s, t, depth-1)
		if g.constLike(x) {
			x = fmt.Sprintf("id_%s(%s)", t.K, x)
		}
		return "(^" + x + ")"
	case 7:
		// conversion from another width
		from := []Ty{U64, U32, U8}[g.pick(3)]
		if from.Eq(t) {
			return g.expr(s, t, depth-1)
		}
		g.key(fmt.Sprintf("conv.%s-to-%s", from.K, t.K))
		return fmt.Sprintf("%s(%s)", t.Conv(), g.nonConstInt(s, from, depth-1))
	case 8:
		if t.K == "u64" {
			// len of something
			for _, v := range s.all() {
				if v.T.K == "slice" || v.T.K == "str" || v.T.K == "map" {
					g.key("len." + v.T.K)
					return "uint64(len(" + v.Name + "))"
				}
			}
		}
	case 9:
		// call a pure function returning t
		if c := g.pureCall(s, t, depth-1); c != "" {
			return c
		}
	case 10:
		// read through a pointer / slice element / struct field / map
		if e := g.readPlace(s, t); e != "" {
			return e
		}
	case 11:
		if t.K == "u64" {
			if bs := s.ofType(SliceOf(U8), false); len(bs) > 0 && g.chance(50) {
				_ = bs
			}
		}
	}
	return g.leaf(s, t)
}

// nonConstInt: an integer expression that is not a compile-time constant (conversions of constants
// that overflow would not compile)
func (g *gen) nonConstInt(s *scope, t Ty, depth int) string {
	vs := s.ofType(t, false)
	if len(vs) > 0 {
		v := vs[g.pick(len(vs))].Name
		if depth > 0 && g.chance(50) {
			return fmt.Sprintf("(%s + %s)", v, g.expr(s, t, depth-1))
		}
		return v
	}
	// fall back to a value routed through a helper that is not constant-folded
	return fmt.Sprintf("id_%s(%s)", t.K, g.lit(t))
}

func (g *gen) readPlace(s *scope, t Ty) string {
	var opts []string
	for _, v := range s.all() {
		switch {
		case v.T.K == "ptr" && v.T.Elem.Eq(t):
			opts = append(opts, "(*"+v.Name+")")
		case v.T.K == "ptr" && v.T.Elem.K == "struct":
			for _, f := range g.structByName(v.T.Elem.Name).Fields {
				if f.T.Eq(t) {
					opts = append(opts, v.Name+"."+f.Name)
				}
			}
		case v.T.K == "struct":
			for _, f := range g.structByName(v.T.Name).Fields {
				if f.T.Eq(t) {
					opts = append(opts, v.Name+"."+f.Name)
				}
			}
		case v.T.K == "map" && v.T.Elem.Eq(t):
			opts = append(opts, fmt.Sprintf("%s[%s]", v.Name, g.lit(U64)))
		}
	}
	if len(opts) == 0 {
		return ""
	}
	g.key("read.place")
	return opts[g.pick(len(opts))]
}

func (g *gen) structByName(n string) StructDef {
	for _, sd := range g.structs {
		if sd.Name == n {
			return sd
		}
	}
	return StructDef{}
}

func (g *gen) pureCall(s *scope, t Ty, depth int) string {
	var cands []FuncSig
	for _, f := range g.funcs {
		if f.Pure && f.Recv == nil && len(f.Results) == 1 && f.Results[0].Eq(t) && f.Name != g.cur {
			cands = append(cands, f)
		}
	}
	if len(cands) == 0 {
		return ""
	}
	f := cands[g.pick(len(cands))]
	var args []string
	for _, p := range f.Params {
		args = append(args, g.expr(s, p.T, min(depth, 1)))
	}
	g.key("call.pure")
	return fmt.Sprintf("%s(%s)", f.Name, strings.Join(args, ", "))
}

func (g *gen) boolExpr(s *scope, t Ty, depth int) string {
	switch g.pick(8) {
	case 0, 1, 2:
		it := []Ty{U64, U32, U8}[g.pick(3)]
		op := []string{"<", "<=", ">", ">=", "==", "!="}[g.pick(6)]
		g.key("cmp." + it.K)
		a, b := g.expr(s, it, depth-1), g.expr(s, it, depth-1)
		if g.constLike(a) && g.constLike(b) {
			a = fmt.Sprintf("id_%s(%s)", it.K, a)
		}
		return fmt.Sprintf("(%s %s %s)", a, op, b)
	case 3:
		g.key("bool.and")
		return fmt.Sprintf("(%s && %s)", g.expr(s, Bool, depth-1), g.expr(s, Bool, depth-1))
	case 4:
		g.key("bool.or")
		return fmt.Sprintf("(%s || %s)", g.expr(s, Bool, depth-1), g.expr(s, Bool, depth-1))
	case 5:
		g.key("bool.not")
		return "(!" + g.expr(s, Bool, depth-1) + ")"
	case 6:
		g.key("cmp.str")
		op := []string{"==", "!="}[g.pick(2)]
		return fmt.Sprintf("(%s %s %s)", g.expr(s, Str, depth-1), op, g.expr(s, Str, depth-1))
	case 7:
		g.key("cmp.bool")
		return fmt.Sprintf("(%s == %s)", g.expr(s, Bool, depth-1), g.expr(s, Bool, depth-1))
	}
	return g.leaf(s, t)
}
