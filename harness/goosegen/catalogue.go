package goosegen

import (
	"fmt"
	"strings"
)

// Item is one out-of-subset or look-alike construct: a few top-level declarations plus a closed entry.
// %d in the text is replaced by a unique number. Every item type-checks as ordinary Go.
type Item struct {
	Key   string
	Decls string // top-level declarations (helpers)
	Entry string // body of `func entryX() <Ret>` ; must use only its own helpers
	Ret   string // result type(s) of the entry, Go syntax
}

var Catalogue = []Item{
	{"opassign.shl", "func oa%d(x uint64) uint64 {\n\tvar y uint64 = x\n\ty <<= 3\n\treturn y\n}\n", "return oa%d(5)", "uint64"},
	{"opassign.shr", "func oa%d(x uint64) uint64 {\n\tvar y uint64 = x\n\ty >>= 2\n\treturn y\n}\n", "return oa%d(1000)", "uint64"},
	{"opassign.mul", "func oa%d(x uint64) uint64 {\n\tvar y uint64 = x\n\ty *= 7\n\treturn y\n}\n", "return oa%d(6)", "uint64"},
	{"opassign.div", "func oa%d(x uint64) uint64 {\n\tvar y uint64 = x\n\ty /= 7\n\treturn y\n}\n", "return oa%d(60)", "uint64"},
	{"opassign.rem", "func oa%d(x uint64) uint64 {\n\tvar y uint64 = x\n\ty %%= 7\n\treturn y\n}\n", "return oa%d(60)", "uint64"},
	{"opassign.andnot", "func oa%d(x uint64) uint64 {\n\tvar y uint64 = x\n\ty &^= 6\n\treturn y\n}\n", "return oa%d(15)", "uint64"},
	{"op.andnot", "func op%d(x uint64, y uint64) uint64 {\n\treturn x &^ y\n}\n", "return op%d(15, 6)", "uint64"},
	{"op.unary-minus", "func op%d(x uint64) uint64 {\n\treturn -x\n}\n", "return op%d(5)", "uint64"},
	{"op.unary-plus", "func op%d(x uint64) uint64 {\n\treturn +x\n}\n", "return op%d(5)", "uint64"},
	{"slice.3index", "func sl%d(s []uint64) uint64 {\n\tt := s[1:2:3]\n\treturn uint64(cap(t))\n}\n", "return sl%d(make([]uint64, 5))", "uint64"},
	{"slice.full", "func sl%d(s []uint64) uint64 {\n\tt := s[:]\n\treturn uint64(len(t))\n}\n", "return sl%d(make([]uint64, 5))", "uint64"},
	{"if.init", "func ifi%d(x uint64) uint64 {\n\tif v := x + 1; v > 3 {\n\t\treturn v\n\t}\n\treturn 0\n}\n", "return ifi%d(7)", "uint64"},
	{"switch", "func sw%d(x uint64) uint64 {\n\tswitch x {\n\tcase 1:\n\t\treturn 10\n\tcase 2:\n\t\treturn 20\n\t}\n\treturn 30\n}\n", "return sw%d(2)", "uint64"},
	{"switch.tagless", "func sw%d(x uint64) uint64 {\n\tvar r uint64 = 1\n\tswitch {\n\tcase x > 5:\n\t\tr = 2\n\tdefault:\n\t\tr = 3\n\t}\n\treturn r\n}\n", "return sw%d(9)", "uint64"},
	{"defer", "func df%d(p *uint64) {\n\tdefer func() {\n\t\t*p = *p + 1\n\t}()\n\t*p = 10\n}\n", "p := new(uint64)\n\tdf%d(p)\n\treturn *p", "uint64"},
	{"go.args", "func ga%d() uint64 {\n\tdone := make(chan uint64)\n\tvar i uint64 = 3\n\tgo func(v uint64) {\n\t\tdone <- v\n\t}(i)\n\ti = 4\n\treturn <-done\n}\n", "return ga%d()", "uint64"},
	{"named-results", "func nr%d(x uint64) (r uint64) {\n\tr = x + 1\n\treturn\n}\n", "return nr%d(4)", "uint64"},
	{"named-results.explicit", "func nr%d(x uint64) (r uint64, ok bool) {\n\treturn x + 2, true\n}\n", "a, b := nr%d(4)\n\tif b {\n\t\treturn a\n\t}\n\treturn 0", "uint64"},
	{"struct.embedded", "type em%da struct {\n\tx uint64\n}\n\ntype em%db struct {\n\tem%da\n\ty uint64\n}\n\nfunc em%d() uint64 {\n\tv := em%db{y: 2}\n\treturn v.x + v.y\n}\n", "return em%d()", "uint64"},
	{"struct.unkeyed", "type uk%ds struct {\n\ta uint64\n\tb uint64\n}\n\nfunc uk%d() uint64 {\n\tv := uk%ds{3, 4}\n\treturn v.a*10 + v.b\n}\n", "return uk%d()", "uint64"},
	{"slice.literal-multi", "func lm%d() uint64 {\n\ts := []uint64{7, 8, 9}\n\treturn s[1] + uint64(len(s))\n}\n", "return lm%d()", "uint64"},
	{"map.literal", "func ml%d() uint64 {\n\tm := map[uint64]uint64{1: 5, 2: 6}\n\treturn m[2]\n}\n", "return ml%d()", "uint64"},
	{"array", "func ar%d() uint64 {\n\tvar a [3]uint64\n\ta[1] = 5\n\treturn a[1] + uint64(len(a))\n}\n", "return ar%d()", "uint64"},
	{"int.signed", "func si%d(x uint64) uint64 {\n\tvar y int = int(x)\n\ty = y - 10\n\tif y < 0 {\n\t\treturn 1\n\t}\n\treturn 2\n}\n", "return si%d(3)", "uint64"},
	{"incdec.field", "type idf%ds struct {\n\tn uint64\n}\n\nfunc idf%d() uint64 {\n\tp := &idf%ds{n: 4}\n\tp.n++\n\treturn p.n\n}\n", "return idf%d()", "uint64"},
	{"incdec.elem", "func ide%d() uint64 {\n\ts := make([]uint64, 2)\n\ts[1]++\n\ts[1]++\n\treturn s[1]\n}\n", "return ide%d()", "uint64"},
	{"incdec.u32", "func idu%d() uint32 {\n\tvar y uint32 = 7\n\ty++\n\treturn y\n}\n", "return idu%d()", "uint32"},
	{"incdec.u8", "func idb%d() byte {\n\tvar y byte = 255\n\ty++\n\treturn y\n}\n", "return idb%d()", "byte"},
	{"label.continue-outer", "func lc%d(n uint64, m uint64) uint64 {\n\tvar total uint64 = 0\nouter:\n\tfor i := uint64(0); i < n; i++ {\n\t\tfor j := uint64(0); j < m; j++ {\n\t\t\tif j == 1 {\n\t\t\t\tcontinue outer\n\t\t\t}\n\t\t\ttotal = total + 1\n\t\t}\n\t\ttotal = total + 10\n\t}\n\treturn total\n}\n", "return lc%d(1, 3)", "uint64"},
	{"label.break-outer", "func lb%d(n uint64) uint64 {\n\tvar total uint64 = 0\nouter:\n\tfor i := uint64(0); i < n; i++ {\n\t\tfor j := uint64(0); j < n; j++ {\n\t\t\tif j == 1 {\n\t\t\t\tbreak outer\n\t\t\t}\n\t\t\ttotal = total + 1\n\t\t}\n\t\ttotal = total + 10\n\t}\n\treturn total\n}\n", "return lb%d(3)", "uint64"},
	{"goto", "func gt%d(x uint64) uint64 {\n\tvar y uint64 = x\n\tif y > 2 {\n\t\tgoto end\n\t}\n\ty = 100\nend:\n\treturn y\n}\n", "return gt%d(5)", "uint64"},
	{"return.in-loop", "func rl%d(n uint64) uint64 {\n\tfor i := uint64(0); i < n; i++ {\n\t\tif i == 2 {\n\t\t\treturn i + 40\n\t\t}\n\t}\n\treturn 0\n}\n", "return rl%d(5)", "uint64"},
	{"return.nested-elseless", "func rn%d(a bool, b bool) uint64 {\n\tif a {\n\t\tif b {\n\t\t\treturn 1\n\t\t}\n\t}\n\treturn 2\n}\n", "return rn%d(true, false) + 10*rn%d(true, true) + 100*rn%d(false, true)", "uint64"},
	{"break.nested-elseless", "func bn%d(n uint64) uint64 {\n\tvar c uint64 = 0\n\tfor i := uint64(0); i < n; i++ {\n\t\tif i > 1 {\n\t\t\tif i == 3 {\n\t\t\t\tbreak\n\t\t\t}\n\t\t}\n\t\tc = c + 1\n\t}\n\treturn c\n}\n", "return bn%d(6)", "uint64"},
	{"return.else-after-early", "func re%d(a bool, b bool) uint64 {\n\tvar r uint64 = 5\n\tif a {\n\t\treturn 1\n\t} else if b {\n\t\tr = 7\n\t}\n\treturn r\n}\n", "return re%d(false, true)", "uint64"},
	{"variadic", "func va%d(xs ...uint64) uint64 {\n\tvar t uint64 = 0\n\tfor _, x := range xs {\n\t\tt = t + x\n\t}\n\treturn t\n}\n\nfunc vb%d() uint64 {\n\treturn va%d(1, 2, 3)\n}\n", "return vb%d()", "uint64"},
	{"const.multi", "const cma%d, cmb%d uint64 = 11, 22\n\nfunc cm%d() uint64 {\n\treturn cma%d + cmb%d\n}\n", "return cm%d()", "uint64"},
	{"const.iota", "const (\n\tcia%d uint64 = iota\n\tcib%d\n\tcic%d\n)\n\nfunc ci%d() uint64 {\n\treturn cia%d + cib%d*10 + cic%d*100\n}\n", "return ci%d()", "uint64"},
	{"const.grouped", "const (\n\tcga%d uint64 = 4\n\tcgb%d uint64 = 5\n)\n\nfunc cg%d() uint64 {\n\treturn cga%d*10 + cgb%d\n}\n", "return cg%d()", "uint64"},
	{"string.index", "func sx%d(s string) byte {\n\treturn s[1]\n}\n", "return sx%d(\"abc\")", "byte"},
	{"string.range", "func sr%d(s string) uint64 {\n\tvar n uint64 = 0\n\tfor range s {\n\t\tn = n + 1\n\t}\n\treturn n\n}\n", "return sr%d(\"abcd\")", "uint64"},
	{"string.compare-lt", "func sc%d(a string, b string) bool {\n\treturn a < b\n}\n", "return sc%d(\"abc\", \"abd\")", "bool"},
	{"range.int", "func ri%d() uint64 {\n\tvar n uint64 = 0\n\tfor i := range 4 {\n\t\tn = n + uint64(i)\n\t}\n\treturn n\n}\n", "return ri%d()", "uint64"},
	{"method.value", "type mv%ds struct {\n\tk uint64\n}\n\nfunc (s *mv%ds) get(x uint64) uint64 {\n\treturn s.k + x\n}\n\nfunc mv%d() uint64 {\n\tp := &mv%ds{k: 5}\n\tf := p.get\n\tp.k = 100\n\treturn f(1)\n}\n", "return mv%d()", "uint64"},
	{"struct.anonymous", "func an%d() uint64 {\n\tv := struct {\n\t\ta uint64\n\t}{a: 4}\n\treturn v.a\n}\n", "return an%d()", "uint64"},
	{"literal.huge", "func lh%d() uint64 {\n\treturn 18446744073709551616 / 2\n}\n", "return lh%d()", "uint64"},
	{"literal.huge2", "func lh%d() uint64 {\n\treturn 36893488147419103231 %% 1000000007\n}\n", "return lh%d()", "uint64"},
	{"assign.swap", "func sp%d(a uint64, b uint64) uint64 {\n\tvar x uint64 = a\n\tvar y uint64 = b\n\tx, y = y, x\n\treturn x*10 + y\n}\n", "return sp%d(1, 2)", "uint64"},
	{"define.multi", "func dm%d() uint64 {\n\ta, b := uint64(1), uint64(2)\n\treturn a*10 + b\n}\n", "return dm%d()", "uint64"},
	{"assign.complex-lvalue", "type cl%ds struct {\n\tf uint64\n}\n\nfunc cl%d() uint64 {\n\ts := make([]cl%ds, 2)\n\ts[1].f = 9\n\treturn s[1].f\n}\n", "return cl%d()", "uint64"},
	{"compare.struct", "type cs%ds struct {\n\ta uint64\n\tb bool\n}\n\nfunc cs%d() bool {\n\tx := cs%ds{a: 1, b: true}\n\ty := cs%ds{a: 1, b: true}\n\treturn x == y\n}\n", "return cs%d()", "bool"},
	{"compare.nil-map", "func nm%d() bool {\n\tvar m map[uint64]uint64\n\treturn m == nil\n}\n", "return nm%d()", "bool"},
	{"compare.nil-slice-empty", "func ns%d() bool {\n\ts := make([]uint64, 0)\n\treturn s == nil\n}\n", "return ns%d()", "bool"},
	{"shift.mixed-width", "func sm%d(x uint64, y uint32) uint64 {\n\treturn x << y\n}\n", "return sm%d(3, 4)", "uint64"},
	{"block.bare-shadow", "func bs%d() uint64 {\n\tx := uint64(1)\n\t{\n\t\tx := uint64(2)\n\t\t_ = x\n\t}\n\treturn x\n}\n", "return bs%d()", "uint64"},
	{"loopvar.shadow-used-after", "func ls%d() uint64 {\n\ti := uint64(7)\n\tvar t uint64 = 0\n\tfor i := uint64(0); i < 3; i++ {\n\t\tt = t + i\n\t}\n\treturn t*100 + i\n}\n", "return ls%d()", "uint64"},
	{"conv.byte", "func cb%d(x uint64) uint64 {\n\treturn uint64(byte(x))\n}\n", "return cb%d(300)", "uint64"},
	{"conv.named-int", "type ni%dt uint32\n\nfunc ni%d(x uint64) uint64 {\n\treturn uint64(ni%dt(x))\n}\n", "return ni%d(4294967297)", "uint64"},
	{"order.two-effects", "func oe%dw(p *uint64, v uint64) uint64 {\n\told := *p\n\t*p = v\n\treturn old\n}\n\nfunc oe%d() uint64 {\n\tp := new(uint64)\n\treturn oe%dw(p, 1)*10 + oe%dw(p, 2)\n}\n", "return oe%d()", "uint64"},
	{"addr.define-local", "func ad%d() uint64 {\n\tx := uint64(5)\n\tp := &x\n\t*p = 6\n\treturn x\n}\n", "return ad%d()", "uint64"},
	{"recv.value-on-pointer-method", "type rv%ds struct {\n\tn uint64\n}\n\nfunc (s *rv%ds) inc() {\n\ts.n = s.n + 1\n}\n\nfunc rv%d() uint64 {\n\tvar v rv%ds\n\tv.inc()\n\tv.inc()\n\treturn v.n\n}\n", "return rv%d()", "uint64"},
	{"recv.pointer-on-value-method", "type rp%ds struct {\n\tn uint64\n}\n\nfunc (s rp%ds) get() uint64 {\n\treturn s.n + 1\n}\n\nfunc rp%d() uint64 {\n\tp := &rp%ds{n: 4}\n\treturn p.get()\n}\n", "return rp%d()", "uint64"},
	{"field-assign.define-local", "type fa%ds struct {\n\tn uint64\n}\n\nfunc fa%d() uint64 {\n\tv := fa%ds{n: 1}\n\tv.n = 9\n\treturn v.n\n}\n", "return fa%d()", "uint64"},
	{"const.untyped-in-u32", "func cu%dh(x uint32) uint32 {\n\treturn x + 1\n}\n\nfunc cu%d() uint32 {\n\treturn cu%dh(1 << 20)\n}\n", "return cu%d()", "uint32"},
	{"string.newline", "func sn%d() uint64 {\n\ts := \"a\\nb\"\n\treturn uint64(len(s))\n}\n", "return sn%d()", "uint64"},
	{"string.rawnewline", "func sw%d() uint64 {\n\ts := `a\nb`\n\treturn uint64(len(s))\n}\n", "return sw%d()", "uint64"},
	{"lookalike.len", "func len(x uint64) uint64 {\n\treturn x + 100\n}\n\nfunc ll%d() uint64 {\n\treturn len(5)\n}\n", "return ll%d()", "uint64"},
	{"lookalike.uint64", "func uint32(x uint64) uint64 {\n\treturn x + 100\n}\n\nfunc lu%d() uint64 {\n\treturn uint32(4294967296)\n}\n", "return lu%d()", "uint64"},
	{"lookalike.nil-rebound", "func ln%d() uint64 {\n\ttrue := false\n\tif true {\n\t\treturn 1\n\t}\n\treturn 2\n}\n", "return ln%d()", "uint64"},
	{"lookalike.method-name-clash", "type mc%ds struct {\n\tn uint64\n}\n\nfunc (s *mc%ds) get() uint64 {\n\treturn s.n\n}\n\nfunc mc%ds__get(x uint64) uint64 {\n\treturn x + 50\n}\n\nfunc mc%d() uint64 {\n\tp := &mc%ds{n: 3}\n\treturn p.get() + mc%ds__get(1)\n}\n", "return mc%d()", "uint64"},
	{"closure.returns-closure", "func cc%d(a uint64) func(uint64) uint64 {\n\treturn func(b uint64) uint64 {\n\t\treturn a*10 + b\n\t}\n}\n", "f := cc%d(4)\n\treturn f(2)", "uint64"},
	{"type-assert.2value", "func ta%d(x interface{}) uint64 {\n\tv, ok := x.(uint64)\n\tif ok {\n\t\treturn v\n\t}\n\treturn 0\n}\n", "return ta%d(uint64(7))", "uint64"},
	{"copy.builtin", "func cp%d() uint64 {\n\ta := make([]uint64, 3)\n\tb := make([]uint64, 2)\n\tb[0] = 4\n\tb[1] = 5\n\tn := copy(a, b)\n\treturn uint64(n)*100 + a[1]\n}\n", "return cp%d()", "uint64"},
	{"append.spread", "func as%d() uint64 {\n\ta := make([]uint64, 1)\n\tb := make([]uint64, 2)\n\tb[1] = 8\n\tc := append(a, b...)\n\treturn uint64(len(c))*100 + c[2]\n}\n", "return as%d()", "uint64"},
	{"global.var", "var gv%dx uint64 = 12\n\nfunc gv%d() uint64 {\n\treturn gv%dx + 1\n}\n", "return gv%d()", "uint64"},
	{"global.var-mutated", "var gm%dx uint64 = 1\n\nfunc gm%ds() {\n\tgm%dx = 5\n}\n\nfunc gm%d() uint64 {\n\tgm%ds()\n\treturn gm%dx\n}\n", "return gm%d()", "uint64"},
	{"interface.method", "type im%di interface {\n\tarea() uint64\n}\n\ntype im%ds struct {\n\tw uint64\n}\n\nfunc (s im%ds) area() uint64 {\n\treturn s.w * s.w\n}\n\nfunc im%dm(x im%di) uint64 {\n\treturn x.area()\n}\n\nfunc im%d() uint64 {\n\treturn im%dm(im%ds{w: 3})\n}\n", "return im%d()", "uint64"},
	{"interface.var", "type iv%di interface {\n\tarea() uint64\n}\n\ntype iv%ds struct {\n\tw uint64\n}\n\nfunc (s iv%ds) area() uint64 {\n\treturn s.w * s.w\n}\n\nfunc iv%d() uint64 {\n\tvar x iv%di = iv%ds{w: 3}\n\treturn x.area()\n}\n", "return iv%d()", "uint64"},
	{"interface.extra-params", "type ip%di interface {\n\tarea() uint64\n}\n\ntype ip%ds struct {\n\tw uint64\n}\n\nfunc (s ip%ds) area() uint64 {\n\treturn s.w * s.w\n}\n\nfunc ip%dm(x ip%di, n uint64) uint64 {\n\treturn x.area() + n\n}\n\nfunc ip%d() uint64 {\n\tv := ip%dm(ip%ds{w: 3}, 2)\n\treturn v\n}\n", "return ip%d()", "uint64"},
	{"interface.second-param", "type iq%di interface {\n\tarea() uint64\n}\n\ntype iq%ds struct {\n\tw uint64\n}\n\nfunc (s iq%ds) area() uint64 {\n\treturn s.w * s.w\n}\n\nfunc iq%dm(n uint64, x iq%di) uint64 {\n\treturn x.area() + n\n}\n\nfunc iq%d() uint64 {\n\tv := iq%dm(2, iq%ds{w: 3})\n\treturn v\n}\n", "return iq%d()", "uint64"},
	{"interface.pointer-impl", "type ir%di interface {\n\tbump() uint64\n}\n\ntype ir%ds struct {\n\tw uint64\n}\n\nfunc (s *ir%ds) bump() uint64 {\n\ts.w = s.w + 1\n\treturn s.w\n}\n\nfunc ir%dm(x ir%di) uint64 {\n\treturn x.bump() + x.bump()\n}\n\nfunc ir%d() uint64 {\n\tp := &ir%ds{w: 3}\n\tv := ir%dm(p)\n\treturn v + p.w\n}\n", "return ir%d()", "uint64"},
	{"generic.func", "func gf%d[T any](x T, y T, first bool) T {\n\tif first {\n\t\treturn x\n\t}\n\treturn y\n}\n", "return gf%d[uint64](3, 4, false)", "uint64"},
	{"init.func", "var in%dv uint64\n\nfunc in%d() uint64 {\n\treturn in%dv\n}\n", "return in%d()", "uint64"},
	{"blank.assign-call", "func ba%dh(p *uint64) uint64 {\n\t*p = 3\n\treturn 1\n}\n\nfunc ba%d() uint64 {\n\tp := new(uint64)\n\t_ = ba%dh(p)\n\treturn *p\n}\n", "return ba%d()", "uint64"},
	{"u64tostring", "func us%d(x uint64) uint64 {\n\ts := machine.UInt64ToString(x)\n\treturn uint64(len(s))\n}\n", "return us%d(18446744073709551615)", "uint64"},
}

// Instantiate replaces every %d with n and returns (declarations, entry function text).
func (it Item) Instantiate(n int, entryName string) (string, string) {
	rep := func(s string) string {
		cnt := strings.Count(s, "%d")
		args := make([]any, cnt)
		for i := range args {
			args[i] = n
		}
		return fmt.Sprintf(s, args...)
	}
	decls := rep(it.Decls)
	entry := fmt.Sprintf("func %s() %s {\n\t%s\n}\n", entryName, it.Ret, rep(it.Entry))
	return decls, entry
}

// FarOutside: constructs far outside the subset (C07: goose must answer with structured errors, never crash).
var FarOutside = []Item{
	{"chan.basic", "func ch%d() uint64 {\n\tc := make(chan uint64, 1)\n\tc <- 3\n\treturn <-c\n}\n", "return ch%d()", "uint64"},
	{"select", "func se%d() uint64 {\n\tc := make(chan uint64, 1)\n\tc <- 1\n\tselect {\n\tcase v := <-c:\n\t\treturn v\n\tdefault:\n\t\treturn 0\n\t}\n}\n", "return se%d()", "uint64"},
	{"float", "func fl%d(x uint64) uint64 {\n\tf := float64(x) * 1.5\n\treturn uint64(f)\n}\n", "return fl%d(4)", "uint64"},
	{"complex", "func cx%d() uint64 {\n\tz := complex(1, 2)\n\treturn uint64(real(z))\n}\n", "return cx%d()", "uint64"},
	{"generic.constraint", "type nm%d interface {\n\t~uint64 | ~uint32\n}\n\nfunc gc%d[T nm%d](a T, b T) T {\n\treturn a + b\n}\n", "return gc%d[uint64](1, 2)", "uint64"},
	{"interface.embedded", "type ia%d interface {\n\tA() uint64\n}\n\ntype ib%d interface {\n\tia%d\n\tB() uint64\n}\n\nfunc ie%d(x ib%d) uint64 {\n\treturn x.A() + x.B()\n}\n", "return 0", "uint64"},
	{"method.expression", "type me%ds struct {\n\tk uint64\n}\n\nfunc (s me%ds) get() uint64 {\n\treturn s.k\n}\n\nfunc me%d() uint64 {\n\tf := me%ds.get\n\treturn f(me%ds{k: 3})\n}\n", "return me%d()", "uint64"},
	{"struct.tags", "type tg%ds struct {\n\tA uint64 `json:\"a\"`\n}\n\nfunc tg%d() uint64 {\n\treturn tg%ds{A: 2}.A\n}\n", "return tg%d()", "uint64"},
	{"blank.param", "func bp%d(_ uint64, x uint64) uint64 {\n\treturn x\n}\n", "return bp%d(1, 2)", "uint64"},
	{"named.slice-empty-literal", "type ns%dt []uint64\n\nfunc ns%d() uint64 {\n\tx := ns%dt{}\n\treturn uint64(len(x))\n}\n", "return ns%d()", "uint64"},
	{"named.map-type", "type nmt%dt map[uint64]uint64\n\nfunc nmt%d() uint64 {\n\tx := make(nmt%dt)\n\tx[1] = 2\n\treturn x[1]\n}\n", "return nmt%d()", "uint64"},
	{"named.func-type", "type nf%dt func(uint64) uint64\n\nfunc nf%d(f nf%dt) uint64 {\n\treturn f(1)\n}\n", "return nf%d(func(x uint64) uint64 {\n\t\treturn x + 1\n\t})", "uint64"},
	{"local.type-decl", "func lt%d() uint64 {\n\ttype pair struct {\n\t\ta uint64\n\t\tb uint64\n\t}\n\tp := pair{a: 1, b: 2}\n\treturn p.a + p.b\n}\n", "return lt%d()", "uint64"},
	{"local.const-decl", "func lcd%d() uint64 {\n\tconst k uint64 = 5\n\treturn k + 1\n}\n", "return lcd%d()", "uint64"},
	{"local.var-group", "func lvg%d() uint64 {\n\tvar (\n\t\ta uint64 = 1\n\t\tb uint64 = 2\n\t)\n\treturn a + b\n}\n", "return lvg%d()", "uint64"},
	{"pointer.to-pointer", "func pp%d() uint64 {\n\tx := new(uint64)\n\tpx := new(*uint64)\n\t*px = x\n\t**px = 4\n\treturn *x\n}\n", "return pp%d()", "uint64"},
	{"func.var-recursion", "func fr%d() uint64 {\n\tvar f func(uint64) uint64\n\tf = func(n uint64) uint64 {\n\t\tif n == 0 {\n\t\t\treturn 0\n\t\t}\n\t\treturn 1 + f(n-1)\n\t}\n\treturn f(3)\n}\n", "return fr%d()", "uint64"},
	{"else-if.early-return", "func ee%d(a bool, b bool) uint64 {\n\tif a {\n\t\treturn 1\n\t} else if b {\n\t\treturn 2\n\t}\n\treturn 3\n}\n", "return ee%d(false, true)", "uint64"},
	{"struct.by-value-multi-field", "type mf%ds struct {\n\tx, y uint64\n}\n\nfunc mf%d(v mf%ds) uint64 {\n\tswitch v.x {\n\tcase 1:\n\t\treturn 1\n\t}\n\treturn v.y\n}\n", "return mf%d(mf%ds{})", "uint64"},
	{"calls.rejected-callee", "func rc%da(x uint64) uint64 {\n\tdefer func() {}()\n\treturn x\n}\n\nfunc rc%db() uint64 {\n\tgo rc%da(1)\n\treturn rc%da(2)\n}\n", "return rc%db()", "uint64"},
	{"string.multiline-raw", "func mr%d() string {\n\treturn `line1\nline2 \"quoted\"`\n}\n", "return uint64(len(mr%d()))", "uint64"},
	{"unsafe.sizeof", "func us%dz() uint64 {\n\tvar x uint64\n\treturn uint64(len([]uint64{x}))\n}\n", "return us%dz()", "uint64"},
	{"closure.immediately-invoked", "func ii%d() uint64 {\n\treturn func(x uint64) uint64 {\n\t\treturn x * 2\n\t}(4)\n}\n", "return ii%d()", "uint64"},
	{"interface.any-param", "func ap%d(x interface{}) uint64 {\n\tswitch x.(type) {\n\tcase uint64:\n\t\treturn 1\n\t}\n\treturn 0\n}\n", "return ap%d(uint64(1))", "uint64"},
	{"struct.nested-literal", "type nl%da struct {\n\tv uint64\n}\n\ntype nl%db struct {\n\tin nl%da\n\tp *nl%da\n}\n\nfunc nl%d() uint64 {\n\tx := nl%db{in: nl%da{v: 1}, p: &nl%da{v: 2}}\n\treturn x.in.v + x.p.v\n}\n", "return nl%d()", "uint64"},
}
