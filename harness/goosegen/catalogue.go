package goosegen

import (
	"fmt"
	"strings"
)

// Item is one out-of-subset or look-alike construct: a few top-level declarations plus a closed entry.
// %d in the text is replaced by a unique number. Every item type-checks as ordinary Go.
type Item struct {
	Key   string
	Decls string // top-level declarations (helpers)
	Entry string // body of `func entryX() <Ret>` ; must use only its own helpers
	Ret   string // result type(s) of the entry, Go syntax
}

var Catalogue = []Item{
	{"opassign.shl", "func oa%d(x uint64) uint64 {\n\tvar y uint64 = x\n\ty <<= 3\n\treturn y\n}\n", "return oa%d(5)", "uint64"},
	{"opassign.shr", "func oa%d(x uint64) uint64 {\n\tvar y uint64 = x\n\ty >>= 2\n\treturn y\n}\n", "return oa%d(1000)", "uint64"},
	{"opassign.mul", "func oa%d(x uint64) uint64 {\n\tvar y uint64 = x\n\ty *= 7\n\treturn y\n}\n", "return oa%d(6)", "uint64"},
	{"opassign.div", "func oa%d(x uint64) uint64 {\n\tvar y uint64 = x\n\ty /= 7\n\treturn y\n}\n", "return oa%d(60)", "uint64"},
	{"opassign.rem", "func oa%d(x uint64) uint64 {\n\tvar y uint64 = x\n\ty %%= 7\n\treturn y\n}\n", "return oa%d(60)", "uint64"},
	{"opassign.andnot", "func oa%d(x uint64) uint64 {\n\tvar y uint64 = x\n\ty &^= 6\n\treturn y\n}\n", "return oa%d(15)", "uint64"},
	{"op.andnot", "func op%d(x uint64, y uint64) uint64 {\n\treturn x &^ y\n}\n", "return op%d(15, 6)", "uint64"},
	{"op.unary-minus", "func op%d(x uint64) uint64 {\n\treturn -x\n}\n", "return op%d(5)", "uint64"},
	{"op.unary-plus", "func op%d(x uint64) uint64 {\n\treturn +x\n}\n", "return op%d(5)", "uint64"},
	{"slice.3index", "func sl%d(s []uint64) uint64 {\n\tt := s[1:2:3]\n\treturn uint64(cap(t))\n}\n", "return sl%d(make([]uint64, 5))", "uint64"},
	{"slice.full", "func sl%d(s []uint64) uint64 {\n\tt := s[:]\n\treturn uint64(len(t))\n}\n", "return sl%d(make([]uint64, 5))", "uint64"},
	{"if.init", "func ifi%d(x uint64) uint64 {\n\tif v := x + 1; v > 3 {\n\t\treturn v\n\t}\n\treturn 0\n}\n", "return ifi%d(7)", "uint64"},
	{"switch", "func sw%d(x uint64) uint64 {\n\tswitch x {\n\tcase 1:\n\t\treturn 10\n\tcase 2:\n\t\treturn 20\n\t}\n\treturn 30\n}\n", "return sw%d(2)", "uint64"},
	{"switch.tagless", "func sw%d(x uint64) uint64 {\n\tvar r uint64 = 1\n\tswitch {\n\tcase x > 5:\n\t\tr = 2\n\tdefault:\n\t\tr = 3\n\t}\n\treturn r\n}\n", "return sw%d(9)", "uint64"},
	{"defer", "func df%d(p *uint64) {\n\tdefer func() {\n\t\t*p = *p + 1\n\t}()\n\t*p = 10\n}\n", "p := new(uint64)\n\tdf%d(p)\n\treturn *p", "uint64"},
	{"go.args", "func ga%d() uint64 {\n\tdone := make(chan uint64)\n\tvar i uint64 = 3\n\tgo func(v uint64) {\n\t\tdone <- v\n\t}(i)\n\ti = 4\n\treturn <-done\n}\n", "return ga%d()", "uint64"},
	{"named-results", "func nr%d(x uint64) (r uint64) {\n\tr = x + 1\n\treturn\n}\n", "return nr%d(4)", "uint64"},
	{"named-results.explicit", "func nr%d(x uint64) (r uint64, ok bool) {\n\treturn x + 2, true\n}\n", "a, b := nr%d(4)\n\tif b {\n\t\treturn a\n\t}\n\treturn 0", "uint64"},
	{"struct.embedded", "type em%da struct {\n\tx uint64\n}\n\ntype em%db struct {\n\tem%da\n\ty uint64\n}\n\nfunc em%d() uint64 {\n\tv := em%db{y: 2}\n\treturn v.x + v.y\n}\n", "return em%d()", "uint64"},
	{"struct.unkeyed", "type uk%ds struct {\n\ta uint64\n\tb uint64\n}\n\nfunc uk%d() uint64 {\n\tv := uk%ds{3, 4}\n\treturn v.a*10 + v.b\n}\n", "return uk%d()", "uint64"},
	{"slice.literal-multi", "func lm%d() uint64 {\n\ts := []uint64{7, 8, 9}\n\treturn s[1] + uint64(len(s))\n}\n", "return lm%d()", "uint64"},
	{"map.literal", "func ml%d() uint64 {\n\tm := map[uint64]uint64{1: 5, 2: 6}\n\treturn m[2]\n}\n", "return ml%d()", "uint64"},
	{"array", "func ar%d() uint64 {\n\tvar a [3]uint64\n\ta[1] = 5\n\treturn a[1] + uint64(len(a))\n}\n", "return ar%d()", "uint64"},
	{"int.signed", "func si%d(x uint64) uint64 {\n\tvar y int = int(x)\n\ty = y - 10\n\tif y < 0 {\n\t\treturn 1\n\t}\n\treturn 2\n}\n", "return si%d(3)", "uint64"},
	{"incdec.field", "type idf%ds struct {\n\tn uint64\n}\n\nfunc idf%d() uint64 {\n\tp := &idf%ds{n: 4}\n\tp.n++\n\treturn p.n\n}\n", "return idf%d()", "uint64"},
	{"incdec.elem", "func ide%d() uint64 {\n\ts := make([]uint64, 2)\n\ts[1]++\n\ts[1]++\n\treturn s[1]\n}\n", "return ide%d()", "uint64"},
	{"incdec.u32", "func idu%d() uint32 {\n\tvar y uint32 = 7\n\ty++\n\treturn y\n}\n", "return idu%d()", "uint32"},
	{"incdec.u8", "func idb%d() byte {\n\tvar y byte = 255\n\ty++\n\treturn y\n}\n", "return idb%d()", "byte"},
	{"label.continue-outer", "func lc%d(n uint64, m uint64) uint64 {\n\tvar total uint64 = 0\nouter:\n\tfor i := uint64(0); i < n; i++ {\n\t\tfor j := uint64(0); j < m; j++ {\n\t\t\tif j == 1 {\n\t\t\t\tcontinue outer\n\t\t\t}\n\t\t\ttotal = total + 1\n\t\t}\n\t\ttotal = total + 10\n\t}\n\treturn total\n}\n", "return lc%d(1, 3)", "uint64"},
	{"label.break-outer", "func lb%d(n uint64) uint64 {\n\tvar total uint64 = 0\nouter:\n\tfor i := uint64(0); i < n; i++ {\n\t\tfor j := uint64(0); j < n; j++ {\n\t\t\tif j == 1 {\n\t\t\t\tbreak outer\n\t\t\t}\n\t\t\ttotal = total + 1\n\t\t}\n\t\ttotal = total + 10\n\t}\n\treturn total\n}\n", "return lb%d(3)", "uint64"},
	{"goto", "func gt%d(x uint64) uint64 {\n\tvar y uint64 = x\n\tif y > 2 {\n\t\tgoto end\n\t}\n\ty = 100\nend:\n\treturn y\n}\n", "return gt%d(5)", "uint64"},
	{"return.in-loop", "func rl%d(n uint64) uint64 {\n\tfor i := uint64(0); i < n; i++ {\n\t\tif i == 2 {\n\t\t\treturn i + 40\n\t\t}\n\t}\n\treturn 0\n}\n", "return rl%d(5)", "uint64"},
	{"return.nested-elseless", "func rn%d(a bool, b bool) uint64 {\n\tif a {\n\t\tif b {\n\t\t\treturn 1\n\t\t}\n\t}\n\treturn 2\n}\n", "return rn%d(true, false) + 10*rn%d(true, true) + 100*rn%d(false, true)", "uint64"},
	{"break.nested-elseless", "func bn%d(n uint64) uint64 {\n\tvar c uint64 = 0\n\tfor i := uint64(0); i < n; i++ {\n\t\tif i > 1 {\n\t\t\tif i == 3 {\n\t\t\t\tbreak\n\t\t\t}\n\t\t}\n\t\tc = c + 1\n\t}\n\treturn c\n}\n", "return bn%d(6)", "uint64"},
	{"return.else-after-early", "func re%d(a bool, b bool) uint64 {\n\tvar r uint64 = 5\n\tif a {\n\t\treturn 1\n\t} else if b {\n\t\tr = 7\n\t}\n\treturn r\n}\n", "return re%d(false, true)", "uint64"},
	{"variadic", "func va%d(xs ...uint64) uint64 {\n\tvar t uint64 = 0\n\tfor _, x := range xs {\n\t\tt = t + x\n\t}\n\treturn t\n}\n\nfunc vb%d() uint64 {\n\treturn va%d(1, 2, 3)\n}\n", "return vb%d()", "uint64"},
	{"const.multi", "const cma%d, cmb%d uint64 = 11, 22\n\nfunc cm%d() uint64 {\n\treturn cma%d + cmb%d\n}\n", "return cm%d()", "uint64"},
	{"const.iota", "const (\n\tcia%d uint64 = iota\n\tcib%d\n\tcic%d\n)\n\nfunc ci%d() uint64 {\n\treturn cia%d + cib%d*10 + cic%d*100\n}\n", "return ci%d()", "uint64"},
	{"const.grouped", "const (\n\tcga%d uint64 = 4\n\tcgb%d uint64 = 5\n)\n\nfunc cg%d() uint64 {\n\treturn cga%d*10 + cgb%d\n}\n", "return cg%d()", "uint64"},
	{"string.index", "func sx%d(s string) byte {\n\treturn s[1]\n}\n", "return sx%d(\"abc\")", "byte"},
	{"string.range", "func sr%d(s string) uint64 {\n\tvar n uint64 = 0\n\tfor range s {\n\t\tn = n + 1\n\t}\n\treturn n\n}\n", "return sr%d(\"abcd\")", "uint64"},
	{"string.compare-lt", "func sc%d(a string, b string) bool {\n\treturn a < b\n}\n", "return sc%d(\"abc\", \"abd\")", "bool"},
	{"range.int", "func ri%d() uint64 {\n\tvar n uint64 = 0\n\tfor i := range 4 {\n\t\tn = n + uint64(i)\n\t}\n\treturn n\n}\n", "return ri%d()", "uint64"},
	{"range.int-bound-shrinks", "func rib%d(k uint64) uint64 {\n\tvar n uint64 = k\n\tvar t uint64 = 0\n\tfor i := range n {\n\t\tn = n - 1\n\t\tt = t + i + 1\n\t}\n\treturn t*100 + n\n}\n", "return rib%d(6)", "uint64"},
	{"range.int-len-grows", "func ril%d() uint64 {\n\tq := make([]uint64, 0)\n\tq = append(q, 1)\n\tq = append(q, 2)\n\tfor i := range uint64(len(q)) {\n\t\tif uint64(len(q)) < 6 {\n\t\t\tq = append(q, i+10)\n\t\t}\n\t}\n\treturn uint64(len(q))\n}\n", "return ril%d()", "uint64"},
	{"range.int-assign-index", "func rix%d() uint64 {\n\tvar t uint64 = 0\n\tfor i := range uint64(5) {\n\t\tif i == 1 {\n\t\t\ti = 3\n\t\t}\n\t\tt = t*10 + i\n\t}\n\treturn t\n}\n", "return rix%d()", "uint64"},
	{"assign.rotate3", "func rt%d(a uint64, b uint64, c uint64) uint64 {\n\tvar x uint64 = a\n\tvar y uint64 = b\n\tvar z uint64 = c\n\tx, y, z = y, z, x\n\treturn x*100 + y*10 + z\n}\n", "return rt%d(1, 2, 3)", "uint64"},
	{"assign.swap-deref", "func sd%d(p *uint64, q *uint64) {\n\t*p, *q = *q, *p\n}\n\nfunc se%d() uint64 {\n\tp := new(uint64)\n\tq := new(uint64)\n\t*p = 4\n\t*q = 9\n\tsd%d(p, q)\n\treturn *p*10 + *q\n}\n", "return se%d()", "uint64"},
	{"assign.swap-params", "func sq%d(a uint64, b uint64) uint64 {\n\ta, b = b, a\n\treturn a*10 + b\n}\n", "return sq%d(1, 2)", "uint64"},
	{"struct.embedded-init", "type ei%da struct {\n\tx uint64\n}\n\ntype ei%db struct {\n\tei%da\n\ty uint64\n}\n\nfunc ei%d() uint64 {\n\tv := ei%db{ei%da: ei%da{x: 5}, y: 2}\n\treturn v.x*10 + v.y\n}\n", "return ei%d()", "uint64"},
	{"struct.embedded-explicit", "type ee%da struct {\n\tx uint64\n}\n\ntype ee%db struct {\n\tee%da\n\ty uint64\n}\n\nfunc ee%d() uint64 {\n\tv := ee%db{ee%da: ee%da{x: 5}, y: 2}\n\treturn v.ee%da.x*10 + v.y\n}\n", "return ee%d()", "uint64"},
	{"struct.embedded-method", "type em%dc struct {\n\tx uint64\n}\n\nfunc (a em%dc) get() uint64 {\n\treturn a.x + 1\n}\n\ntype em%dd struct {\n\tem%dc\n\ty uint64\n}\n\nfunc eg%d() uint64 {\n\tv := em%dd{em%dc: em%dc{x: 5}, y: 2}\n\treturn v.get()*10 + v.y\n}\n", "return eg%d()", "uint64"},
	{"struct.embedded-pointer", "type ep%da struct {\n\tx uint64\n}\n\ntype ep%db struct {\n\t*ep%da\n\ty uint64\n}\n\nfunc ep%d() uint64 {\n\tv := ep%db{ep%da: &ep%da{x: 5}, y: 2}\n\tv.x = v.x + 1\n\treturn v.x*10 + v.y\n}\n", "return ep%d()", "uint64"},
	{"interface.embedded", "type ie%da interface {\n\tA() uint64\n}\n\ntype ie%db interface {\n\tie%da\n\tB() uint64\n}\n\ntype ie%ds struct {\n\tk uint64\n}\n\nfunc (s ie%ds) A() uint64 {\n\treturn s.k\n}\n\nfunc (s ie%ds) B() uint64 {\n\treturn s.k + 1\n}\n\nfunc ie%df(v ie%db) uint64 {\n\treturn v.A()*10 + v.B()\n}\n\nfunc ie%d() uint64 {\n\treturn ie%df(ie%ds{k: 3})\n}\n", "return ie%d()", "uint64"},
	{"incdec.elem-side-effect", "type ic%dc struct {\n\tn uint64\n}\n\nfunc (c *ic%dc) next() uint64 {\n\tc.n = c.n + 1\n\treturn c.n - 1\n}\n\nfunc ic%d() uint64 {\n\ta := make([]uint64, 4)\n\tc := &ic%dc{n: 0}\n\ta[c.next()]++\n\ta[c.next()]++\n\treturn a[0]*1000 + a[1]*100 + a[2]*10 + c.n\n}\n", "return ic%d()", "uint64"},
	{"incdec.elem-u8-wrap", "func iw%d() uint64 {\n\tb := make([]byte, 2)\n\tb[1] = 255\n\tb[1]++\n\treturn uint64(b[1]) + 5\n}\n", "return iw%d()", "uint64"},
	{"incdec.deref-call", "type id%dc struct {\n\tn uint64\n\tp *uint64\n}\n\nfunc (c *id%dc) cell() *uint64 {\n\tc.n = c.n + 1\n\treturn c.p\n}\n\nfunc id%d() uint64 {\n\tc := &id%dc{n: 0, p: new(uint64)}\n\t*c.cell()++\n\treturn *c.p*10 + c.n\n}\n", "return id%d()", "uint64"},
	{"incdec.map-elem", "func im%d() uint64 {\n\tm := make(map[uint64]uint64)\n\tm[3] = 4\n\tm[3]--\n\tm[7]++\n\treturn m[3]*10 + m[7]\n}\n", "return im%d()", "uint64"},
	{"const.untyped-big-shift", "const cb%d = 1 << 70\n\nfunc cbf%d() uint64 {\n\treturn cb%d >> 68\n}\n", "return cbf%d()", "uint64"},
	{"const.untyped-as-u8", "const cu%d = 200\n\nfunc cuf%d(x byte) byte {\n\treturn x + cu%d\n}\n", "return cuf%d(100)", "byte"},
	{"const.untyped-as-index", "const ci%dn = 2\n\nfunc cif%d() uint64 {\n\ts := make([]uint64, 4)\n\ts[ci%dn] = 9\n\tvar k uint32 = ci%dn\n\treturn s[2] + uint64(k)\n}\n", "return cif%d()", "uint64"},
	{"switch.tagless-break-last-in-loop", "func sb%d(n uint64) uint64 {\n\tvar c uint64 = 0\n\tfor i := uint64(0); i < n; i++ {\n\t\tc = c + 1\n\t\tswitch {\n\t\tcase i == 1:\n\t\t\tbreak\n\t\tdefault:\n\t\t\tc = c + 10\n\t\t}\n\t}\n\treturn c\n}\n", "return sb%d(3)", "uint64"},
	{"switch.tagless-break-under-if-last-in-loop", "func sc%d(n uint64) uint64 {\n\tvar c uint64 = 0\n\tfor i := uint64(0); i < n; i++ {\n\t\tc = c + 1\n\t\tswitch {\n\t\tcase i >= 1:\n\t\t\tif c > 2 {\n\t\t\t\tbreak\n\t\t\t}\n\t\t\tc = c + 100\n\t\tdefault:\n\t\t\tc = c + 10\n\t\t}\n\t}\n\treturn c\n}\n", "return sc%d(4)", "uint64"},
	{"switch.tagless-multi-cond", "func sm%dt(x uint64) uint64 {\n\tvar r uint64 = 0\n\tswitch {\n\tcase x == 1, x == 3:\n\t\tr = 5\n\tcase x > 10:\n\t\tr = 6\n\tdefault:\n\t\tr = 7\n\t}\n\treturn r\n}\n", "return sm%dt(3)*100 + sm%dt(11)*10 + sm%dt(2)", "uint64"},
	// in-subset fixed programs (accepted at the pin; C01 executes them like its generated programs)
	{"subset.slice-field-upto-len-of-other", "type sf%d struct {\n\tdata []byte\n}\n\nfunc sf%df(a *sf%d, b *sf%d, n uint64) uint64 {\n\ts := a.data[n:len(b.data)]\n\treturn uint64(len(s))\n}\n\nfunc sf%dg() uint64 {\n\ta := &sf%d{data: make([]byte, 10)}\n\tb := &sf%d{data: make([]byte, 6)}\n\treturn sf%df(a, b, 2)*100 + sf%df(b, b, 1)\n}\n", "return sf%dg()", "uint64"},
	{"subset.slice-upto-len-of-other-var", "func sv%d() uint64 {\n\txs := make([]uint64, 9)\n\tys := make([]uint64, 5)\n\ts := xs[1:len(ys)]\n\tt := ys[2:len(ys)]\n\treturn uint64(len(s))*10 + uint64(len(t))\n}\n", "return sv%d()", "uint64"},
	{"subset.uint64tostring-two-live", "func ts%d(x uint64, y uint64) string {\n\ta := machine.UInt64ToString(x)\n\tb := machine.UInt64ToString(y)\n\treturn a + \"-\" + b\n}\n", "return ts%d(12, 345)", "string"},
	{"subset.uint64tostring-kept-in-field", "type tk%d struct {\n\tname string\n}\n\nfunc tk%df() string {\n\tv := &tk%d{name: machine.UInt64ToString(7001)}\n\tw := machine.UInt64ToString(42)\n\treturn v.name + w\n}\n", "return tk%df()", "string"},
	{"subset.named-map-make-read-miss", "type nm%dt map[uint64]bool\n\nfunc nm%df() uint64 {\n\tm := make(nm%dt)\n\tif m[3] {\n\t\treturn 1\n\t}\n\treturn uint64(len(m)) + 7\n}\n", "return nm%df()", "uint64"},
	{"subset.alias-map-make-rmw", "type am%dt = map[uint64]bool\n\nfunc am%df() uint64 {\n\tm := make(am%dt)\n\tm[4] = true\n\tvar r uint64 = 0\n\tif m[4] {\n\t\tr = r + 10\n\t}\n\tif m[5] {\n\t\tr = r + 1\n\t}\n\treturn r\n}\n", "return am%df()", "uint64"},
	{"method.value", "type mv%ds struct {\n\tk uint64\n}\n\nfunc (s *mv%ds) get(x uint64) uint64 {\n\treturn s.k + x\n}\n\nfunc mv%d() uint64 {\n\tp := &mv%ds{k: 5}\n\tf := p.get\n\tp.k = 100\n\treturn f(1)\n}\n", "return mv%d()", "uint64"},
	{"struct.anonymous", "func an%d() uint64 {\n\tv := struct {\n\t\ta uint64\n\t}{a: 4}\n\treturn v.a\n}\n", "return an%d()", "uint64"},
	{"literal.huge", "func lh%d() uint64 {\n\treturn 18446744073709551616 / 2\n}\n", "return lh%d()", "uint64"},
	{"literal.huge2", "func lh%d() uint64 {\n\treturn 36893488147419103231 %% 1000000007\n}\n", "return lh%d()", "uint64"},
	{"assign.swap", "func sp%d(a uint64, b uint64) uint64 {\n\tvar x uint64 = a\n\tvar y uint64 = b\n\tx, y = y, x\n\treturn x*10 + y\n}\n", "return sp%d(1, 2)", "uint64"},
	{"define.multi", "func dm%d() uint64 {\n\ta, b := uint64(1), uint64(2)\n\treturn a*10 + b\n}\n", "return dm%d()", "uint64"},
	{"assign.complex-lvalue", "type cl%ds struct {\n\tf uint64\n}\n\nfunc cl%d() uint64 {\n\ts := make([]cl%ds, 2)\n\ts[1].f = 9\n\treturn s[1].f\n}\n", "return cl%d()", "uint64"},
	{"compare.struct", "type cs%ds struct {\n\ta uint64\n\tb bool\n}\n\nfunc cs%d() bool {\n\tx := cs%ds{a: 1, b: true}\n\ty := cs%ds{a: 1, b: true}\n\treturn x == y\n}\n", "return cs%d()", "bool"},
	{"compare.nil-map", "func nm%d() bool {\n\tvar m map[uint64]uint64\n\treturn m == nil\n}\n", "return nm%d()", "bool"},
	{"compare.nil-slice-empty", "func ns%d() bool {\n\ts := make([]uint64, 0)\n\treturn s == nil\n}\n", "return ns%d()", "bool"},
	{"shift.mixed-width", "func sm%d(x uint64, y uint32) uint64 {\n\treturn x << y\n}\n", "return sm%d(3, 4)", "uint64"},
	{"block.bare-shadow", "func bs%d() uint64 {\n\tx := uint64(1)\n\t{\n\t\tx := uint64(2)\n\t\t_ = x\n\t}\n\treturn x\n}\n", "return bs%d()", "uint64"},
	{"loopvar.shadow-used-after", "func ls%d() uint64 {\n\ti := uint64(7)\n\tvar t uint64 = 0\n\tfor i := uint64(0); i < 3; i++ {\n\t\tt = t + i\n\t}\n\treturn t*100 + i\n}\n", "return ls%d()", "uint64"},
	{"conv.byte", "func cb%d(x uint64) uint64 {\n\treturn uint64(byte(x))\n}\n", "return cb%d(300)", "uint64"},
	{"conv.named-int", "type ni%dt uint32\n\nfunc ni%d(x uint64) uint64 {\n\treturn uint64(ni%dt(x))\n}\n", "return ni%d(4294967297)", "uint64"},
	{"order.two-effects", "func oe%dw(p *uint64, v uint64) uint64 {\n\told := *p\n\t*p = v\n\treturn old\n}\n\nfunc oe%d() uint64 {\n\tp := new(uint64)\n\treturn oe%dw(p, 1)*10 + oe%dw(p, 2)\n}\n", "return oe%d()", "uint64"},
	{"addr.define-local", "func ad%d() uint64 {\n\tx := uint64(5)\n\tp := &x\n\t*p = 6\n\treturn x\n}\n", "return ad%d()", "uint64"},
	{"recv.value-on-pointer-method", "type rv%ds struct {\n\tn uint64\n}\n\nfunc (s *rv%ds) inc() {\n\ts.n = s.n + 1\n}\n\nfunc rv%d() uint64 {\n\tvar v rv%ds\n\tv.inc()\n\tv.inc()\n\treturn v.n\n}\n", "return rv%d()", "uint64"},
	{"recv.pointer-on-value-method", "type rp%ds struct {\n\tn uint64\n}\n\nfunc (s rp%ds) get() uint64 {\n\treturn s.n + 1\n}\n\nfunc rp%d() uint64 {\n\tp := &rp%ds{n: 4}\n\treturn p.get()\n}\n", "return rp%d()", "uint64"},
	{"field-assign.define-local", "type fa%ds struct {\n\tn uint64\n}\n\nfunc fa%d() uint64 {\n\tv := fa%ds{n: 1}\n\tv.n = 9\n\treturn v.n\n}\n", "return fa%d()", "uint64"},
	{"const.untyped-in-u32", "func cu%dh(x uint32) uint32 {\n\treturn x + 1\n}\n\nfunc cu%d() uint32 {\n\treturn cu%dh(1 << 20)\n}\n", "return cu%d()", "uint32"},
	{"string.newline", "func sn%d() uint64 {\n\ts := \"a\\nb\"\n\treturn uint64(len(s))\n}\n", "return sn%d()", "uint64"},
	{"string.rawnewline", "func sw%d() uint64 {\n\ts := `a\nb`\n\treturn uint64(len(s))\n}\n", "return sw%d()", "uint64"},
	{"lookalike.len", "func len(x uint64) uint64 {\n\treturn x + 100\n}\n\nfunc ll%d() uint64 {\n\treturn len(5)\n}\n", "return ll%d()", "uint64"},
	{"lookalike.uint64", "func uint32(x uint64) uint64 {\n\treturn x + 100\n}\n\nfunc lu%d() uint64 {\n\treturn uint32(4294967296)\n}\n", "return lu%d()", "uint64"},
	{"lookalike.nil-rebound", "func ln%d() uint64 {\n\ttrue := false\n\tif true {\n\t\treturn 1\n\t}\n\treturn 2\n}\n", "return ln%d()", "uint64"},
	{"lookalike.method-name-clash", "type mc%ds struct {\n\tn uint64\n}\n\nfunc (s *mc%ds) get() uint64 {\n\treturn s.n\n}\n\nfunc mc%ds__get(x uint64) uint64 {\n\treturn x + 50\n}\n\nfunc mc%d() uint64 {\n\tp := &mc%ds{n: 3}\n\treturn p.get() + mc%ds__get(1)\n}\n", "return mc%d()", "uint64"},
	{"closure.returns-closure", "func cc%d(a uint64) func(uint64) uint64 {\n\treturn func(b uint64) uint64 {\n\t\treturn a*10 + b\n\t}\n}\n", "f := cc%d(4)\n\treturn f(2)", "uint64"},
	{"type-assert.2value", "func ta%d(x interface{}) uint64 {\n\tv, ok := x.(uint64)\n\tif ok {\n\t\treturn v\n\t}\n\treturn 0\n}\n", "return ta%d(uint64(7))", "uint64"},
	{"copy.builtin", "func cp%d() uint64 {\n\ta := make([]uint64, 3)\n\tb := make([]uint64, 2)\n\tb[0] = 4\n\tb[1] = 5\n\tn := copy(a, b)\n\treturn uint64(n)*100 + a[1]\n}\n", "return cp%d()", "uint64"},
	{"append.spread", "func as%d() uint64 {\n\ta := make([]uint64, 1)\n\tb := make([]uint64, 2)\n\tb[1] = 8\n\tc := append(a, b...)\n\treturn uint64(len(c))*100 + c[2]\n}\n", "return as%d()", "uint64"},
	{"global.var", "var gv%dx uint64 = 12\n\nfunc gv%d() uint64 {\n\treturn gv%dx + 1\n}\n", "return gv%d()", "uint64"},
	{"global.var-mutated", "var gm%dx uint64 = 1\n\nfunc gm%ds() {\n\tgm%dx = 5\n}\n\nfunc gm%d() uint64 {\n\tgm%ds()\n\treturn gm%dx\n}\n", "return gm%d()", "uint64"},
	{"interface.method", "type im%di interface {\n\tarea() uint64\n}\n\ntype im%ds struct {\n\tw uint64\n}\n\nfunc (s im%ds) area() uint64 {\n\treturn s.w * s.w\n}\n\nfunc im%dm(x im%di) uint64 {\n\treturn x.area()\n}\n\nfunc im%d() uint64 {\n\treturn im%dm(im%ds{w: 3})\n}\n", "return im%d()", "uint64"},
	{"interface.var", "type iv%di interface {\n\tarea() uint64\n}\n\ntype iv%ds struct {\n\tw uint64\n}\n\nfunc (s iv%ds) area() uint64 {\n\treturn s.w * s.w\n}\n\nfunc iv%d() uint64 {\n\tvar x iv%di = iv%ds{w: 3}\n\treturn x.area()\n}\n", "return iv%d()", "uint64"},
	{"interface.extra-params", "type ip%di interface {\n\tarea() uint64\n}\n\ntype ip%ds struct {\n\tw uint64\n}\n\nfunc (s ip%ds) area() uint64 {\n\treturn s.w * s.w\n}\n\nfunc ip%dm(x ip%di, n uint64) uint64 {\n\treturn x.area() + n\n}\n\nfunc ip%d() uint64 {\n\tv := ip%dm(ip%ds{w: 3}, 2)\n\treturn v\n}\n", "return ip%d()", "uint64"},
	{"interface.second-param", "type iq%di interface {\n\tarea() uint64\n}\n\ntype iq%ds struct {\n\tw uint64\n}\n\nfunc (s iq%ds) area() uint64 {\n\treturn s.w * s.w\n}\n\nfunc iq%dm(n uint64, x iq%di) uint64 {\n\treturn x.area() + n\n}\n\nfunc iq%d() uint64 {\n\tv := iq%dm(2, iq%ds{w: 3})\n\treturn v\n}\n", "return iq%d()", "uint64"},
	{"interface.pointer-impl", "type ir%di interface {\n\tbump() uint64\n}\n\ntype ir%ds struct {\n\tw uint64\n}\n\nfunc (s *ir%ds) bump() uint64 {\n\ts.w = s.w + 1\n\treturn s.w\n}\n\nfunc ir%dm(x ir%di) uint64 {\n\treturn x.bump() + x.bump()\n}\n\nfunc ir%d() uint64 {\n\tp := &ir%ds{w: 3}\n\tv := ir%dm(p)\n\treturn v + p.w\n}\n", "return ir%d()", "uint64"},
	{"if.init-shadow", "func ifs%d(x uint64, y uint64) uint64 {\n\tif x := y + 1; x > 10 {\n\t\treturn x\n\t}\n\treturn x\n}\n", "return ifs%d(3, 4)*100 + ifs%d(3, 40)", "uint64"},
	{"if.init-then-use-outer", "func ifo%d(a uint64, b uint64) uint64 {\n\tn := a\n\tif n := b * 2; n > 100 {\n\t\treturn 0\n\t}\n\treturn n + 1\n}\n", "return ifo%d(3, 4)", "uint64"},
	{"assign.define-local", "func adl%d(a uint64) uint64 {\n\tx := a\n\tx = x + 5\n\treturn x\n}\n", "return adl%d(2)", "uint64"},
	{"assign.define-captured", "func adc%d(a uint64) uint64 {\n\tx := a\n\tf := func() uint64 {\n\t\treturn x\n\t}\n\tx = 5\n\treturn f()*10 + x\n}\n", "return adc%d(1)", "uint64"},
	{"assign.param", "func apm%d(x uint64) uint64 {\n\tx = x + 1\n\treturn x * 2\n}\n", "return apm%d(4)", "uint64"},
	{"assign.define-in-loop", "func adi%d(n uint64) uint64 {\n\tt := uint64(0)\n\tfor i := uint64(0); i < n; i++ {\n\t\tt = t + i\n\t}\n\treturn t\n}\n", "return adi%d(4)", "uint64"},
	{"defer.return-order", "func dro%d(p *uint64) uint64 {\n\tdefer func() {\n\t\t*p = 7\n\t}()\n\treturn *p\n}\n", "p := new(uint64)\n\t*p = 3\n\tr := dro%d(p)\n\treturn r*10 + *p", "uint64"},
	{"defer.lifo", "func dlf%d(p *uint64) {\n\tdefer func() {\n\t\t*p = *p * 2\n\t}()\n\tdefer func() {\n\t\t*p = *p + 3\n\t}()\n\t*p = 1\n}\n", "p := new(uint64)\n\tdlf%d(p)\n\treturn *p", "uint64"},
	{"defer.early-return", "func der%d(p *uint64, c bool) uint64 {\n\tdefer func() {\n\t\t*p = *p + 1\n\t}()\n\tif c {\n\t\treturn 1\n\t}\n\t*p = 10\n\treturn 2\n}\n", "p := new(uint64)\n\ta := der%d(p, true)\n\tb := der%d(p, false)\n\treturn a*100 + b*50 + *p", "uint64"},
	{"continue.nested-elseless", "func cn%d(n uint64) uint64 {\n\tvar c uint64 = 0\n\tfor i := uint64(0); i < n; i++ {\n\t\tif i > 1 {\n\t\t\tif i == 3 {\n\t\t\t\tcontinue\n\t\t\t}\n\t\t}\n\t\tc = c + 1\n\t}\n\treturn c\n}\n", "return cn%d(6)", "uint64"},
	{"return.nested-elseless-loop", "func rnl%d(n uint64) uint64 {\n\tvar c uint64 = 0\n\tfor i := uint64(0); i < n; i++ {\n\t\tif i > 1 {\n\t\t\tif c == 100 {\n\t\t\t\tbreak\n\t\t\t}\n\t\t}\n\t\tc = c + 1\n\t}\n\treturn c\n}\n", "return rnl%d(5)", "uint64"},
	{"return.elseif-chain-elseless", "func rec%d(x uint64) uint64 {\n\tif x > 10 {\n\t\tif x > 100 {\n\t\t\treturn 3\n\t\t} else if x > 50 {\n\t\t\treturn 2\n\t\t}\n\t}\n\treturn 1000 + x\n}\n", "return rec%d(11) + rec%d(60)*7", "uint64"},
	{"switch.fallthrough", "func sf%d(x uint64) uint64 {\n\tvar r uint64 = 0\n\tswitch x {\n\tcase 1:\n\t\tr = r + 1\n\t\tfallthrough\n\tcase 2:\n\t\tr = r + 10\n\tdefault:\n\t\tr = r + 100\n\t}\n\treturn r\n}\n", "return sf%d(1)", "uint64"},
	{"for.post-assign", "func fpa%d(n uint64) uint64 {\n\tvar t uint64 = 0\n\tfor i := uint64(0); i < n; i += 2 {\n\t\tt = t + i\n\t}\n\treturn t\n}\n", "return fpa%d(7)", "uint64"},
	{"for.post-continue", "func fpc%d(n uint64) uint64 {\n\tvar t uint64 = 0\n\tfor i := uint64(0); i < n; i++ {\n\t\tif i == 2 {\n\t\t\tcontinue\n\t\t}\n\t\tt = t + i\n\t}\n\treturn t\n}\n", "return fpc%d(5)", "uint64"},
	{"for.no-init", "func fni%d(n uint64) uint64 {\n\tvar i uint64 = 1\n\tfor ; i < n; i++ {\n\t}\n\treturn i\n}\n", "return fni%d(5)", "uint64"},
	{"range.index-only", "func rio%d() uint64 {\n\ts := make([]uint64, 4)\n\tvar t uint64 = 0\n\tfor i := range s {\n\t\tt = t + uint64(i)\n\t}\n\treturn t\n}\n", "return rio%d()", "uint64"},
	{"range.map-modify", "func rmm%d() uint64 {\n\tm := make(map[uint64]uint64)\n\tm[1] = 2\n\tm[3] = 4\n\tvar t uint64 = 0\n\tfor k, v := range m {\n\t\tt = t + k*v\n\t}\n\treturn t\n}\n", "return rmm%d()", "uint64"},
	{"opassign.field", "type oaf%ds struct {\n\tn uint64\n}\n\nfunc oaf%d() uint64 {\n\tp := &oaf%ds{n: 4}\n\tp.n += 3\n\treturn p.n\n}\n", "return oaf%d()", "uint64"},
	{"opassign.elem", "func oae%d() uint64 {\n\ts := make([]uint64, 2)\n\ts[1] += 3\n\ts[1] += 4\n\treturn s[1]\n}\n", "return oae%d()", "uint64"},
	{"opassign.deref", "func oad%d() uint64 {\n\tp := new(uint64)\n\t*p += 3\n\t*p += 4\n\treturn *p\n}\n", "return oad%d()", "uint64"},
	{"opassign.string", "func oas%d() uint64 {\n\tvar s string = \"ab\"\n\ts += \"cde\"\n\treturn uint64(len(s))\n}\n", "return oas%d()", "uint64"},
	{"assign.tuple-call-existing", "func atc%dh() (uint64, uint64) {\n\treturn 3, 4\n}\n\nfunc atc%d() uint64 {\n\tvar a uint64 = 1\n\tvar b uint64 = 2\n\ta, b = atc%dh()\n\treturn a*10 + b\n}\n", "return atc%d()", "uint64"},
	{"struct.value-copy", "type svc%ds struct {\n\tn uint64\n}\n\nfunc svc%d() uint64 {\n\tvar a svc%ds\n\ta.n = 1\n\tb := a\n\ta.n = 2\n\treturn a.n*10 + b.n\n}\n", "return svc%d()", "uint64"},
	{"struct.value-param-mutated", "type svp%ds struct {\n\tn uint64\n}\n\nfunc svp%dh(v svp%ds) uint64 {\n\tvar w svp%ds = v\n\tw.n = w.n + 5\n\treturn w.n\n}\n\nfunc svp%d() uint64 {\n\tv := svp%ds{n: 1}\n\tr := svp%dh(v)\n\treturn r*10 + v.n\n}\n", "return svp%d()", "uint64"},
	{"closure.loopvar", "func clv%d() uint64 {\n\tvar t uint64 = 0\n\tfor i := uint64(0); i < 3; i++ {\n\t\tf := func() uint64 {\n\t\t\treturn i * 2\n\t\t}\n\t\tt = t + f()\n\t}\n\treturn t\n}\n", "return clv%d()", "uint64"},
	{"closure.modifies-captured", "func cmc%d() uint64 {\n\tvar x uint64 = 1\n\tf := func() {\n\t\tx = x + 10\n\t}\n\tf()\n\tf()\n\treturn x\n}\n", "return cmc%d()", "uint64"},
	{"shift.ge-width", "func sgw%d(x uint64, n uint64) uint64 {\n\treturn (x << n) + (x >> n)\n}\n", "return sgw%d(5, 64) + sgw%d(5, 65)", "uint64"},
	{"shift.u8-wide-count", "func suw%d(x byte, n byte) byte {\n\treturn x << n\n}\n", "return suw%d(3, 9)", "byte"},
	{"div.by-const", "func dbc%d(x uint64) uint64 {\n\treturn x/3 + x%%3\n}\n", "return dbc%d(17)", "uint64"},
	{"cmp.chain-bool", "func ccb%d(a uint64, b uint64) bool {\n\treturn a < b == (b > a)\n}\n", "return ccb%d(1, 2)", "bool"},
	{"bool.short-circuit-effect", "func bse%dh(p *uint64) bool {\n\t*p = *p + 1\n\treturn true\n}\n\nfunc bse%d() uint64 {\n\tp := new(uint64)\n\tif false && bse%dh(p) {\n\t\treturn 100\n\t}\n\tif true || bse%dh(p) {\n\t\treturn *p\n\t}\n\treturn 50\n}\n", "return bse%d()", "uint64"},
	{"slice.append-alias", "func saa%d() uint64 {\n\ta := make([]uint64, 1, 4)\n\tb := append(a, 7)\n\tc := append(a, 9)\n\treturn b[1]*10 + c[1]\n}\n", "return saa%d()", "uint64"},
	{"slice.subslice-cap", "func ssc%d() uint64 {\n\ta := make([]uint64, 4)\n\tb := a[1:2]\n\tb = append(b, 5)\n\treturn a[2]*10 + uint64(cap(b))\n}\n", "return ssc%d()", "uint64"},
	{"slice.nil-append", "func sna%d() uint64 {\n\tvar s []uint64\n\ts = append(s, 4)\n\treturn s[0] + uint64(len(s))\n}\n", "return sna%d()", "uint64"},
	{"map.missing-key-zero", "func mmk%d() uint64 {\n\tm := make(map[uint64]uint64)\n\tm[1] = 5\n\tv, ok := m[2]\n\tif ok {\n\t\treturn 100\n\t}\n\treturn v + m[1] + m[7]\n}\n", "return mmk%d()", "uint64"},
	{"map.struct-values", "type msv%ds struct {\n\ta uint64\n\tb bool\n}\n\nfunc msv%d() uint64 {\n\tm := make(map[uint64]msv%ds)\n\tm[1] = msv%ds{a: 4, b: true}\n\tv := m[1]\n\tw := m[2]\n\tif v.b && !w.b {\n\t\treturn v.a + w.a\n\t}\n\treturn 0\n}\n", "return msv%d()", "uint64"},
	{"string.concat-conv", "func scc%d(x uint64) uint64 {\n\ts := machine.UInt64ToString(x) + \"-\" + machine.UInt64ToString(x+1)\n\treturn uint64(len(s))\n}\n", "return scc%d(99)", "uint64"},
	{"string.bytes-roundtrip", "func sbr%d() uint64 {\n\tb := []byte(\"abc\")\n\tb[1] = 120\n\ts := string(b)\n\tif s == \"axc\" {\n\t\treturn uint64(len(s))\n\t}\n\treturn 0\n}\n", "return sbr%d()", "uint64"},
	{"string.percent", "func spc%d(c bool) (uint64, string) {\n\tif c {\n\t\treturn 1, \"100%%\"\n\t}\n\treturn 2, \"n=%%s\"\n}\n\nfunc spd%d() uint64 {\n\ta, s := spc%d(true)\n\tb, t := spc%d(false)\n\treturn a + b*10 + uint64(len(s))*100 + uint64(len(t))*1000\n}\n", "return spd%d()", "uint64"},
	{"method.on-named-slice", "type mns%dt []uint64\n\nfunc (s mns%dt) sum() uint64 {\n\tvar t uint64 = 0\n\tfor _, x := range s {\n\t\tt = t + x\n\t}\n\treturn t\n}\n\nfunc mns%d() uint64 {\n\tvar s mns%dt = make([]uint64, 3)\n\ts[1] = 5\n\treturn s.sum()\n}\n", "return mns%d()", "uint64"},
	{"method.recursive-named-int", "type mri%dt uint64\n\nfunc (n mri%dt) halvings() uint64 {\n\tif n == 0 {\n\t\treturn 0\n\t}\n\treturn (n / 2).halvings() + 1\n}\n", "return mri%dt(40).halvings()", "uint64"},
	{"nil.func", "func nfn%d() uint64 {\n\tvar f func() uint64\n\tif f == nil {\n\t\treturn 1\n\t}\n\treturn f()\n}\n", "return nfn%d()", "uint64"},
	{"ptr.to-ptr", "func ptp%d() uint64 {\n\tx := new(uint64)\n\tpp := new(*uint64)\n\t*pp = x\n\t**pp = 9\n\treturn *x\n}\n", "return ptp%d()", "uint64"},
	{"ptr.compare", "func pcm%d() uint64 {\n\ta := new(uint64)\n\tb := new(uint64)\n\tc := a\n\tvar r uint64 = 0\n\tif a == b {\n\t\tr = r + 1\n\t}\n\tif a == c {\n\t\tr = r + 10\n\t}\n\treturn r\n}\n", "return pcm%d()", "uint64"},
	{"const.expr-typed", "const cet%da uint64 = 1 << 40\n\nconst cet%db uint32 = 1<<32 - 1\n\nfunc cet%d() uint64 {\n\treturn cet%da + uint64(cet%db)\n}\n", "return cet%d()", "uint64"},
	{"const.untyped-global", "const cug%d = 7\n\nfunc cug%df(x uint32) uint32 {\n\treturn x + cug%d\n}\n", "return cug%df(4294967295)", "uint32"},
	{"string.backslash", "func sbk%d() uint64 {\n\ts := \"a\\\\b\"\n\treturn uint64(len(s))\n}\n", "return sbk%d()", "uint64"},
	{"string.tab", "func stb%d() uint64 {\n\ts := \"a\\tb\" + \"c\"\n\tb := []byte(s)\n\treturn uint64(len(s))*1000 + uint64(b[1])\n}\n", "return stb%d()", "uint64"},
	{"string.raw-backslash", "func srb%d() uint64 {\n\ts := `a\\nb`\n\treturn uint64(len(s))\n}\n", "return srb%d()", "uint64"},
	{"string.unicode-escape", "func sue%d() uint64 {\n\ts := \"caf\\u00e9\"\n\treturn uint64(len(s))\n}\n", "return sue%d()", "uint64"},
	{"string.quote-escape", "func sqe%d() uint64 {\n\ts := \"5\\\" nail\"\n\treturn uint64(len(s))\n}\n", "return sqe%d()", "uint64"},
	{"string.hex-escape", "func she%d() uint64 {\n\ts := \"a\\x22b\\x00c\"\n\treturn uint64(len(s))\n}\n", "return she%d()", "uint64"},
	{"switch.break-in-loop", "func sbl%d(n uint64) uint64 {\n\tvar t uint64 = 0\n\tfor i := uint64(0); i < n; i++ {\n\t\tt = t + 10\n\t\tswitch i {\n\t\tcase 1:\n\t\t\tbreak\n\t\tdefault:\n\t\t\tt = t + 1\n\t\t}\n\t}\n\treturn t\n}\n", "return sbl%d(4)", "uint64"},
	{"switch.break-under-if", "func sbi%d(n uint64) uint64 {\n\tvar t uint64 = 0\n\tfor i := uint64(0); i < n; i++ {\n\t\tswitch {\n\t\tcase i > 0:\n\t\t\tif i == 2 {\n\t\t\t\tbreak\n\t\t\t}\n\t\t\tt = t + i\n\t\t}\n\t\tt = t + 100\n\t}\n\treturn t\n}\n", "return sbi%d(4)", "uint64"},
	{"switch.continue-in-loop", "func scl%d(n uint64) uint64 {\n\tvar t uint64 = 0\n\tfor i := uint64(0); i < n; i++ {\n\t\tswitch i {\n\t\tcase 1:\n\t\t\tcontinue\n\t\t}\n\t\tt = t + i + 10\n\t}\n\treturn t\n}\n", "return scl%d(4)", "uint64"},
	{"switch.default-first", "func sdf%d(x uint64) uint64 {\n\tswitch x {\n\tdefault:\n\t\treturn 9\n\tcase 1:\n\t\treturn 1\n\tcase 2, 3:\n\t\treturn 23\n\t}\n}\n", "return sdf%d(3)*100 + sdf%d(7)", "uint64"},
	{"switch.tag-effect-once", "func ste%dh(p *uint64) uint64 {\n\t*p = *p + 1\n\treturn *p\n}\n\nfunc ste%d() uint64 {\n\tp := new(uint64)\n\tvar r uint64 = 0\n\tswitch ste%dh(p) {\n\tcase 5:\n\t\tr = 50\n\tcase 1:\n\t\tr = 10\n\tcase 2:\n\t\tr = 20\n\t}\n\treturn r + *p\n}\n", "return ste%d()", "uint64"},
	{"results.blank-named", "func rbn%d(c bool) (_ uint64, _ bool) {\n\tif c {\n\t\treturn 5, true\n\t}\n\treturn\n}\n", "a, b := rbn%d(false)\n\tif b {\n\t\treturn 100\n\t}\n\treturn a + 7", "uint64"},
	{"results.named-shadowed", "func rns%d(x uint64) (r uint64) {\n\tr = x\n\tif x > 2 {\n\t\tr := x * 2\n\t\t_ = r\n\t}\n\treturn r\n}\n", "return rns%d(5)", "uint64"},
	{"for.init-assign-param", "func fia%d(n uint64) uint64 {\n\tvar t uint64 = 0\n\tfor n = 2; n < 5; n++ {\n\t\tt = t + n\n\t}\n\treturn t + n\n}\n", "return fia%d(9)", "uint64"},
	{"for.init-assign-var", "func fiv%d() uint64 {\n\tvar i uint64 = 7\n\tvar t uint64 = 0\n\tfor i = 1; i < 4; i++ {\n\t\tt = t + i\n\t}\n\treturn t*10 + i\n}\n", "return fiv%d()", "uint64"},
	{"for.post-assign-other", "func fpo%d() uint64 {\n\tvar j uint64 = 0\n\tvar t uint64 = 0\n\tfor i := uint64(0); i < 3; j = j + 2 {\n\t\ti = i + 1\n\t\tt = t + i\n\t}\n\treturn t + j\n}\n", "return fpo%d()", "uint64"},
	{"closure.loopvar-modified", "func clm%d() uint64 {\n\tvar t uint64 = 0\n\tfor i := uint64(0); i < 6; i++ {\n\t\tf := func() {\n\t\t\ti = i + 1\n\t\t}\n\t\tif i == 2 {\n\t\t\tf()\n\t\t}\n\t\tt = t + i\n\t}\n\treturn t\n}\n", "return clm%d()", "uint64"},
	{"closure.loopvar-captured-later", "func clc%d() uint64 {\n\tfs := make([]func() uint64, 0)\n\tfor i := uint64(0); i < 3; i++ {\n\t\tfs = append(fs, func() uint64 {\n\t\t\treturn i\n\t\t})\n\t}\n\tvar t uint64 = 0\n\tfor _, f := range fs {\n\t\tt = t*10 + f()\n\t}\n\treturn t\n}\n", "return clc%d()", "uint64"},
	{"ptr.to-ptr-struct", "type pps%ds struct {\n\ta uint64\n\tb uint64\n}\n\nfunc pps%d() uint64 {\n\tvar q *pps%ds = &pps%ds{a: 1, b: 2}\n\tr := &q\n\tx := (*r).a\n\t*r = &pps%ds{a: 10, b: 20}\n\treturn x*1000 + q.a + (*r).b\n}\n", "return pps%d()", "uint64"},
	{"ptr.to-ptr-struct-load", "type ppl%ds struct {\n\ta uint64\n}\n\nfunc ppl%dh(r **ppl%ds) *ppl%ds {\n\treturn *r\n}\n\nfunc ppl%d() uint64 {\n\tvar q *ppl%ds = &ppl%ds{a: 7}\n\tp := ppl%dh(&q)\n\tp.a = p.a + 1\n\treturn q.a\n}\n", "return ppl%d()", "uint64"},
	{"range.no-key", "func rnk%d() uint64 {\n\txs := make([]uint64, 3)\n\tvar n uint64 = 0\n\tfor range xs {\n\t\tn = n + 1\n\t}\n\treturn n\n}\n", "return rnk%d()", "uint64"},
	{"range.assign-existing", "func rae%d() uint64 {\n\txs := make([]uint64, 3)\n\txs[2] = 5\n\tvar i uint64\n\tvar v uint64\n\tvar k int\n\tfor k, v = range xs {\n\t\ti = i + uint64(k)\n\t}\n\treturn i*10 + v\n}\n", "return rae%d()", "uint64"},
	{"append.multi", "func apm%dx() uint64 {\n\ts := make([]uint64, 0)\n\ts = append(s, 1, 2, 3)\n\treturn uint64(len(s))*10 + s[2]\n}\n", "return apm%dx()", "uint64"},
	{"map.commaok-assign", "func mca%d() uint64 {\n\tm := make(map[uint64]uint64)\n\tm[1] = 5\n\tvar v uint64\n\tvar ok bool\n\tv, ok = m[1]\n\tif ok {\n\t\treturn v\n\t}\n\treturn 0\n}\n", "return mca%d()", "uint64"},
	{"type.grouped", "type (\n\ttga%d struct {\n\t\tx uint64\n\t}\n\ttgb%d struct {\n\t\ty uint64\n\t}\n)\n\nfunc tg%dg() uint64 {\n\treturn tga%d{x: 1}.x + tgb%d{y: 2}.y\n}\n", "return tg%dg()", "uint64"},
	{"goto.loop-tail", "func glt%d(n uint64) uint64 {\n\tvar t uint64 = 0\n\tfor i := uint64(0); i < n; i++ {\n\t\tt = t + i\n\t\tgoto next\n\tnext:\n\t}\n\treturn t\n}\n", "return glt%d(3)", "uint64"},
	{"int.int32-widen", "func i32w%d(x uint64) uint64 {\n\ty := int32(x)\n\treturn uint64(y)\n}\n", "return i32w%d(2147483648)", "uint64"},
	{"int.int8-widen", "func i8w%d(x uint64) uint64 {\n\ty := int8(x)\n\treturn uint64(uint32(y))\n}\n", "return i8w%d(200)", "uint64"},
	{"int.int64-compare", "func i64c%d(x uint64) uint64 {\n\ty := int64(x)\n\tif y < 0 {\n\t\treturn 1\n\t}\n\treturn 2\n}\n", "return i64c%d(9223372036854775808)", "uint64"},
	{"int.int64-shift", "func i64s%d(x uint64) uint64 {\n\ty := int64(x)\n\treturn uint64(y >> 4)\n}\n", "return i64s%d(18446744073709551600)", "uint64"},
	{"int.int64-div", "func i64d%d(x uint64) uint64 {\n\ty := int64(x)\n\treturn uint64(y / 2)\n}\n", "return i64d%d(18446744073709551614)", "uint64"},
	{"assign.tuple-swap-elems", "func tse%d() uint64 {\n\ts := make([]uint64, 2)\n\ts[0] = 1\n\ts[1] = 2\n\ts[0], s[1] = s[1], s[0]\n\treturn s[0]*10 + s[1]\n}\n", "return tse%d()", "uint64"},
	{"assign.tuple-fib", "func tfb%d(n uint64) uint64 {\n\tvar a uint64 = 0\n\tvar b uint64 = 1\n\tfor i := uint64(0); i < n; i++ {\n\t\ta, b = b, a+b\n\t}\n\treturn a\n}\n", "return tfb%d(10)", "uint64"},
	{"partial.get-short", "func pgs%d(n uint64) uint64 {\n\tb := make([]byte, 12)\n\tb[0] = 7\n\tb[6] = 9\n\treturn machine.UInt64Get(b[:n])\n}\n", "return pgs%d(5)", "uint64"},
	{"partial.get32-short", "func pgt%d(n uint64) uint32 {\n\tb := make([]byte, 12)\n\tb[0] = 7\n\tb[3] = 9\n\treturn machine.UInt32Get(b[:n])\n}\n", "return pgt%d(3)", "uint32"},
	{"partial.put-short", "func pps%dx(n uint64) uint64 {\n\tb := make([]byte, 12)\n\tmachine.UInt64Put(b[:n], 258)\n\treturn uint64(b[0]) + uint64(b[1])\n}\n", "return pps%dx(6)", "uint64"},
	{"partial.index-oob", "func pio%d(n uint64) uint64 {\n\ts := make([]uint64, 3)\n\treturn s[n]\n}\n", "return pio%d(3)", "uint64"},
	{"partial.nil-map-insert", "func pnm%d() uint64 {\n\tvar m map[uint64]uint64\n\tm[1] = 2\n\treturn m[1]\n}\n", "return pnm%d()", "uint64"},
	{"partial.div-zero", "func pdz%d(x uint64, y uint64) uint64 {\n\treturn x / y\n}\n", "return pdz%d(5, 0)", "uint64"},
	{"partial.nil-deref", "func pnd%d() uint64 {\n\tvar p *uint64\n\treturn *p\n}\n", "return pnd%d()", "uint64"},
	{"partial.subslice-oob", "func pso%d(n uint64) uint64 {\n\ts := make([]uint64, 3)\n\tt := s[1:n]\n\treturn uint64(len(t))\n}\n", "return pso%d(7)", "uint64"},
	{"log.panicf-taken", "func lpt%d(y uint64) uint64 {\n\tif y == 0 {\n\t\tlog.Panicf(\"y is %%v\", y)\n\t}\n\treturn 7\n}\n", "return lpt%d(0)", "uint64"},
	{"log.panic-taken", "func lpn%d(y uint64) uint64 {\n\tif y == 0 {\n\t\tlog.Panic(\"zero\")\n\t}\n\treturn 7\n}\n", "return lpn%d(0)", "uint64"},
	{"panic.taken", "func pnt%d(y uint64) uint64 {\n\tif y == 0 {\n\t\tpanic(\"zero\")\n\t}\n\treturn 7\n}\n", "return pnt%d(0)", "uint64"},
	{"incdec.global", "var idg%dv uint64 = 3\n\nfunc idg%d() uint64 {\n\tidg%dv++\n\treturn idg%dv\n}\n", "return idg%d()", "uint64"},
	{"generic.recursive", "func grc%d[T any](x T, n uint64) T {\n\tif n == 0 {\n\t\treturn x\n\t}\n\treturn grc%d(x, n-1)\n}\n", "return grc%d[uint64](9, 3)", "uint64"},
	{"literal.u64-top-bit", "func ltb%d() uint64 {\n\tvar x uint64 = 0x8000000000000000\n\treturn x/2 + 18446744073709551615%%7\n}\n", "return ltb%d()", "uint64"},
	{"generic.func", "func gf%d[T any](x T, y T, first bool) T {\n\tif first {\n\t\treturn x\n\t}\n\treturn y\n}\n", "return gf%d[uint64](3, 4, false)", "uint64"},
	{"init.func", "var in%dv uint64\n\nfunc in%d() uint64 {\n\treturn in%dv\n}\n", "return in%d()", "uint64"},
	{"blank.assign-call", "func ba%dh(p *uint64) uint64 {\n\t*p = 3\n\treturn 1\n}\n\nfunc ba%d() uint64 {\n\tp := new(uint64)\n\t_ = ba%dh(p)\n\treturn *p\n}\n", "return ba%d()", "uint64"},
	{"u64tostring", "func us%d(x uint64) uint64 {\n\ts := machine.UInt64ToString(x)\n\treturn uint64(len(s))\n}\n", "return us%d(18446744073709551615)", "uint64"},
}

// RejectedAtPin: catalogue constructs that the pinned translator answers with a conversion error. They are the
// boundary of the accepted subset: a translator that starts to accept one of them has enlarged the subset, and the
// construct then falls under "accepted programs keep their meaning" (C01) as well as under C02.
var RejectedAtPin = map[string]bool{"incdec.elem-side-effect": true, "incdec.elem-u8-wrap": true, "incdec.deref-call": true, "incdec.map-elem": true, "const.untyped-big-shift": true, "const.untyped-as-u8": true, "const.untyped-as-index": true, "switch.tagless-break-last-in-loop": true, "switch.tagless-break-under-if-last-in-loop": true, "switch.tagless-multi-cond": true, "range.int-bound-shrinks": true, "range.int-len-grows": true, "range.int-assign-index": true, "assign.rotate3": true, "assign.swap-deref": true, "assign.swap-params": true, "struct.embedded-init": true, "struct.embedded-explicit": true, "struct.embedded-method": true, "struct.embedded-pointer": true, "interface.embedded": true, "append.multi": true, "array": true, "assign.complex-lvalue": true, "assign.define-captured": true, "assign.define-in-loop": true, "assign.define-local": true, "assign.param": true, "assign.swap": true, "assign.tuple-fib": true, "assign.tuple-swap-elems": true, "break.nested-elseless": true, "closure.loopvar-captured-later": true, "const.iota": true, "const.untyped-global": true, "continue.nested-elseless": true, "defer": true, "defer.early-return": true, "defer.lifo": true, "defer.return-order": true, "define.multi": true, "for.init-assign-param": true, "for.init-assign-var": true, "global.var-mutated": true, "go.args": true, "goto": true, "goto.loop-tail": true, "if.init": true, "if.init-shadow": true, "if.init-then-use-outer": true, "incdec.elem": true, "incdec.field": true, "incdec.global": true, "init.func": true, "int.int32-widen": true, "int.int64-compare": true, "int.int64-div": true, "int.int64-shift": true, "int.int8-widen": true, "int.signed": true, "label.break-outer": true, "label.continue-outer": true, "literal.huge": true, "literal.huge2": true, "lookalike.len": true, "map.literal": true, "method.on-named-slice": true, "named-results": true, "named-results.explicit": true, "nil.func": true, "op.andnot": true, "op.unary-minus": true, "op.unary-plus": true, "opassign.andnot": true, "opassign.div": true, "opassign.mul": true, "opassign.rem": true, "opassign.shl": true, "opassign.shr": true, "range.assign-existing": true, "range.int": true, "results.blank-named": true, "results.named-shadowed": true, "return.else-after-early": true, "return.elseif-chain-elseless": true, "return.in-loop": true, "return.nested-elseless": true, "return.nested-elseless-loop": true, "slice.3index": true, "slice.full": true, "slice.literal-multi": true, "slice.subslice-cap": true, "string.hex-escape": true, "string.index": true, "string.quote-escape": true, "string.range": true, "struct.anonymous": true, "struct.embedded": true, "struct.unkeyed": true, "switch": true, "switch.break-in-loop": true, "switch.break-under-if": true, "switch.continue-in-loop": true, "switch.default-first": true, "switch.fallthrough": true, "switch.tag-effect-once": true, "switch.tagless": true, "type.grouped": true}

// Imports lists the standard-library imports an item needs (found by inspection of its text).
func (it Item) Imports() []string {
	var out []string
	for _, p := range []string{"sync", "fmt", "errors", "sort", "strings", "unsafe", "math", "time", "os", "log"} {
		if strings.Contains(it.Decls+it.Entry, p+".") {
			out = append(out, p)
		}
	}
	return out
}

// AddImports inserts import declarations for the given paths (unless already imported) after the package clause.
func AddImports(src string, paths []string) string {
	for _, p := range paths {
		if strings.Contains(src, "\""+p+"\"\n") {
			continue
		}
		src = strings.Replace(src, "package gen\n\n", "package gen\n\nimport \""+p+"\"\n\n", 1)
	}
	return src
}

// Instantiate replaces every %d with n and returns (declarations, entry function text).
func (it Item) Instantiate(n int, entryName string) (string, string) {
	rep := func(s string) string {
		cnt := strings.Count(s, "%d")
		args := make([]any, cnt)
		for i := range args {
			args[i] = n
		}
		return fmt.Sprintf(s, args...)
	}
	decls := rep(it.Decls)
	entry := fmt.Sprintf("func %s() %s {\n\t%s\n}\n", entryName, it.Ret, rep(it.Entry))
	return decls, entry
}

// FarOutside: constructs far outside the subset (C07: goose must answer with structured errors, never crash).
var FarOutside = []Item{
	{"decl.type-empty-group", "type ()\n\nfunc teg%d() uint64 {\n\treturn 1\n}\n", "return teg%d()", "uint64"},
	{"decl.const-empty-group", "const ()\n\nfunc ceg%d() uint64 {\n\treturn 1\n}\n", "return ceg%d()", "uint64"},
	{"decl.var-empty-group-global", "var ()\n\nfunc geg%d() uint64 {\n\treturn 1\n}\n", "return geg%d()", "uint64"},
	{"decl.var-empty-group-local", "func veg%d() uint64 {\n\tvar ()\n\treturn 1\n}\n", "return veg%d()", "uint64"},
	{"decl.type-empty-group-local", "func tel%d() uint64 {\n\ttype ()\n\treturn 1\n}\n", "return tel%d()", "uint64"},
	{"define.5-values", "func dv%df() (uint64, uint64, uint64, uint64, uint64) {\n\treturn 1, 2, 3, 4, 5\n}\n\nfunc dv%d() uint64 {\n\ta, b, c, d, e := dv%df()\n\treturn a + b + c + d + e\n}\n", "return dv%d()", "uint64"},
	{"assign.5-values", "func av%df() (uint64, uint64, uint64, uint64, uint64) {\n\treturn 1, 2, 3, 4, 5\n}\n\nfunc av%d() uint64 {\n\tvar a uint64\n\tvar b uint64\n\tvar c uint64\n\tvar d uint64\n\tvar e uint64\n\ta, b, c, d, e = av%df()\n\treturn a + b + c + d + e\n}\n", "return av%d()", "uint64"},
	{"define.6-values-blank", "func bv%df() (uint64, uint64, uint64, uint64, uint64, bool) {\n\treturn 1, 2, 3, 4, 5, true\n}\n\nfunc bv%d() uint64 {\n\ta, _, _, _, _, ok := bv%df()\n\tif ok {\n\t\treturn a\n\t}\n\treturn 0\n}\n", "return bv%d()", "uint64"},
	{"panic.int", "func pi%d(x uint64) uint64 {\n\tif x > 5 {\n\t\tpanic(3)\n\t}\n\treturn x\n}\n", "return pi%d(1)", "uint64"},
	{"panic.const-string", "const pcs%dm = \"bad state\"\n\nfunc pcs%d(x uint64) uint64 {\n\tif x > 5 {\n\t\tpanic(pcs%dm)\n\t}\n\treturn x\n}\n", "return pcs%d(1)", "uint64"},
	{"panic.concat", "func pcc%d(x uint64) uint64 {\n\tif x > 5 {\n\t\tpanic(\"a\" + \"b\")\n\t}\n\treturn x\n}\n", "return pcc%d(1)", "uint64"},
	{"panic.bool", "func pb%d(x uint64) uint64 {\n\tif x > 5 {\n\t\tpanic(true)\n\t}\n\treturn x\n}\n", "return pb%d(1)", "uint64"},
	{"panic.variable", "func pv%d(x uint64) uint64 {\n\tif x > 5 {\n\t\tpanic(x)\n\t}\n\treturn x\n}\n", "return pv%d(1)", "uint64"},
	{"panic.nil", "func pn%d(x uint64) uint64 {\n\tif x > 5 {\n\t\tpanic(nil)\n\t}\n\treturn x\n}\n", "return pn%d(1)", "uint64"},
	{"panic.float", "func pf%d(x uint64) uint64 {\n\tif x > 5 {\n\t\tpanic(1.5)\n\t}\n\treturn x\n}\n", "return pf%d(1)", "uint64"},
	{"recursion.mutual", "func rma%d(n uint64) uint64 {\n\tif n == 0 {\n\t\treturn 0\n\t}\n\treturn rmb%d(n-1) + 1\n}\n\nfunc rmb%d(n uint64) uint64 {\n\tif n == 0 {\n\t\treturn 0\n\t}\n\treturn rma%d(n-1) + 2\n}\n", "return rma%d(3)", "uint64"},
	{"recursion.mutual-three", "func rta%d(n uint64) uint64 {\n\tif n == 0 {\n\t\treturn 0\n\t}\n\treturn rtb%d(n - 1)\n}\n\nfunc rtb%d(n uint64) uint64 {\n\tif n == 0 {\n\t\treturn 1\n\t}\n\treturn rtc%d(n - 1)\n}\n\nfunc rtc%d(n uint64) uint64 {\n\tif n == 0 {\n\t\treturn 2\n\t}\n\treturn rta%d(n - 1)\n}\n", "return rta%d(4)", "uint64"},
	{"recursion.type-cycle", "type rtn%d struct {\n\tnext *rtn%d\n\tv uint64\n}\n\nfunc rtl%d() uint64 {\n\ta := &rtn%d{v: 1}\n\tb := &rtn%d{v: 2, next: a}\n\treturn b.next.v + b.v\n}\n", "return rtl%d()", "uint64"},
	{"recursion.type-mutual", "type rua%d struct {\n\tb *rub%d\n}\n\ntype rub%d struct {\n\ta *rua%d\n\tv uint64\n}\n\nfunc ruc%d() uint64 {\n\tx := &rub%d{v: 3}\n\ty := &rua%d{b: x}\n\treturn y.b.v\n}\n", "return ruc%d()", "uint64"},
	{"const.cycle-free-forward", "const cfa%d uint64 = cfb%d + 1\n\nconst cfb%d uint64 = 4\n", "return cfa%d", "uint64"},
	{"init.two", "var itv%d uint64\n\nfunc init() {\n\titv%d = 1\n}\n\nfunc init() {\n\titv%d = itv%d + 1\n}\n", "return itv%d", "uint64"},
	{"method.on-pointer-to-named-int", "type mpn%dt uint64\n\nfunc (p *mpn%dt) inc() {\n\t*p = *p + 1\n}\n\nfunc mpn%d() uint64 {\n\tvar x mpn%dt = 3\n\tx.inc()\n\treturn uint64(x)\n}\n", "return mpn%d()", "uint64"},
	{"label.unused", "func lu%d(x uint64) uint64 {\n\tvar y uint64 = x\nagain:\n\tfor y < 5 {\n\t\ty = y + 1\n\t\tcontinue again\n\t}\n\treturn y\n}\n", "return lu%d(1)", "uint64"},
	{"empty.func-body-return", "func efb%d() {\n\treturn\n}\n", "efb%d()\n\treturn 1", "uint64"},
	{"func.literal-toplevel-var", "var flt%d = func(x uint64) uint64 {\n\treturn x + 1\n}\n", "return flt%d(2)", "uint64"},
	{"struct.zero-fields", "type szf%d struct{}\n\nfunc (s szf%d) one() uint64 {\n\treturn 1\n}\n", "return szf%d{}.one()", "uint64"},
	{"big.shift-const", "func bsc%d() uint64 {\n\treturn 1<<64 - 1\n}\n", "return bsc%d()", "uint64"},
	{"rune.literal", "func rl%dr() uint64 {\n\treturn uint64('a') + uint64('\\n')\n}\n", "return rl%dr()", "uint64"},
	{"chan.basic", "func ch%d() uint64 {\n\tc := make(chan uint64, 1)\n\tc <- 3\n\treturn <-c\n}\n", "return ch%d()", "uint64"},
	{"select", "func se%d() uint64 {\n\tc := make(chan uint64, 1)\n\tc <- 1\n\tselect {\n\tcase v := <-c:\n\t\treturn v\n\tdefault:\n\t\treturn 0\n\t}\n}\n", "return se%d()", "uint64"},
	{"float", "func fl%d(x uint64) uint64 {\n\tf := float64(x) * 1.5\n\treturn uint64(f)\n}\n", "return fl%d(4)", "uint64"},
	{"complex", "func cx%d() uint64 {\n\tz := complex(1, 2)\n\treturn uint64(real(z))\n}\n", "return cx%d()", "uint64"},
	{"generic.constraint", "type nm%d interface {\n\t~uint64 | ~uint32\n}\n\nfunc gc%d[T nm%d](a T, b T) T {\n\treturn a + b\n}\n", "return gc%d[uint64](1, 2)", "uint64"},
	{"interface.embedded", "type ia%d interface {\n\tA() uint64\n}\n\ntype ib%d interface {\n\tia%d\n\tB() uint64\n}\n\nfunc ie%d(x ib%d) uint64 {\n\treturn x.A() + x.B()\n}\n", "return 0", "uint64"},
	{"method.expression", "type me%ds struct {\n\tk uint64\n}\n\nfunc (s me%ds) get() uint64 {\n\treturn s.k\n}\n\nfunc me%d() uint64 {\n\tf := me%ds.get\n\treturn f(me%ds{k: 3})\n}\n", "return me%d()", "uint64"},
	{"struct.tags", "type tg%ds struct {\n\tA uint64 `json:\"a\"`\n}\n\nfunc tg%d() uint64 {\n\treturn tg%ds{A: 2}.A\n}\n", "return tg%d()", "uint64"},
	{"blank.param", "func bp%d(_ uint64, x uint64) uint64 {\n\treturn x\n}\n", "return bp%d(1, 2)", "uint64"},
	{"named.slice-empty-literal", "type ns%dt []uint64\n\nfunc ns%d() uint64 {\n\tx := ns%dt{}\n\treturn uint64(len(x))\n}\n", "return ns%d()", "uint64"},
	{"named.map-type", "type nmt%dt map[uint64]uint64\n\nfunc nmt%d() uint64 {\n\tx := make(nmt%dt)\n\tx[1] = 2\n\treturn x[1]\n}\n", "return nmt%d()", "uint64"},
	{"named.func-type", "type nf%dt func(uint64) uint64\n\nfunc nf%d(f nf%dt) uint64 {\n\treturn f(1)\n}\n", "return nf%d(func(x uint64) uint64 {\n\t\treturn x + 1\n\t})", "uint64"},
	{"local.type-decl", "func lt%d() uint64 {\n\ttype pair struct {\n\t\ta uint64\n\t\tb uint64\n\t}\n\tp := pair{a: 1, b: 2}\n\treturn p.a + p.b\n}\n", "return lt%d()", "uint64"},
	{"local.const-decl", "func lcd%d() uint64 {\n\tconst k uint64 = 5\n\treturn k + 1\n}\n", "return lcd%d()", "uint64"},
	{"local.var-group", "func lvg%d() uint64 {\n\tvar (\n\t\ta uint64 = 1\n\t\tb uint64 = 2\n\t)\n\treturn a + b\n}\n", "return lvg%d()", "uint64"},
	{"pointer.to-pointer", "func pp%d() uint64 {\n\tx := new(uint64)\n\tpx := new(*uint64)\n\t*px = x\n\t**px = 4\n\treturn *x\n}\n", "return pp%d()", "uint64"},
	{"func.var-recursion", "func fr%d() uint64 {\n\tvar f func(uint64) uint64\n\tf = func(n uint64) uint64 {\n\t\tif n == 0 {\n\t\t\treturn 0\n\t\t}\n\t\treturn 1 + f(n-1)\n\t}\n\treturn f(3)\n}\n", "return fr%d()", "uint64"},
	{"else-if.early-return", "func ee%d(a bool, b bool) uint64 {\n\tif a {\n\t\treturn 1\n\t} else if b {\n\t\treturn 2\n\t}\n\treturn 3\n}\n", "return ee%d(false, true)", "uint64"},
	{"struct.by-value-multi-field", "type mf%ds struct {\n\tx, y uint64\n}\n\nfunc mf%d(v mf%ds) uint64 {\n\tswitch v.x {\n\tcase 1:\n\t\treturn 1\n\t}\n\treturn v.y\n}\n", "return mf%d(mf%ds{})", "uint64"},
	{"calls.rejected-callee", "func rc%da(x uint64) uint64 {\n\tdefer func() {}()\n\treturn x\n}\n\nfunc rc%db() uint64 {\n\tgo rc%da(1)\n\treturn rc%da(2)\n}\n", "return rc%db()", "uint64"},
	{"string.multiline-raw", "func mr%d() string {\n\treturn `line1\nline2 \"quoted\"`\n}\n", "return uint64(len(mr%d()))", "uint64"},
	{"unsafe.sizeof", "func us%dz() uint64 {\n\tvar x uint64\n\treturn uint64(len([]uint64{x}))\n}\n", "return us%dz()", "uint64"},
	{"closure.immediately-invoked", "func ii%d() uint64 {\n\treturn func(x uint64) uint64 {\n\t\treturn x * 2\n\t}(4)\n}\n", "return ii%d()", "uint64"},
	{"interface.any-param", "func ap%d(x interface{}) uint64 {\n\tswitch x.(type) {\n\tcase uint64:\n\t\treturn 1\n\t}\n\treturn 0\n}\n", "return ap%d(uint64(1))", "uint64"},
	{"struct.nested-literal", "type nl%da struct {\n\tv uint64\n}\n\ntype nl%db struct {\n\tin nl%da\n\tp *nl%da\n}\n\nfunc nl%d() uint64 {\n\tx := nl%db{in: nl%da{v: 1}, p: &nl%da{v: 2}}\n\treturn x.in.v + x.p.v\n}\n", "return nl%d()", "uint64"},
}
