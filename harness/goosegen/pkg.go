package goosegen

import (
	"fmt"
	"math/rand/v2"
	"sort"
	"strings"
)

// Generate builds one package.
func Generate(o Options) Package {
	g := &gen{r: rand.New(rand.NewPCG(o.Seed, 0xC01)), o: o, keys: map[string]bool{}, fkeys: map[string]map[string]bool{}}
	if o.Funcs == 0 {
		o.Funcs = 6
	}
	if o.Entries == 0 {
		o.Entries = 8
	}
	var body strings.Builder
	// structs
	for i := 0; i < 1+g.pick(2); i++ {
		sd := StructDef{Name: fmt.Sprintf("S%d", i)}
		for j := 0; j < 1+g.pick(4); j++ {
			sd.Fields = append(sd.Fields, Field{Name: fmt.Sprintf("f%d", j), T: g.randValueType()})
		}
		g.structs = append(g.structs, sd)
	}
	// package-level constants (also shadowed by locals / parameters on purpose)
	for i := 0; i < 2+g.pick(3); i++ {
		t := []Ty{U64, U64, U32, U8, Bool, Str}[g.pick(6)]
		g.consts = append(g.consts, Var{Name: fmt.Sprintf("K%d", i), T: t})
	}
	type piece struct {
		name string
		text string
	}
	var pieces []piece
	for _, sd := range g.structs {
		var sb strings.Builder
		fmt.Fprintf(&sb, "type %s struct {\n", sd.Name)
		for _, f := range sd.Fields {
			fmt.Fprintf(&sb, "\t%s %s\n", f.Name, f.T.Go())
		}
		sb.WriteString("}\n")
		pieces = append(pieces, piece{sd.Name, sb.String()})
	}
	for _, c := range g.consts {
		pieces = append(pieces, piece{c.Name, fmt.Sprintf("const %s %s = %s\n", c.Name, c.T.Go(), g.lit(c.T))})
	}
	// identity helpers keep expressions non-constant
	for _, t := range []Ty{U64, U32, U8} {
		pieces = append(pieces, piece{"id_" + t.K, fmt.Sprintf("func id_%s(x %s) %s {\n\treturn x\n}\n", t.K, t.Go(), t.Go())})
	}
	// a recursive helper (self call through the recursive binder) and a pair of mutually recursive ones
	pieces = append(pieces, piece{"recsum", "func recsum(n byte, acc uint64) uint64 {\n\tif n == 0 {\n\t\treturn acc\n\t}\n\treturn recsum(n-1, acc+uint64(n)*uint64(n))\n}\n"})
	pieces = append(pieces, piece{"evenq", "func evenq(n uint64) bool {\n\tif n == 0 {\n\t\treturn true\n\t}\n\treturn oddq(n - 1)\n}\n"})
	pieces = append(pieces, piece{"oddq", "func oddq(n uint64) bool {\n\tif n == 0 {\n\t\treturn false\n\t}\n\treturn evenq(n - 1)\n}\n"})
	// a fixed "zoo" of declarations that the statement generator uses: a named integer type with a self-recursive
	// method and users that reach the type only through *p, a constant spec with two names, an interface with two
	// implementations, a struct with a slice field, a function returning a slice
	pieces = append(pieces, piece{"NT0", "type NT0 uint64\n"})
	pieces = append(pieces, piece{"NT0.halvings", "func (n NT0) halvings() uint64 {\n\tif n == 0 {\n\t\treturn 0\n\t}\n\treturn (n / 2).halvings() + 1\n}\n"})
	pieces = append(pieces, piece{"ntBoth", "func ntBoth(p *NT0) uint64 {\n\tntBump(p)\n\treturn ntLoad(p) + 1\n}\n"})
	pieces = append(pieces, piece{"ntBump", "func ntBump(p *NT0) {\n\t*p = *p + 1\n}\n"})
	pieces = append(pieces, piece{"ntLoad", "func ntLoad(p *NT0) uint64 {\n\treturn uint64(*p)\n}\n"})
	pieces = append(pieces, piece{"KA", fmt.Sprintf("const KA, KB uint64 = %s, %s\n", g.lit(U64), g.lit(U64))})
	pieces = append(pieces, piece{"useKB", "func useKB(x uint64) uint64 {\n\treturn KB ^ x\n}\n"})
	pieces = append(pieces, piece{"useKA", "func useKA(x uint64) uint64 {\n\treturn KA + x\n}\n"})
	pieces = append(pieces, piece{"Shape", "type Shape interface {\n\tarea() uint64\n\tscale(k uint64) uint64\n}\n"})
	pieces = append(pieces, piece{"Sq", "type Sq struct {\n\tw uint64\n}\n"})
	pieces = append(pieces, piece{"Sq.area", "func (s Sq) area() uint64 {\n\treturn s.w * s.w\n}\n"})
	pieces = append(pieces, piece{"Sq.scale", "func (s Sq) scale(k uint64) uint64 {\n\treturn s.w * k\n}\n"})
	pieces = append(pieces, piece{"Rc", "type Rc struct {\n\tw uint64\n\th uint64\n}\n"})
	pieces = append(pieces, piece{"Rc.area", "func (r Rc) area() uint64 {\n\treturn r.w * r.h\n}\n"})
	pieces = append(pieces, piece{"Rc.scale", "func (r Rc) scale(k uint64) uint64 {\n\treturn (r.w + r.h) * k\n}\n"})
	pieces = append(pieces, piece{"measure", "func measure(s Shape) uint64 {\n\treturn s.area() + s.scale(3)\n}\n"})
	pieces = append(pieces, piece{"Bag", "type Bag struct {\n\titems []uint64\n\tn uint64\n}\n"})
	pieces = append(pieces, piece{"mkItems", "func mkItems(n uint64, v uint64) []uint64 {\n\ts := make([]uint64, n)\n\tfor i := uint64(0); i < n; i++ {\n\t\ts[i] = v + i\n\t}\n\treturn s\n}\n"})
	pieces = append(pieces, piece{"mkAdder", "func mkAdder(a uint64) func(uint64) uint64 {\n\treturn func(b uint64) uint64 {\n\t\treturn a*10 + b\n\t}\n}\n"})
	pieces = append(pieces, piece{"pick2", "func pick2[T any](x T, y T, first bool) T {\n\tif first {\n\t\treturn x\n\t}\n\treturn y\n}\n"})
	pieces = append(pieces, piece{"G0", fmt.Sprintf("var G0 uint64 = %s\n", g.lit(U64))})
	pieces = append(pieces, piece{"Cell", "type Cell struct {\n\tv uint64\n\tw uint32\n}\n"})
	pieces = append(pieces, piece{"Cell.get", "func (c *Cell) get(k uint64) uint64 {\n\treturn c.v + k\n}\n"})
	pieces = append(pieces, piece{"cellSum", "func cellSum(c Cell) uint64 {\n\treturn c.v + uint64(c.w)\n}\n"})
	pieces = append(pieces, piece{"fmt2", "func fmt2(s string, x uint64) (uint64, string) {\n\treturn uint64(len(s)) + x, s + \"!\"\n}\n"})
	g.funcs = append(g.funcs, FuncSig{Name: "recsum", Params: []Var{{Name: "n", T: U8}, {Name: "acc", T: U64}}, Results: []Ty{U64}, Pure: false})
	// functions
	for i := 0; i < o.Funcs; i++ {
		g.sb.Reset()
		sig := g.function(i)
		pieces = append(pieces, piece{sig.Name, g.sb.String()})
		g.funcs = append(g.funcs, sig)
	}
	// entries
	var entries []Entry
	for i := 0; i < o.Entries; i++ {
		g.sb.Reset()
		name := fmt.Sprintf("entry%d", i)
		g.cur = name
		g.entry(name)
		pieces = append(pieces, piece{name, g.sb.String()})
		var ks []string
		for k := range g.fkeys[name] {
			ks = append(ks, k)
		}
		sort.Strings(ks)
		entries = append(entries, Entry{Name: name, Keys: ks})
	}
	// declaration order is shuffled: goose must order definitions itself
	g.r.Shuffle(len(pieces), func(i, j int) { pieces[i], pieces[j] = pieces[j], pieces[i] })
	var decls strings.Builder
	for _, p := range pieces {
		decls.WriteString(p.text)
		decls.WriteString("\n")
	}
	body.WriteString("package gen\n\n")
	um, ud := strings.Contains(decls.String(), "machine."), strings.Contains(decls.String(), "disk.")
	switch {
	case um && ud:
		body.WriteString("import (\n\t\"github.com/goose-lang/goose/machine\"\n\t\"github.com/goose-lang/goose/machine/disk\"\n)\n\n")
	case um:
		body.WriteString("import \"github.com/goose-lang/goose/machine\"\n\n")
	case ud:
		body.WriteString("import \"github.com/goose-lang/goose/machine/disk\"\n\n")
	}
	body.WriteString(decls.String())
	// transitive keys: an entry inherits the keys of every function (over-approximation keeps masking sound)
	all := map[string]bool{}
	for k := range g.keys {
		all[k] = true
	}
	return Package{Source: body.String(), Entries: entries, Keys: all}
}

func (g *gen) paramType() Ty {
	switch g.pick(10) {
	case 0:
		return SliceOf(U64)
	case 1:
		return PtrTo(U64)
	case 2:
		if len(g.structs) > 0 {
			return PtrTo(Ty{K: "struct", Name: g.structs[g.pick(len(g.structs))].Name})
		}
	case 3:
		if len(g.structs) > 0 {
			return Ty{K: "struct", Name: g.structs[g.pick(len(g.structs))].Name}
		}
	}
	return g.randValueType()
}

func (g *gen) function(i int) FuncSig {
	sig := FuncSig{Name: fmt.Sprintf("fn%d", i), Pure: true}
	g.cur = sig.Name
	s := &scope{}
	fs := &fstate{minLen: map[string]int{}}
	np := g.pick(4)
	for j := 0; j < np; j++ {
		t := g.paramType()
		name := fmt.Sprintf("a%d", j)
		// parameters sometimes carry the name of a package-level constant (shadowing a global)
		if g.chance(15) && len(g.consts) > 0 {
			cn := g.consts[g.pick(len(g.consts))].Name
			dup := false
			for _, p := range sig.Params {
				if p.Name == cn {
					dup = true
				}
			}
			if !dup {
				name = cn
				g.key("shadow.param-global-const")
			}
		}
		v := Var{Name: name, T: t}
		if t.K == "ptr" || t.K == "slice" || t.K == "map" {
			sig.Pure = false
		}
		sig.Params = append(sig.Params, v)
		g.declare(s, v)
		if t.K == "slice" {
			fs.minLen[name] = 0
		}
	}
	// method?
	if g.chance(25) && len(g.structs) > 0 {
		sd := g.structs[g.pick(len(g.structs))]
		rv := Var{Name: "r", T: PtrTo(Ty{K: "struct", Name: sd.Name})}
		sig.Recv = &rv
		sig.Pure = false
		g.declare(s, rv)
		g.key("decl.method")
	}
	nres := []int{1, 1, 1, 2, 0, 3}[g.pick(6)]
	for j := 0; j < nres; j++ {
		sig.Results = append(sig.Results, g.randValueType())
	}
	fs.rets = sig.Results
	var ps []string
	for _, p := range sig.Params {
		ps = append(ps, p.Name+" "+p.T.Go())
	}
	var rs []string
	for _, r := range sig.Results {
		rs = append(rs, r.Go())
	}
	res := ""
	if len(rs) == 1 {
		res = " " + rs[0]
	} else if len(rs) > 1 {
		res = " (" + strings.Join(rs, ", ") + ")"
	}
	recv := ""
	if sig.Recv != nil {
		recv = fmt.Sprintf("(r %s) ", sig.Recv.T.Go())
	}
	g.line(0, "func %s%s(%s)%s {", recv, sig.Name, strings.Join(ps, ", "), res)
	g.funcBody(s, fs, 2+g.pick(5))
	g.line(0, "}")
	return sig
}

func (g *gen) retExprs(s *scope, fs *fstate) string {
	var es []string
	for _, t := range fs.rets {
		es = append(es, g.expr(s, t, 2))
	}
	return strings.Join(es, ", ")
}

// funcBody: statements, early returns in the supported shapes, final return
func (g *gen) funcBody(s *scope, fs *fstate, n int) {
	for i := 0; i < n; i++ {
		if g.chance(18) && len(fs.rets) > 0 {
			// early return: "then" always returns, no else, code follows
			g.key("return.early")
			g.line(1, "if %s {", g.expr(s, Bool, 2))
			inner := &scope{parent: s}
			if g.chance(40) {
				g.stmt(inner, fs, 2, 1)
			}
			if g.chance(30) {
				// nested if whose branches both return
				g.key("return.early-nested")
				g.closeScope(inner, 2)
				g.line(2, "if %s {", g.expr(inner, Bool, 1))
				g.line(3, "return %s", g.retExprs(inner, fs))
				g.line(2, "} else {")
				g.line(3, "return %s", g.retExprs(inner, fs))
				g.line(2, "}")
			} else {
				g.closeScope(inner, 2)
				g.line(2, "return %s", g.retExprs(inner, fs))
			}
			g.line(1, "}")
			continue
		}
		g.stmt(s, fs, 1, 2)
	}
	if len(fs.rets) == 0 {
		g.closeScope(s, 1)
		return
	}
	if g.chance(25) {
		g.key("return.if-else-tail")
		// the uses must come before the tail conditional
		g.closeScope(s, 1)
		g.line(1, "if %s {", g.expr(s, Bool, 2))
		g.line(2, "return %s", g.retExprs(s, fs))
		g.line(1, "} else {")
		g.line(2, "return %s", g.retExprs(s, fs))
		g.line(1, "}")
		return
	}
	g.closeScope(s, 1)
	g.line(1, "return %s", g.retExprs(s, fs))
}

// entry: closed function; its result gathers many of the values computed
func (g *gen) entry(name string) {
	s := &scope{}
	fs := &fstate{minLen: map[string]int{}}
	// result shape
	shape := g.pick(6)
	var rets []Ty
	switch shape {
	case 0:
		rets = []Ty{U64}
	case 1:
		rets = []Ty{U64, Bool}
	case 2:
		rets = []Ty{g.randValueType(), g.randValueType(), U64}
	case 3:
		rets = []Ty{SliceOf(U64)}
	case 4:
		rets = []Ty{Str, U32}
	default:
		rets = []Ty{U8, U64}
	}
	if shape == 5 && len(g.structs) > 0 && g.chance(70) {
		rets = []Ty{PtrTo(Ty{K: "struct", Name: g.structs[0].Name}), U64}
	}
	fs.rets = rets
	var rs []string
	for _, r := range rets {
		rs = append(rs, r.Go())
	}
	res := rs[0]
	if len(rs) > 1 {
		res = "(" + strings.Join(rs, ", ") + ")"
	}
	g.line(0, "func %s() %s {", name, res)
	// seed some state
	g.line(1, "var acc uint64 = %s", g.lit(U64))
	g.declare(s, Var{Name: "acc", T: U64, Assignable: true})
	n := 4 + g.pick(7)
	for i := 0; i < n; i++ {
		g.stmt(s, fs, 1, 2)
		if g.chance(35) {
			// fold a fresh value into acc so that effects become observable
			us := s.ofType(U64, false)
			if len(us) > 0 {
				g.line(1, "acc = acc*31 + %s", us[g.pick(len(us))].Name)
			}
		}
	}
	// fold every integer / bool / string local into acc
	for _, v := range s.all() {
		switch v.T.K {
		case "u64":
			if v.Name != "acc" {
				g.line(1, "acc = acc*31 + %s", v.Name)
			}
		case "u32", "u8":
			g.line(1, "acc = acc*31 + uint64(%s)", v.Name)
		case "bool":
			g.line(1, "if %s {", v.Name)
			g.line(2, "acc = acc + 1")
			g.line(1, "}")
		case "str":
			g.line(1, "acc = acc*31 + uint64(len(%s))", v.Name)
		case "slice":
			if v.T.Elem.IsInt() && fs.minLen[v.Name] > 0 {
				g.line(1, "acc = acc*31 + uint64(%s[0]) + uint64(len(%s))", v.Name, v.Name)
			}
		case "ptr":
			if v.T.Elem.IsInt() {
				g.line(1, "acc = acc*31 + uint64(*%s)", v.Name)
			}
		}
	}
	g.closeScope(s, 1)
	var es []string
	for i, t := range rets {
		switch {
		case t.K == "u64" && i == len(rets)-1 || t.K == "u64" && len(rets) == 1:
			es = append(es, "acc")
		case t.K == "slice":
			vs := s.ofType(t, false)
			if len(vs) > 0 {
				es = append(es, vs[g.pick(len(vs))].Name)
			} else {
				es = append(es, fmt.Sprintf("append(make([]uint64, 0), acc)"))
			}
		case t.K == "ptr":
			vs := s.ofType(t, false)
			if len(vs) > 0 {
				es = append(es, vs[g.pick(len(vs))].Name)
			} else {
				es = append(es, g.zero(t))
			}
		default:
			es = append(es, g.expr(s, t, 2))
		}
	}
	g.line(1, "return %s", strings.Join(es, ", "))
	g.line(0, "}")
}
